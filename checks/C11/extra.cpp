// C11, scenario enumerations that the BFS harness (harness.cpp) cannot express because a copied world loses the hidden state they
// depend on (the capacities of the two storages) or because the state space is too large for BFS (sizes beyond one flag block of
// the wide block types):
//
//  alias-*   every operation that takes a value / optional / xcomplex / proxy argument, called with an argument that REFERS INTO
//            THE CONTAINER ITSELF (an element proxy obtained through every access path, an element of one of the two storages, a
//            reference closure put together from storage elements of two different positions), for every base size, flag pattern,
//            source position, target size (shrinking, equal, growing) and capacity preparation (tight / slack 16 / slack 200, i.e.
//            growth within the capacity and growth that reallocates the value storage, the flag storage or both).
//            Model: the fill value is the pair the designated element held BEFORE the call (what std::vector::resize(n, v[0])
//            guarantees). ASan is part of the oracle.
//  sweep-*   every size of a size set that crosses one and two flag blocks of every block type (uint8_t, uint16_t, uint32_t,
//            uint64_t and - GNU dialect build, C11_WIDE - unsigned __int128), every construction route, EVERY index, every write
//            path, against the model; all positions are compared after every single write (a write that lands in another position,
//            or not at all, shows up wherever it went).
//
// Every scenario is a complete history from a fresh container and has a unique name; "--replay <inst> <name>" runs exactly that one.
#include "common.hpp"

#include <algorithm>
#include <type_traits>

typedef std::vector<OE> OM;
typedef std::vector<CE> CM;
static const std::size_t NONE = std::size_t(-1);

// ---------------------------------------------------------------------------------------------------------------------
// scenario runner
// ---------------------------------------------------------------------------------------------------------------------
struct Runner
{
    std::string inst;
    bool replay = false;
    std::string only;
    bool thorough = false;
    long long scenarios = 0, violating = 0;
    bool replay_found = false;

    const void* cur_ctx = nullptr;
    std::string (*cur_thunk)(const void*) = nullptr;
    const std::string* cur_kind = nullptr;

    void install()
    {
        vf::install_crash_handler();
        vf::crash_hook() = [this](const char* what) {
            if (!cur_thunk) return;
            const std::string name = cur_thunk(cur_ctx);
            vf::violation("C11/" + inst + "/" + *cur_kind + "/crash", "scenario [" + name + "]: the process died with " + what, {"--replay", inst, name});
        };
    }

    // kind: coarse name used in the signature; namefn: builds the unique, replayable name (only evaluated when needed)
    template <class NF, class F>
    void scenario(const std::string& kind, const NF& namefn, F&& f)
    {
        if (replay)
        {
            if (namefn() != only) return;
            replay_found = true;
        }
        cur_ctx = &namefn;
        cur_thunk = [](const void* p) { return (*static_cast<const NF*>(p))(); };
        cur_kind = &kind;
        Errs e;
        try { f(e); }
        catch (const std::exception& x) { e.add("unexpected-exception", std::string("threw ") + x.what()); }
        if (vf::take_asan()) e.add("asan", "AddressSanitizer/UBSan report during the scenario");
        ++scenarios;
        if (!e.empty())
        {
            ++violating;
            const std::string name = namefn();
            for (auto& kv : e.v)
                vf::violation("C11/" + inst + "/" + kind + "/" + kv.first, "scenario [" + name + "]: " + kv.second, {"--replay", inst, name});
            if (replay) std::printf("replay: %s -> VIOLATION\n", name.c_str());
        }
        else if (replay) std::printf("replay: %s -> ok\n", namefn().c_str());
        cur_thunk = nullptr;
    }
};

// ---------------------------------------------------------------------------------------------------------------------
// queries (lighter than the BFS battery: one out-of-range at() per state instead of twenty)
// ---------------------------------------------------------------------------------------------------------------------
static std::string oe(const OE& x) { return "(" + str(x.first) + "," + str(int(x.second)) + ")"; }
static std::string ce(const CE& x) { return "(" + str(x.first) + "," + str(x.second) + ")"; }
static std::string brief(const OM& m)
{
    if (m.size() <= 12) return show(m);
    std::string s = "[size " + str(m.size()) + ": ";
    for (std::size_t i = 0; i < 4; ++i) s += str(m[i].first) + (m[i].second ? "" : "?") + " ";
    s += "... ";
    for (std::size_t i = m.size() - 3; i < m.size(); ++i) s += str(m[i].first) + (m[i].second ? "" : "?") + " ";
    return s + "]";
}

// both storages, position by position
template <class C>
bool opt_storages(const C& cc, const OM& m, Errs& e)
{
    if (!opt_lengths(cc, m.size(), e)) return false;
    for (std::size_t i = 0; i < m.size(); ++i)
        if (cc.value()[i] != m[i].first || bool(cc.has_value()[i]) != m[i].second)
        {
            e.add("state", "storages hold " + oe(OE(cc.value()[i], bool(cc.has_value()[i]))) + " at position " + str(i) + ", model " + oe(m[i]) + " in " + brief(m));
            return false;
        }
    return true;
}

template <class P>
bool same(const P& p, const OE& x) { return p.value() == x.first && bool(p.has_value()) == x.second; }

// element i through the index based access paths
template <class C>
void opt_paths_index(const C& cc, const OM& m, std::size_t i, Errs& e)
{
    C& c = const_cast<C&>(cc);
    const char* bad = nullptr;
    if (!same(cc[i], m[i])) bad = "const operator[]";
    else if (!same(c[i], m[i])) bad = "operator[]";
    else if (!same(cc.at(i), m[i])) bad = "const at()";
    else if (!same(c.at(i), m[i])) bad = "at()";
    else if (i == 0 && (!same(cc.front(), m[i]) || !same(c.front(), m[i]))) bad = "front()";
    else if (i + 1 == m.size() && (!same(cc.back(), m[i]) || !same(c.back(), m[i]))) bad = "back()";
    if (bad) e.add("element", std::string(bad) + " does not read element " + str(i) + " = " + oe(m[i]) + " of " + brief(m));
}
// element i through forward, const and reverse iterators (vectors only: begin() of the array variants is ill-formed)
template <class C>
void opt_paths_iter(const C& cc, const OM& m, std::size_t i, Errs& e)
{
    C& c = const_cast<C&>(cc);
    const std::ptrdiff_t d = std::ptrdiff_t(i), r = std::ptrdiff_t(m.size() - 1 - i);
    const char* bad = nullptr;
    if (!same(*(c.begin() + d), m[i])) bad = "*(begin()+i)";
    else if (!same(*(cc.begin() + d), m[i])) bad = "*(const begin()+i)";
    else if (!same(*(cc.cbegin() + d), m[i])) bad = "*(cbegin()+i)";
    else if (!same(*(c.end() - (r + 1)), m[i])) bad = "*(end()-(n-i))";
    else if (!same(*(c.rbegin() + r), m[i])) bad = "*(rbegin()+(n-1-i))";
    else if (!same(*(cc.rbegin() + r), m[i])) bad = "*(const rbegin()+(n-1-i))";
    else if (!same(*(cc.crbegin() + r), m[i])) bad = "*(crbegin()+(n-1-i))";
    else if ((c.begin() + d)->value() != m[i].first || bool((c.begin() + d)->has_value()) != m[i].second) bad = "(begin()+i)->";
    if (bad) e.add("element", std::string(bad) + " does not read element " + str(i) + " = " + oe(m[i]) + " of " + brief(m));
}
template <class C>
void opt_at_end(const C& cc, std::size_t n, Errs& e)
{
    C& c = const_cast<C&>(cc);
    bool t1 = false, t2 = false;
    try { (void)cc.at(n); } catch (const std::out_of_range&) { t1 = true; }
    try { (void)c.at(n); } catch (const std::out_of_range&) { t2 = true; }
    if (!t1 || !t2) e.add("at-no-throw", "at(" + str(n) + ") did not throw std::out_of_range with size " + str(n));
}
// == holds exactly when sizes, values and flags all match: against a container rebuilt element by element, and against that one
// with the value / the flag of position p changed
template <class C>
void opt_equality(const C& cc, const OM& m, const std::vector<std::size_t>& perturb, Errs& e)
{
    C same_(m.size(), 0);
    for (std::size_t i = 0; i < m.size(); ++i) { same_.value()[i] = m[i].first; same_.has_value()[i] = m[i].second; }
    if (!(cc == same_) || (cc != same_)) { e.add("equality", "== against a container with the model's values and flags is false for " + brief(m)); return; }
    for (std::size_t p : perturb)
    {
        if (p >= m.size()) continue;
        same_.has_value()[p] = !m[p].second;
        if (cc == same_ || !(cc != same_)) { e.add("equality", "== true although the flag of position " + str(p) + " differs, " + brief(m)); return; }
        same_.has_value()[p] = m[p].second;
        same_.value()[p] = m[p].first + 1;
        if (cc == same_ || !(cc != same_)) { e.add("equality", "== true although the value of position " + str(p) + " differs, " + brief(m)); return; }
        same_.value()[p] = m[p].first;
    }
}
template <class C>
void opt_full(const C& cc, const OM& m, Errs& e, std::true_type /*iterators*/)
{
    if (!opt_storages(cc, m, e)) return;
    for (std::size_t i = 0; i < m.size() && e.empty(); ++i) { opt_paths_index(cc, m, i, e); if (e.empty()) opt_paths_iter(cc, m, i, e); }
    if (e.empty()) opt_iterate(cc, m, e);
    opt_at_end(cc, m.size(), e);
}
template <class C>
void opt_full(const C& cc, const OM& m, Errs& e, std::false_type)
{
    if (!opt_storages(cc, m, e)) return;
    for (std::size_t i = 0; i < m.size() && e.empty(); ++i) opt_paths_index(cc, m, i, e);
    opt_at_end(cc, m.size(), e);
}

template <class C>
bool cx_storages(const C& cc, const CM& m, Errs& e)
{
    if (!cx_lengths(cc, m.size(), e)) return false;
    for (std::size_t i = 0; i < m.size(); ++i)
        if (cc.real()[i] != m[i].first || cc.imag()[i] != m[i].second)
        {
            e.add("state", "storages hold " + ce(CE(cc.real()[i], cc.imag()[i])) + " at position " + str(i) + ", model " + ce(m[i]) + " (size " + str(m.size()) + ")");
            return false;
        }
    return true;
}
template <class P>
bool csame(const P& p, const CE& x) { return p.real() == x.first && p.imag() == x.second; }
template <class C>
void cx_paths_index(const C& cc, const CM& m, std::size_t i, Errs& e)
{
    C& c = const_cast<C&>(cc);
    const char* bad = nullptr;
    if (!csame(cc[i], m[i])) bad = "const operator[]";
    else if (!csame(c[i], m[i])) bad = "operator[]";
    else if (!csame(cc.at(i), m[i])) bad = "const at()";
    else if (!csame(c.at(i), m[i])) bad = "at()";
    else if (i == 0 && (!csame(cc.front(), m[i]) || !csame(c.front(), m[i]))) bad = "front()";
    else if (i + 1 == m.size() && (!csame(cc.back(), m[i]) || !csame(c.back(), m[i]))) bad = "back()";
    if (bad) e.add("element", std::string(bad) + " does not read element " + str(i) + " = " + ce(m[i]));
}
template <class C>
void cx_paths_iter(const C& cc, const CM& m, std::size_t i, Errs& e)
{
    C& c = const_cast<C&>(cc);
    const std::ptrdiff_t d = std::ptrdiff_t(i), r = std::ptrdiff_t(m.size() - 1 - i);
    const char* bad = nullptr;
    if (!csame(*(c.begin() + d), m[i])) bad = "*(begin()+i)";
    else if (!csame(*(cc.begin() + d), m[i])) bad = "*(const begin()+i)";
    else if (!csame(*(cc.cbegin() + d), m[i])) bad = "*(cbegin()+i)";
    else if (!csame(*(c.rbegin() + r), m[i])) bad = "*(rbegin()+(n-1-i))";
    else if (!csame(*(cc.crbegin() + r), m[i])) bad = "*(crbegin()+(n-1-i))";
    else if ((c.begin() + d)->real() != m[i].first || (c.begin() + d)->imag() != m[i].second) bad = "(begin()+i)->";
    if (bad) e.add("element", std::string(bad) + " does not read element " + str(i) + " = " + ce(m[i]));
}
template <class C>
void cx_at_end(const C& cc, std::size_t n, Errs& e)
{
    C& c = const_cast<C&>(cc);
    bool t1 = false, t2 = false;
    try { (void)cc.at(n); } catch (const std::out_of_range&) { t1 = true; }
    try { (void)c.at(n); } catch (const std::out_of_range&) { t2 = true; }
    if (!t1 || !t2) e.add("at-no-throw", "at(" + str(n) + ") did not throw std::out_of_range with size " + str(n));
}
template <class C>
void cx_equality(const C& cc, const CM& m, const std::vector<std::size_t>& perturb, Errs& e)
{
    C same_(m.size());
    for (std::size_t i = 0; i < m.size(); ++i) { same_.real()[i] = m[i].first; same_.imag()[i] = m[i].second; }
    if (!(cc == same_) || (cc != same_)) { e.add("equality", "== against a container with the model's parts is false"); return; }
    for (std::size_t p : perturb)
    {
        if (p >= m.size()) continue;
        same_.imag()[p] = m[p].second + 1;
        if (cc == same_ || !(cc != same_)) { e.add("equality", "== true although the imaginary part of position " + str(p) + " differs"); return; }
        same_.imag()[p] = m[p].second;
        same_.real()[p] = m[p].first + 1;
        if (cc == same_ || !(cc != same_)) { e.add("equality", "== true although the real part of position " + str(p) + " differs"); return; }
        same_.real()[p] = m[p].first;
    }
}
template <class C>
void cx_full(const C& cc, const CM& m, Errs& e, std::true_type)
{
    if (!cx_storages(cc, m, e)) return;
    for (std::size_t i = 0; i < m.size() && e.empty(); ++i) { cx_paths_index(cc, m, i, e); if (e.empty()) cx_paths_iter(cc, m, i, e); }
    if (e.empty())
    {
        C& c = const_cast<C&>(cc);
        CM f, r;
        std::size_t k = 0, lim = m.size() + 3;
        for (auto it = c.begin(); !(it == c.end()) && k < lim; ++it, ++k) f.push_back(CE(it->real(), it->imag()));
        k = 0; for (auto it = cc.rbegin(); !(it == cc.rend()) && k < lim; ++it, ++k) r.push_back(CE((*it).real(), (*it).imag()));
        CM rm(m.rbegin(), m.rend());
        if (f != m) e.add("iteration", "forward iteration visits " + str(f.size()) + " elements or other pairs than the model (size " + str(m.size()) + ")");
        if (r != rm) e.add("reverse-iteration", "reverse iteration visits " + str(r.size()) + " elements or other pairs than the model (size " + str(m.size()) + ")");
    }
    cx_at_end(cc, m.size(), e);
}
template <class C>
void cx_full(const C& cc, const CM& m, Errs& e, std::false_type)
{
    if (!cx_storages(cc, m, e)) return;
    for (std::size_t i = 0; i < m.size() && e.empty(); ++i) cx_paths_index(cc, m, i, e);
    cx_at_end(cc, m.size(), e);
}

// ---------------------------------------------------------------------------------------------------------------------
// alias part
// ---------------------------------------------------------------------------------------------------------------------
static std::vector<std::size_t> uniq(std::vector<std::size_t> v)
{
    std::sort(v.begin(), v.end());
    v.erase(std::unique(v.begin(), v.end()), v.end());
    return v;
}

// flag patterns of a base state: all 2^n for n <= 3; above that none / all / even / odd (thorough: also first-only, last-only)
static std::vector<std::vector<bool>> flag_patterns(std::size_t n, bool thorough)
{
    std::vector<std::vector<bool>> r;
    if (n <= 3)
    {
        for (unsigned p = 0; p < (1u << n); ++p) { std::vector<bool> f(n); for (std::size_t i = 0; i < n; ++i) f[i] = (p >> i) & 1; r.push_back(f); }
        return r;
    }
    for (int k = 0; k < (thorough ? 6 : 4); ++k)
    {
        std::vector<bool> f(n);
        for (std::size_t i = 0; i < n; ++i)
            f[i] = k == 0 ? false : k == 1 ? true : k == 2 ? i % 2 == 0 : k == 3 ? i % 2 == 1 : k == 4 ? i == 0 : i + 1 == n;
        r.push_back(f);
    }
    return r;
}
static std::string pat_name(const std::vector<bool>& f) { std::string s; for (bool b : f) s += b ? '+' : '-'; return s; }

struct CapStats
{
    long long shrink = 0, equal = 0, within = 0, realloc_a = 0, realloc_b = 0, realloc_both = 0;
    void classify(std::size_t n0, std::size_t s, std::size_t cap_a, std::size_t cap_b)
    {
        if (s < n0) ++shrink;
        else if (s == n0) ++equal;
        else if (s <= cap_a && s <= cap_b) ++within;
        else if (s > cap_a && s > cap_b) ++realloc_both;
        else if (s > cap_a) ++realloc_a;
        else ++realloc_b;
    }
    void emit() const
    {
        vf::stat("alias_resize_shrinking", shrink); vf::stat("alias_resize_same_size", equal); vf::stat("alias_resize_growth_within_capacity", within);
        vf::stat("alias_resize_growth_reallocating_first_storage_only", realloc_a); vf::stat("alias_resize_growth_reallocating_second_storage_only", realloc_b);
        vf::stat("alias_resize_growth_reallocating_both_storages", realloc_both);
    }
};

typedef std::true_type Yes;
typedef std::false_type No;

// ---- the two container families behind one interface -------------------------------------------------------------------
// make(n0, f, K, m): a base state of size n0 with pairwise distinct contents (a fill taken from the wrong position is visible);
// K == 0: capacity == size (copy of a container), K > 0: the container was resized to K and back before it was filled
// (capacity >= K in both storages: growth up to K happens in place).
template <class CT, bool ITER>
struct OptFam
{
    typedef CT C;
    typedef OM M;
    typedef OE E;
    typedef std::integral_constant<bool, ITER> iters;
    static std::vector<std::vector<bool>> patterns(std::size_t n0, bool thorough) { return flag_patterns(n0, thorough); }
    static void model(std::size_t n0, const std::vector<bool>& f, M& m) { m.clear(); for (std::size_t i = 0; i < n0; ++i) m.push_back(OE(10 + int(i), bool(f[i]))); }
    static void fill(C& c, const M& m) { for (std::size_t i = 0; i < m.size(); ++i) c[i] = mkopt(m[i].first, m[i].second); }
    static std::size_t cap_a(const C& c) { return c.value().capacity(); }
    static std::size_t cap_b(const C& c) { return c.has_value().capacity(); }
    static void full(const C& c, const M& m, Errs& e) { opt_full(c, m, e, iters()); }
    static bool storages(const C& c, const M& m, Errs& e) { return opt_storages(c, m, e); }
    static void paths(const C& c, const M& m, std::size_t i, Errs& e) { opt_paths_index(c, m, i, e); if (e.empty()) paths_iter(c, m, i, e, iters()); }
    static void paths_iter(const C& c, const M& m, std::size_t i, Errs& e, Yes) { opt_paths_iter(c, m, i, e); }
    static void paths_iter(const C&, const M&, std::size_t, Errs&, No) {}
    static void at_end(const C& c, std::size_t n, Errs& e) { opt_at_end(c, n, e); }
    static void equality(const C& c, const M& m, const std::vector<std::size_t>& p, Errs& e) { opt_equality(c, m, p, e); }
};
template <class CT, bool ITER>
struct CxFam
{
    typedef CT C;
    typedef CM M;
    typedef CE E;
    typedef std::integral_constant<bool, ITER> iters;
    static std::vector<std::vector<bool>> patterns(std::size_t n0, bool) { return {std::vector<bool>(n0, true)}; }
    static void model(std::size_t n0, const std::vector<bool>&, M& m) { m.clear(); for (std::size_t i = 0; i < n0; ++i) m.push_back(CE(10 + double(i), 40 + double(i))); }
    static void fill(C& c, const M& m) { for (std::size_t i = 0; i < m.size(); ++i) { c[i].real() = m[i].first; c[i].imag() = m[i].second; } }
    static std::size_t cap_a(const C& c) { return c.real().capacity(); }
    static std::size_t cap_b(const C& c) { return c.imag().capacity(); }
    static void full(const C& c, const M& m, Errs& e) { cx_full(c, m, e, iters()); }
    static bool storages(const C& c, const M& m, Errs& e) { return cx_storages(c, m, e); }
    static void paths(const C& c, const M& m, std::size_t i, Errs& e) { cx_paths_index(c, m, i, e); if (e.empty()) paths_iter(c, m, i, e, iters()); }
    static void paths_iter(const C& c, const M& m, std::size_t i, Errs& e, Yes) { cx_paths_iter(c, m, i, e); }
    static void paths_iter(const C&, const M&, std::size_t, Errs&, No) {}
    static void at_end(const C& c, std::size_t n, Errs& e) { cx_at_end(c, n, e); }
    static void equality(const C& c, const M& m, const std::vector<std::size_t>& p, Errs& e) { cx_equality(c, m, p, e); }
};

template <class Fam>
typename Fam::C make_vector(std::size_t n0, const std::vector<bool>& f, std::size_t K, typename Fam::M& m)
{
    typedef typename Fam::C C;
    Fam::model(n0, f, m);
    C t;
    if (K) { t.resize(K); t.resize(n0); } else t.resize(n0);
    Fam::fill(t, m);
    if (K) return t;        // moved: keeps the capacity
    C tight(t);             // copied: capacity == size
    return tight;
}
template <class Fam>
typename Fam::C make_array(std::size_t n0, const std::vector<bool>& f, typename Fam::M& m)
{
    Fam::model(n0, f, m);
    typename Fam::C c;
    Fam::fill(c, m);
    return c;
}

// what is judged after an aliasing operation: everything for small results; for large ones both storages position by position
// (all of them) and every access path at the positions in `focus`
template <class Fam>
void judge(const typename Fam::C& c, const typename Fam::M& m, const std::vector<std::size_t>& focus, Errs& e)
{
    if (m.size() <= 20) { Fam::full(c, m, e); return; }
    if (!Fam::storages(c, m, e)) return;
    for (std::size_t i : focus) if (i < m.size() && e.empty()) Fam::paths(c, m, i, e);
    Fam::at_end(c, m.size(), e);
}

// ---- designators of an argument that refers into the container itself ------------------------------------------------------
// `with(c, j, k, use)` hands the argument EXPRESSION itself (never a copy) to `use`. From it the three operations are made:
// resize(s, arg), c = C(s, arg), and proxy = arg through every write path (only where that assignment is well-formed on this tree:
// assignment between two xoptional proxies of the same type is deleted, and a complex proxy cannot be assigned from a proxy of
// another instantiation).
static const char* const WPATH[] = {"[i]", "at(i)", "front()", "back()", "*(begin+i)", "*(rbegin+(n-1-i))"};
static bool wpath_ok(int path, std::size_t i, std::size_t n0) { return path == 2 ? i == 0 : path == 3 ? i + 1 == n0 : true; }

template <class C, class X>
void assign_index(C& c, int path, std::size_t i, X&& x)
{
    switch (path)
    {
    case 0: c[i] = std::forward<X>(x); break;
    case 1: c.at(i) = std::forward<X>(x); break;
    case 2: c.front() = std::forward<X>(x); break;
    case 3: c.back() = std::forward<X>(x); break;
    }
}
template <class C, class X>
void assign_iter(C& c, int path, std::size_t i, X&& x, Yes)
{
    if (path == 4) *(c.begin() + std::ptrdiff_t(i)) = std::forward<X>(x);
    else if (path == 5) *(c.rbegin() + std::ptrdiff_t(c.size() - 1 - i)) = std::forward<X>(x);
}
template <class C, class X>
void assign_iter(C&, int, std::size_t, X&&, No) {}

template <class Fam>
struct Source
{
    typedef typename Fam::C C;
    typedef typename Fam::M M;
    typedef typename Fam::E E;
    std::string name;
    bool pair;
    std::function<bool(std::size_t, std::size_t)> ok;
    std::function<E(const M&, std::size_t, std::size_t)> denotes;
    std::function<void(C&, std::size_t, std::size_t, std::size_t)> resize, ctor;          // (c, s, j, k)
    std::function<void(C&, int, std::size_t, std::size_t, std::size_t)> assign;           // (c, path, i, j, k); empty: ill-formed
};

template <class Fam, class WITH> void set_resize(Source<Fam>& s, WITH with, Yes)
{
    typedef typename Fam::C C;
    s.resize = [with](C& c, std::size_t n, std::size_t j, std::size_t k) { with(c, j, k, [&](auto&& x) { c.resize(n, x); }); };
}
template <class Fam, class WITH> void set_resize(Source<Fam>&, WITH, No) {}
template <class Fam, class WITH> void set_assign(Source<Fam>& s, WITH with, Yes)
{
    typedef typename Fam::C C;
    s.assign = [with](C& c, int path, std::size_t i, std::size_t j, std::size_t k) {
        with(c, j, k, [&](auto&& x) {
            if (path < 4) assign_index(c, path, i, std::forward<decltype(x)>(x));
            else assign_iter(c, path, i, std::forward<decltype(x)>(x), typename Fam::iters());
        });
    };
}
template <class Fam, class WITH> void set_assign(Source<Fam>&, WITH, No) {}

template <class Fam, class VEC>
struct Sources
{
    typedef typename Fam::C C;
    std::vector<Source<Fam>> v;
    template <class OK, class DEN, class ASSIGNABLE, class WITH>
    void add(const char* name, bool pair, OK ok, DEN denotes, ASSIGNABLE assignable, WITH with)
    {
        Source<Fam> s;
        s.name = name; s.pair = pair; s.ok = ok; s.denotes = denotes;
        s.ctor = [with](C& c, std::size_t n, std::size_t j, std::size_t k) { with(c, j, k, [&](auto&& x) { c = C(n, x); }); };
        set_resize<Fam>(s, with, VEC());
        set_assign<Fam>(s, with, assignable);
        v.push_back(s);
    }
};

static bool any_pos(std::size_t, std::size_t) { return true; }
static bool first_pos(std::size_t, std::size_t j) { return j == 0; }
static bool last_pos(std::size_t n0, std::size_t j) { return j + 1 == n0; }

template <class Fam, class VEC>
void opt_sources(Sources<Fam, VEC>& S)
{
    typedef typename Fam::C C;
    auto elem = [](const OM& m, std::size_t j, std::size_t) { return m[j]; };
    auto val = [](const OM& m, std::size_t j, std::size_t) { return OE(m[j].first, true); };
    auto mixed = [](const OM& m, std::size_t j, std::size_t k) { return OE(m[j].first, m[k].second); };
    auto flagint = [](const OM& m, std::size_t j, std::size_t) { return OE(int(m[j].second), true); };
    S.add("value()[j]", false, any_pos, val, Yes(), [](C& c, std::size_t j, std::size_t, auto&& use) { use(c.value()[j]); });
    S.add("cvalue()[j]", false, any_pos, val, Yes(), [](C& c, std::size_t j, std::size_t, auto&& use) { const C& cc = c; use(cc.value()[j]); });
    S.add("[j].value()", false, any_pos, val, Yes(), [](C& c, std::size_t j, std::size_t, auto&& use) { use(c[j].value()); });
    S.add("has_value()[j]", false, any_pos, flagint, Yes(), [](C& c, std::size_t j, std::size_t, auto&& use) { use(c.has_value()[j]); });
    S.add("[j]", false, any_pos, elem, No(), [](C& c, std::size_t j, std::size_t, auto&& use) { use(c[j]); });
    S.add("c[j]", false, any_pos, elem, Yes(), [](C& c, std::size_t j, std::size_t, auto&& use) { const C& cc = c; use(cc[j]); });
    S.add("at(j)", false, any_pos, elem, No(), [](C& c, std::size_t j, std::size_t, auto&& use) { use(c.at(j)); });
    S.add("cat(j)", false, any_pos, elem, Yes(), [](C& c, std::size_t j, std::size_t, auto&& use) { const C& cc = c; use(cc.at(j)); });
    S.add("front()", false, first_pos, elem, No(), [](C& c, std::size_t, std::size_t, auto&& use) { use(c.front()); });
    S.add("cfront()", false, first_pos, elem, Yes(), [](C& c, std::size_t, std::size_t, auto&& use) { const C& cc = c; use(cc.front()); });
    S.add("back()", false, last_pos, elem, No(), [](C& c, std::size_t, std::size_t, auto&& use) { use(c.back()); });
    S.add("cback()", false, last_pos, elem, Yes(), [](C& c, std::size_t, std::size_t, auto&& use) { const C& cc = c; use(cc.back()); });
    S.add("optional(value()[j],has_value()[k])", true, any_pos, mixed, No(), [](C& c, std::size_t j, std::size_t k, auto&& use) { use(xtl::optional(c.value()[j], c.has_value()[k])); });
    S.add("optional(cvalue()[j],chas_value()[k])", true, any_pos, mixed, Yes(), [](C& c, std::size_t j, std::size_t k, auto&& use) { const C& cc = c; use(xtl::optional(cc.value()[j], cc.has_value()[k])); });
}
template <class Fam, class VEC>
void opt_sources_iter(Sources<Fam, VEC>& S)
{
    typedef typename Fam::C C;
    auto elem = [](const OM& m, std::size_t j, std::size_t) { return m[j]; };
    auto relem = [](const OM& m, std::size_t j, std::size_t) { return m[m.size() - 1 - j]; };
    S.add("*(begin+j)", false, any_pos, elem, No(), [](C& c, std::size_t j, std::size_t, auto&& use) { use(*(c.begin() + std::ptrdiff_t(j))); });
    S.add("*(cbegin+j)", false, any_pos, elem, Yes(), [](C& c, std::size_t j, std::size_t, auto&& use) { use(*(c.cbegin() + std::ptrdiff_t(j))); });
    S.add("*(rbegin+j)", false, any_pos, relem, No(), [](C& c, std::size_t j, std::size_t, auto&& use) { use(*(c.rbegin() + std::ptrdiff_t(j))); });
    S.add("*(crbegin+j)", false, any_pos, relem, Yes(), [](C& c, std::size_t j, std::size_t, auto&& use) { use(*(c.crbegin() + std::ptrdiff_t(j))); });
}
template <class Fam, class VEC>
void cx_sources(Sources<Fam, VEC>& S)
{
    typedef typename Fam::C C;
    auto elem = [](const CM& m, std::size_t j, std::size_t) { return m[j]; };
    auto mixed = [](const CM& m, std::size_t j, std::size_t k) { return CE(m[j].first, m[k].second); };
    auto re = [](const CM& m, std::size_t j, std::size_t) { return CE(m[j].first, 0); };
    auto im = [](const CM& m, std::size_t j, std::size_t) { return CE(m[j].second, 0); };
    S.add("[j]", false, any_pos, elem, Yes(), [](C& c, std::size_t j, std::size_t, auto&& use) { use(c[j]); });
    S.add("c[j]", false, any_pos, elem, No(), [](C& c, std::size_t j, std::size_t, auto&& use) { const C& cc = c; use(cc[j]); });
    S.add("at(j)", false, any_pos, elem, Yes(), [](C& c, std::size_t j, std::size_t, auto&& use) { use(c.at(j)); });
    S.add("cat(j)", false, any_pos, elem, No(), [](C& c, std::size_t j, std::size_t, auto&& use) { const C& cc = c; use(cc.at(j)); });
    S.add("front()", false, first_pos, elem, Yes(), [](C& c, std::size_t, std::size_t, auto&& use) { use(c.front()); });
    S.add("cfront()", false, first_pos, elem, No(), [](C& c, std::size_t, std::size_t, auto&& use) { const C& cc = c; use(cc.front()); });
    S.add("back()", false, last_pos, elem, Yes(), [](C& c, std::size_t, std::size_t, auto&& use) { use(c.back()); });
    S.add("cback()", false, last_pos, elem, No(), [](C& c, std::size_t, std::size_t, auto&& use) { const C& cc = c; use(cc.back()); });
    // a reference closure put together from one element of each storage (real part from the real storage, imaginary part from the
    // imaginary storage; the crossed combination is not enumerated, see NOTES.md)
    S.add("xcomplex<double&,double&>(real()[j],imag()[k])", true, any_pos, mixed, Yes(), [](C& c, std::size_t j, std::size_t k, auto&& use) { use(xtl::xcomplex<double&, double&>(c.real()[j], c.imag()[k])); });
    S.add("xcomplex<const double&,const double&>(creal()[j],cimag()[k])", true, any_pos, mixed, No(), [](C& c, std::size_t j, std::size_t k, auto&& use) { const C& cc = c; use(xtl::xcomplex<const double&, const double&>(cc.real()[j], cc.imag()[k])); });
    S.add("real()[j]", false, any_pos, re, Yes(), [](C& c, std::size_t j, std::size_t, auto&& use) { use(c.real()[j]); });
    S.add("imag()[j]", false, any_pos, im, Yes(), [](C& c, std::size_t j, std::size_t, auto&& use) { use(c.imag()[j]); });
}
template <class Fam, class VEC>
void cx_sources_iter(Sources<Fam, VEC>& S)
{
    typedef typename Fam::C C;
    auto elem = [](const CM& m, std::size_t j, std::size_t) { return m[j]; };
    auto relem = [](const CM& m, std::size_t j, std::size_t) { return m[m.size() - 1 - j]; };
    S.add("*(begin+j)", false, any_pos, elem, Yes(), [](C& c, std::size_t j, std::size_t, auto&& use) { use(*(c.begin() + std::ptrdiff_t(j))); });
    S.add("*(cbegin+j)", false, any_pos, elem, No(), [](C& c, std::size_t j, std::size_t, auto&& use) { use(*(c.cbegin() + std::ptrdiff_t(j))); });
    S.add("*(rbegin+j)", false, any_pos, relem, Yes(), [](C& c, std::size_t j, std::size_t, auto&& use) { use(*(c.rbegin() + std::ptrdiff_t(j))); });
    S.add("*(crbegin+j)", false, any_pos, relem, No(), [](C& c, std::size_t j, std::size_t, auto&& use) { use(*(c.crbegin() + std::ptrdiff_t(j))); });
}

// writes of one part of an element from a part of another element of the same container
template <class Fam>
struct Part { const char* name; std::function<void(typename Fam::C&, std::size_t, std::size_t)> op; std::function<void(typename Fam::M&, std::size_t, std::size_t)> mop; };
template <class Fam>
std::vector<Part<Fam>> opt_parts()
{
    typedef typename Fam::C C;
    return {
        {"[i].value()=value()[j]", [](C& c, std::size_t i, std::size_t j) { c[i].value() = c.value()[j]; }, [](OM& m, std::size_t i, std::size_t j) { m[i].first = m[j].first; }},
        {"[i].value()=[j].value()", [](C& c, std::size_t i, std::size_t j) { c[i].value() = c[j].value(); }, [](OM& m, std::size_t i, std::size_t j) { m[i].first = m[j].first; }},
        {"value()[i]=c[j].value()", [](C& c, std::size_t i, std::size_t j) { const C& cc = c; c.value()[i] = cc[j].value(); }, [](OM& m, std::size_t i, std::size_t j) { m[i].first = m[j].first; }},
        {"[i].has_value()=has_value()[j]", [](C& c, std::size_t i, std::size_t j) { c[i].has_value() = c.has_value()[j]; }, [](OM& m, std::size_t i, std::size_t j) { m[i].second = m[j].second; }},
        {"[i].has_value()=[j].has_value()", [](C& c, std::size_t i, std::size_t j) { c[i].has_value() = c[j].has_value(); }, [](OM& m, std::size_t i, std::size_t j) { m[i].second = m[j].second; }},
        {"[i].has_value()=c[j].has_value()", [](C& c, std::size_t i, std::size_t j) { const C& cc = c; c[i].has_value() = cc[j].has_value(); }, [](OM& m, std::size_t i, std::size_t j) { m[i].second = m[j].second; }},
        {"has_value()[i]=has_value()[j]", [](C& c, std::size_t i, std::size_t j) { c.has_value()[i] = c.has_value()[j]; }, [](OM& m, std::size_t i, std::size_t j) { m[i].second = m[j].second; }},
        {"has_value()[i]=chas_value()[j]", [](C& c, std::size_t i, std::size_t j) { const C& cc = c; c.has_value()[i] = cc.has_value()[j]; }, [](OM& m, std::size_t i, std::size_t j) { m[i].second = m[j].second; }},
        {"[i]=xoptional<int>([j])", [](C& c, std::size_t i, std::size_t j) { xtl::xoptional<int> t = c[j]; c[i] = t; }, [](OM& m, std::size_t i, std::size_t j) { m[i] = m[j]; }},
    };
}
template <class Fam>
std::vector<Part<Fam>> cx_parts()
{
    typedef typename Fam::C C;
    return {
        {"[i].real()=imag()[j]", [](C& c, std::size_t i, std::size_t j) { c[i].real() = c.imag()[j]; }, [](CM& m, std::size_t i, std::size_t j) { m[i].first = m[j].second; }},
        {"[i].imag()=real()[j]", [](C& c, std::size_t i, std::size_t j) { c[i].imag() = c.real()[j]; }, [](CM& m, std::size_t i, std::size_t j) { m[i].second = m[j].first; }},
        {"[i].real()=[j].real()", [](C& c, std::size_t i, std::size_t j) { c[i].real() = c[j].real(); }, [](CM& m, std::size_t i, std::size_t j) { m[i].first = m[j].first; }},
        {"[i].imag()=c[j].imag()", [](C& c, std::size_t i, std::size_t j) { const C& cc = c; c[i].imag() = cc[j].imag(); }, [](CM& m, std::size_t i, std::size_t j) { m[i].second = m[j].second; }},
        {"[i]=parts of xcomplex<double>([j])", [](C& c, std::size_t i, std::size_t j) { xtl::xcomplex<double> t(c[j]); c[i].real() = t.real(); c[i].imag() = t.imag(); }, [](CM& m, std::size_t i, std::size_t j) { m[i] = m[j]; }},
    };
}

struct AliasCfg
{
    std::vector<std::size_t> bases, slack;
    bool thorough;
    std::vector<std::size_t> targets(std::size_t n0) const
    {
        std::vector<std::size_t> t = {0, 1, n0 - 1, n0, n0 + 1, 9, 16, 17, 65, 130};
        if (thorough) for (std::size_t x : {n0 + 2, 2 * n0, 2 * n0 + 1, std::size_t(8), std::size_t(64), std::size_t(128), std::size_t(129), std::size_t(200), std::size_t(201), std::size_t(257)}) t.push_back(x);
        return uniq(t);
    }
    // second positions of the two-position designators: all of them for small bases, the ends and the mirrored one above
    std::vector<std::size_t> seconds(std::size_t n0, std::size_t j, bool pair) const
    {
        if (!pair) return {NONE};
        std::vector<std::size_t> r;
        if (n0 <= 4) { for (std::size_t k = 0; k < n0; ++k) r.push_back(k); return r; }
        return thorough ? uniq({0, j, n0 - 1 - j, n0 - 2, n0 - 1}) : uniq({j, n0 - 1 - j, n0 - 1});
    }
};
static AliasCfg alias_cfg(bool thorough)
{
    AliasCfg c;
    c.thorough = thorough;
    c.bases = thorough ? std::vector<std::size_t>{1, 2, 3, 4, 5, 8, 9, 17} : std::vector<std::size_t>{1, 2, 3, 9};
    c.slack = thorough ? std::vector<std::size_t>{0, 16, 64, 200} : std::vector<std::size_t>{0, 16, 200};
    return c;
}
static std::string jk_name(std::size_t j, std::size_t k) { return "j=" + str(j) + (k == NONE ? "" : ",k=" + str(k)); }

// vectors: resize / constructor / element write with every designator; part writes; self assignment
template <class Fam>
void alias_vector(Runner& R, const std::vector<Source<Fam>>& sources, const std::vector<Part<Fam>>& parts)
{
    typedef typename Fam::C C;
    typedef typename Fam::M M;
    typedef typename Fam::E E;
    const AliasCfg cfg = alias_cfg(R.thorough);
    CapStats cs;
    for (auto& src : sources)
    {
        const std::string& S = src.name;
        const std::string kind_r = "alias-resize(n," + S + ")", kind_c = "alias-ctor(n," + S + ")";
        for (std::size_t n0 : cfg.bases)
            for (auto& f : Fam::patterns(n0, R.thorough))
                for (std::size_t j = 0; j < n0; ++j)
                {
                    if (!src.ok(n0, j)) continue;
                    for (std::size_t k : cfg.seconds(n0, j, src.pair))
                    {
                        for (std::size_t s : cfg.targets(n0))
                        {
                            for (std::size_t K : cfg.slack)
                                R.scenario(kind_r, [&] { return "base " + str(n0) + " " + pat_name(f) + " slack " + str(K) + "; resize(" + str(s) + "," + S + ") " + jk_name(j, k); },
                                           [&](Errs& e) {
                                               M m;
                                               C c = make_vector<Fam>(n0, f, K, m);
                                               const E fv = src.denotes(m, j, k);
                                               cs.classify(n0, s, Fam::cap_a(c), Fam::cap_b(c));
                                               src.resize(c, s, j, k);
                                               m.resize(s, fv);
                                               judge<Fam>(c, m, {0, j, n0 - 1, n0, n0 + 1, 63, 64, 65, s - 2, s - 1}, e);
                                               if (e.empty()) Fam::equality(c, m, {0, n0 - 1, n0, s - 1}, e);
                                           });
                            // constructor with an argument referring into the container that is then assigned to
                            R.scenario(kind_c, [&] { return "base " + str(n0) + " " + pat_name(f) + "; c=C(" + str(s) + "," + S + ") " + jk_name(j, k); },
                                       [&](Errs& e) {
                                           M m;
                                           C c = make_vector<Fam>(n0, f, 0, m);
                                           const E fv = src.denotes(m, j, k);
                                           src.ctor(c, s, j, k);
                                           m.assign(s, fv);
                                           judge<Fam>(c, m, {0, j, 63, 64, 65, s - 2, s - 1}, e);
                                       });
                        }
                        if (!src.assign) continue;
                        for (int path = 0; path < 6; ++path)
                        {
                            const std::string kind = std::string("alias-write ") + WPATH[path] + "=" + S;
                            for (std::size_t i = 0; i < n0; ++i)
                            {
                                if (!wpath_ok(path, i, n0)) continue;
                                R.scenario(kind, [&] { return "base " + str(n0) + " " + pat_name(f) + "; " + WPATH[path] + "=" + S + " i=" + str(i) + "," + jk_name(j, k); },
                                           [&](Errs& e) {
                                               M m;
                                               C c = make_vector<Fam>(n0, f, 0, m);
                                               const E fv = src.denotes(m, j, k);
                                               src.assign(c, path, i, j, k);
                                               m[i] = fv;
                                               Fam::full(c, m, e);
                                           });
                            }
                        }
                    }
                }
    }
    for (auto& p : parts)
    {
        const std::string kind = std::string("alias-part ") + p.name;
        for (std::size_t n0 : cfg.bases)
            for (auto& f : Fam::patterns(n0, R.thorough))
                for (std::size_t i = 0; i < n0; ++i)
                    for (std::size_t j = 0; j < n0; ++j)
                        R.scenario(kind, [&] { return "base " + str(n0) + " " + pat_name(f) + "; " + p.name + " i=" + str(i) + ",j=" + str(j); },
                                   [&](Errs& e) {
                                       M m;
                                       C c = make_vector<Fam>(n0, f, 0, m);
                                       p.op(c, i, j);
                                       p.mop(m, i, j);
                                       Fam::full(c, m, e);
                                   });
    }
    const std::string kind = "alias-self-assign";
    for (std::size_t n0 : cfg.bases)
        for (auto& f : Fam::patterns(n0, R.thorough))
            for (std::size_t K : cfg.slack)
                R.scenario(kind, [&] { return "base " + str(n0) + " " + pat_name(f) + " slack " + str(K) + "; c=c"; },
                           [&](Errs& e) {
                               M m;
                               C c = make_vector<Fam>(n0, f, K, m);
                               C& alias = c;
                               c = alias;
                               Fam::full(c, m, e);
                           });
    cs.emit();
}

// arrays (size 3): no resize; constructor with the array's own size and element writes
template <class Fam>
void alias_array(Runner& R, const std::vector<Source<Fam>>& sources, const std::vector<Part<Fam>>& parts)
{
    typedef typename Fam::C C;
    typedef typename Fam::M M;
    typedef typename Fam::E E;
    const std::size_t n0 = 3;
    for (auto& src : sources)
    {
        const std::string& S = src.name;
        const std::string kind_c = "alias-array-ctor(n," + S + ")";
        for (auto& f : Fam::patterns(n0, R.thorough))
            for (std::size_t j = 0; j < n0; ++j)
            {
                if (!src.ok(n0, j)) continue;
                for (std::size_t k = 0; k < (src.pair ? n0 : 1); ++k)
                {
                    const std::size_t kk = src.pair ? k : NONE;
                    R.scenario(kind_c, [&] { return "array " + pat_name(f) + "; c=C(3," + S + ") " + jk_name(j, kk); },
                               [&](Errs& e) {
                                   M m;
                                   C c = make_array<Fam>(n0, f, m);
                                   const E fv = src.denotes(m, j, kk);
                                   src.ctor(c, n0, j, kk);
                                   m.assign(n0, fv);
                                   Fam::full(c, m, e);
                               });
                    if (!src.assign) continue;
                    for (int path = 0; path < 4; ++path)
                    {
                        const std::string kind = std::string("alias-array-write ") + WPATH[path] + "=" + S;
                        for (std::size_t i = 0; i < n0; ++i)
                        {
                            if (!wpath_ok(path, i, n0)) continue;
                            R.scenario(kind, [&] { return "array " + pat_name(f) + "; " + WPATH[path] + "=" + S + " i=" + str(i) + "," + jk_name(j, kk); },
                                       [&](Errs& e) {
                                           M m;
                                           C c = make_array<Fam>(n0, f, m);
                                           const E fv = src.denotes(m, j, kk);
                                           src.assign(c, path, i, j, kk);
                                           m[i] = fv;
                                           Fam::full(c, m, e);
                                       });
                        }
                    }
                }
            }
    }
    for (auto& p : parts)
    {
        const std::string kind = std::string("alias-array-part ") + p.name;
        for (auto& f : Fam::patterns(n0, R.thorough))
            for (std::size_t i = 0; i < n0; ++i)
                for (std::size_t j = 0; j < n0; ++j)
                    R.scenario(kind, [&] { return "array " + pat_name(f) + "; " + p.name + " i=" + str(i) + ",j=" + str(j); },
                               [&](Errs& e) {
                                   M m;
                                   C c = make_array<Fam>(n0, f, m);
                                   p.op(c, i, j);
                                   p.mop(m, i, j);
                                   Fam::full(c, m, e);
                               });
    }
}

template <class B>
void alias_ov(Runner& R)
{
    typedef OptFam<xtl::xoptional_vector<int, std::allocator<int>, xtl::xdynamic_bitset<B>>, true> Fam;
    Sources<Fam, Yes> S;
    opt_sources(S);
    opt_sources_iter(S);
    alias_vector<Fam>(R, S.v, opt_parts<Fam>());
}
#if C11_ALIAS
static void alias_oa(Runner& R)
{
    typedef OptFam<xtl::xoptional_array<int, 3>, false> Fam;
    Sources<Fam, No> S;
    opt_sources(S);
    alias_array<Fam>(R, S.v, opt_parts<Fam>());
}
static void alias_cv(Runner& R)
{
    typedef CxFam<xtl::xcomplex_vector<double>, true> Fam;
    Sources<Fam, Yes> S;
    cx_sources(S);
    cx_sources_iter(S);
    alias_vector<Fam>(R, S.v, cx_parts<Fam>());
}
static void alias_ca(Runner& R)
{
    typedef CxFam<xtl::xcomplex_array<double, 3>, false> Fam;
    Sources<Fam, No> S;
    cx_sources(S);
    alias_array<Fam>(R, S.v, cx_parts<Fam>());
}
#endif

// ---------------------------------------------------------------------------------------------------------------------
// size sweep
// ---------------------------------------------------------------------------------------------------------------------
static std::vector<std::size_t> sweep_sizes(std::size_t w, bool thorough)
{
    std::vector<std::size_t> v;
    const std::size_t top = std::max<std::size_t>(2 * w + 2, 130);
    if (thorough) { for (std::size_t n = 0; n <= top; ++n) v.push_back(n); return v; }
    v = {0, 1, 2, 3, w - 1, w, w + 1, 2 * w - 1, 2 * w, 2 * w + 1, 63, 64, 65};
    return uniq(v);
}

// construction routes of an optional vector of size n (every constructor taking a size, the three resize overloads growing,
// shrinking, and growing again over positions that were occupied before)
static const int OV_ROUTES = 8;
template <class C>
void ov_route(int r, std::size_t n, C& c, OM& m)
{
    const std::size_t h = n / 2;
    switch (r)
    {
    case 0: c = C(n, 7); m.assign(n, OE(7, true)); break;
    case 1: c = C(n, xtl::missing<int>()); m.assign(n, OE(0, false)); break;
    case 2: c = C(n, xtl::xoptional<int>(7, false)); m.assign(n, OE(7, false)); break;
    case 3: c = C(); c.resize(n); m.assign(n, OE(0, false)); break;
    case 4: c = C(h, 7); c.resize(n); m.assign(h, OE(7, true)); m.resize(n, OE(0, false)); break;
    case 5: c = C(h, xtl::missing<int>()); c.resize(n, 3); m.assign(h, OE(0, false)); m.resize(n, OE(3, true)); break;
    case 6: c = C(2 * n + 1, 7); c.resize(n); m.assign(n, OE(7, true)); break;
    case 7: c = C(n, 7); c.resize(h); c.resize(n, xtl::xoptional<int>(3, false)); m.assign(h, OE(7, true)); m.resize(n, OE(3, false)); break;
    }
}
static const char* const OV_ROUTE_NAME[] = {"C(n,7)", "C(n,missing)", "C(n,optional(7,0))", "C();resize(n)", "C(n/2,7);resize(n)", "C(n/2,missing);resize(n,3)",
                                           "C(2n+1,7);resize(n)", "C(n,7);resize(n/2);resize(n,optional(3,0))"};

// single-element writes: every write path x what is written
struct OvWrite { const char* name; bool iter; std::function<bool(std::size_t, std::size_t)> ok; };
static const int OV_WRITES = 20;
template <class C>
bool ov_write(int w, C& c, OM& m, std::size_t i, std::true_type iters)
{
    (void)iters;
    const std::size_t n = m.size();
    const std::ptrdiff_t d = std::ptrdiff_t(i), r = std::ptrdiff_t(n - 1 - i);
    switch (w)
    {
    case 12: *(c.begin() + d) = mkopt(5, false); m[i] = OE(5, false); return true;
    case 13: *(c.begin() + d) = mkopt(5, true); m[i] = OE(5, true); return true;
    case 14: *(c.rbegin() + r) = mkopt(5, false); m[i] = OE(5, false); return true;
    case 15: *(c.rbegin() + r) = mkopt(5, true); m[i] = OE(5, true); return true;
    case 16: *(c.end() - (r + 1)) = mkopt(5, !m[i].second); m[i] = OE(5, !m[i].second); return true;
    case 17: (c.begin() + d)->has_value() = !m[i].second; m[i].second = !m[i].second; return true;
    case 18: { auto it = c.begin(); for (std::size_t k = 0; k < i; ++k) ++it; *it = mkopt(5, !m[i].second); m[i] = OE(5, !m[i].second); return true; }
    case 19: { auto it = c.rend(); it -= (d + 1); *it = mkopt(5, !m[i].second); m[i] = OE(5, !m[i].second); return true; }
    }
    return false;
}
template <class C>
bool ov_write(int, C&, OM&, std::size_t, std::false_type) { return false; }
static const char* const OV_WRITE_NAME[] = {"[i]=(5,0)", "[i]=(5,1)", "at(i)=(5,0)", "at(i)=(5,1)", "front()=(5,!f)", "back()=(5,!f)", "[i].has_value()=!f", "[i].value()=5",
                                           "has_value()[i]=!f", "value()[i]=5", "[i]=5", "[i]=missing", "*(begin+i)=(5,0)", "*(begin+i)=(5,1)", "*(rbegin+(n-1-i))=(5,0)",
                                           "*(rbegin+(n-1-i))=(5,1)", "*(end-(n-i))=(5,!f)", "(begin+i)->has_value()=!f", "*(begin ++ i times)=(5,!f)", "*(rend-=(i+1))=(5,!f)"};
template <class C, class IT>
bool ov_write_any(int w, C& c, OM& m, std::size_t i, IT iters)
{
    const std::size_t n = m.size();
    switch (w)
    {
    case 0: c[i] = mkopt(5, false); m[i] = OE(5, false); return true;
    case 1: c[i] = mkopt(5, true); m[i] = OE(5, true); return true;
    case 2: c.at(i) = mkopt(5, false); m[i] = OE(5, false); return true;
    case 3: c.at(i) = mkopt(5, true); m[i] = OE(5, true); return true;
    case 4: if (i != 0) return false; c.front() = mkopt(5, !m[i].second); m[i] = OE(5, !m[i].second); return true;
    case 5: if (i + 1 != n) return false; c.back() = mkopt(5, !m[i].second); m[i] = OE(5, !m[i].second); return true;
    case 6: c[i].has_value() = !m[i].second; m[i].second = !m[i].second; return true;
    case 7: c[i].value() = 5; m[i].first = 5; return true;
    case 8: c.has_value()[i] = !m[i].second; m[i].second = !m[i].second; return true;
    case 9: c.value()[i] = 5; m[i].first = 5; return true;
    case 10: c[i] = 5; m[i] = OE(5, true); return true;
    case 11: c[i] = xtl::missing<int>(); m[i] = OE(0, false); return true;
    }
    return ov_write(w, c, m, i, iters);
}

struct SweepStats { long long builds = 0, writes = 0, positions_compared = 0; };

// one (size, route): judge the built state completely, then every single-element write from a copy of it
template <class C, class IT, class BUILD>
void sweep_opt_one(Runner& R, SweepStats& st, const std::string& what, std::size_t n, const BUILD& build, IT iters)
{
    static const std::string kind_b = "sweep-build";
    R.scenario(kind_b, [&] { return what; }, [&](Errs& e) {
        C c(n, 0); OM m;
        build(c, m);
        opt_full(c, m, e, iters);
        if (e.empty()) opt_equality(c, m, {0, n / 2, n - 1, 63, 64, 127, 128}, e);
        ++st.builds; st.positions_compared += (long long)n;
    });
    C base(n, 0); OM bm;
    if (!R.replay) { build(base, bm); (void)vf::take_asan(); }   // judged by the scenario above
    for (int w = 0; w < OV_WRITES; ++w)
    {
        const std::string kind = std::string("sweep-write ") + OV_WRITE_NAME[w];
        for (std::size_t i = 0; i < n; ++i)
            R.scenario(kind, [&] { return what + "; " + OV_WRITE_NAME[w] + " i=" + str(i); }, [&](Errs& e) {
                if (R.replay) build(base, bm);
                C c(base); OM m(bm);
                if (!ov_write_any(w, c, m, i, iters)) { --R.scenarios; return; }
                if (!opt_storages(c, m, e)) return;
                opt_paths_index(c, m, i, e);
                // == against the unwritten state holds exactly when the write changed nothing
                if ((c == base) != (m == bm) || (c != base) == (m == bm)) e.add("equality", "== / != against the state before the write is wrong: element " + str(i) + " " + oe(bm[i]) + " -> " + oe(m[i]));
                ++st.writes; st.positions_compared += (long long)n;
            });
    }
}

template <class B>
void sweep_ov(Runner& R)
{
    typedef xtl::xoptional_vector<int, std::allocator<int>, xtl::xdynamic_bitset<B>> C;
    SweepStats st;
    for (std::size_t n : sweep_sizes(8 * sizeof(B), R.thorough))
        for (int r = 0; r < OV_ROUTES; ++r)
        {
            if (n == 0 && r > 3) continue;   // the halves coincide
            sweep_opt_one<C>(R, st, "n=" + str(n) + " " + OV_ROUTE_NAME[r], n, [&](C& c, OM& m) { ov_route(r, n, c, m); }, Yes());
        }
    vf::stat("sweep_states_built", st.builds); vf::stat("sweep_single_writes", st.writes); vf::stat("sweep_positions_compared", st.positions_compared);
}

// xoptional_array<int,130,xdynamic_bitset<B>>: 130 crosses 64 and 128
template <class B>
void sweep_oa(Runner& R)
{
    static const std::size_t N = 130;
    typedef xtl::xoptional_array<int, N, xtl::xdynamic_bitset<B>> C;
    SweepStats st;
    static const char* const ROUTE[] = {"C()", "C() default-initialised into 0xA5 storage", "C(n,7)", "C(n,missing)", "C(n,optional(7,0))"};
    for (int r = 0; r < 5; ++r)
        sweep_opt_one<C>(R, st, std::string("array n=130 ") + ROUTE[r], N, [&](C& c, OM& m) {
            switch (r)
            {
            case 0: c = C(); m.assign(N, OE(0, false)); for (std::size_t i = 0; i < N; ++i) m[i].first = c.value()[i]; break;
            case 1:
            {
                alignas(16) static unsigned char buf[sizeof(C)];
                std::memset(buf, 0xA5, sizeof buf);
                C* p = new (buf) C;
                c = *p;
                p->~C();
                m.assign(N, OE(0, false)); for (std::size_t i = 0; i < N; ++i) m[i].first = c.value()[i];   // the values of missing elements are not specified
                break;
            }
            case 2: c = C(N, 7); m.assign(N, OE(7, true)); break;
            case 3: c = C(N, xtl::missing<int>()); m.assign(N, OE(0, false)); break;
            case 4: c = C(N, xtl::xoptional<int>(7, false)); m.assign(N, OE(7, false)); break;
            }
        }, No());
    vf::stat("sweep_states_built", st.builds); vf::stat("sweep_single_writes", st.writes); vf::stat("sweep_positions_compared", st.positions_compared);
}

// complex vector / array: sizes beyond 64 and 128, every index, every write path
static const char* const CV_WRITE_NAME[] = {"[i]=(5,6)", "at(i)=(5,6)", "front()=(5,6)", "back()=(5,6)", "[i].real()=5", "[i].imag()=6", "real()[i]=5", "imag()[i]=6", "[i]=5",
                                           "*(begin+i)=(5,6)", "*(rbegin+(n-1-i))=(5,6)", "(begin+i)->imag()=6"};
template <class C>
bool cv_write_iter(int w, C& c, CM& m, std::size_t i, std::true_type)
{
    const std::ptrdiff_t d = std::ptrdiff_t(i), r = std::ptrdiff_t(m.size() - 1 - i);
    switch (w)
    {
    case 9: CXSET(*(c.begin() + d), 5, 6); m[i] = CE(5, 6); return true;
    case 10: CXSET(*(c.rbegin() + r), 5, 6); m[i] = CE(5, 6); return true;
    case 11: (c.begin() + d)->imag() = 6; m[i].second = 6; return true;
    }
    return false;
}
template <class C>
bool cv_write_iter(int, C&, CM&, std::size_t, std::false_type) { return false; }
template <class C, class IT>
bool cv_write_any(int w, C& c, CM& m, std::size_t i, IT iters)
{
    switch (w)
    {
    case 0: CXSET(c[i], 5, 6); m[i] = CE(5, 6); return true;
    case 1: CXSET(c.at(i), 5, 6); m[i] = CE(5, 6); return true;
    case 2: if (i != 0) return false; CXSET(c.front(), 5, 6); m[i] = CE(5, 6); return true;
    case 3: if (i + 1 != m.size()) return false; CXSET(c.back(), 5, 6); m[i] = CE(5, 6); return true;
    case 4: c[i].real() = 5; m[i].first = 5; return true;
    case 5: c[i].imag() = 6; m[i].second = 6; return true;
    case 6: c.real()[i] = 5; m[i].first = 5; return true;
    case 7: c.imag()[i] = 6; m[i].second = 6; return true;
    case 8: c[i] = 5.0; m[i] = CE(5, 0); return true;
    }
    return cv_write_iter(w, c, m, i, iters);
}
template <class C, class IT, class BUILD>
void sweep_cx_one(Runner& R, SweepStats& st, const std::string& what, std::size_t n, const BUILD& build, IT iters)
{
    static const std::string kind_b = "sweep-cx-build";
    R.scenario(kind_b, [&] { return what; }, [&](Errs& e) {
        C c(n); CM m;
        build(c, m);
        cx_full(c, m, e, iters);
        if (e.empty()) cx_equality(c, m, {0, n / 2, n - 1}, e);
        ++st.builds; st.positions_compared += (long long)n;
    });
    C base(n); CM bm;
    if (!R.replay) { build(base, bm); (void)vf::take_asan(); }
    for (int w = 0; w < 12; ++w)
    {
        const std::string kind = std::string("sweep-cx-write ") + CV_WRITE_NAME[w];
        for (std::size_t i = 0; i < n; ++i)
            R.scenario(kind, [&] { return what + "; " + CV_WRITE_NAME[w] + " i=" + str(i); }, [&](Errs& e) {
                if (R.replay) build(base, bm);
                C c(base); CM m(bm);
                if (!cv_write_any(w, c, m, i, iters)) { --R.scenarios; return; }
                if (!cx_storages(c, m, e)) return;
                cx_paths_index(c, m, i, e);
                if ((c == base) != (m == bm) || (c != base) == (m == bm)) e.add("equality", "== / != against the state before the write is wrong: element " + str(i));
                ++st.writes; st.positions_compared += (long long)n;
            });
    }
}
#if !C11_ALIAS && !C11_WIDE
static void sweep_cx(Runner& R)
{
    typedef xtl::xcomplex<double> Z;
    SweepStats st;
    {
        typedef xtl::xcomplex_vector<double> C;
        static const char* const ROUTE[] = {"C(n)", "C(n,1+2i)", "C();resize(n)", "C(n/2,1+2i);resize(n)", "C(n/2);resize(n,3+4i)", "C(2n+1,1+2i);resize(n)",
                                            "C(n,1+2i);resize(n/2);resize(n,xcomplex<double&,double&>(3,4))"};
        for (std::size_t n : sweep_sizes(64, R.thorough))
            for (int r = 0; r < 7; ++r)
            {
                if (n == 0 && r > 2) continue;
                sweep_cx_one<C>(R, st, "n=" + str(n) + " " + ROUTE[r], n, [&](C& c, CM& m) {
                    const std::size_t h = n / 2;
                    switch (r)
                    {
                    case 0: c = C(n); m.assign(n, CE(0, 0)); break;
                    case 1: c = C(n, Z(1, 2)); m.assign(n, CE(1, 2)); break;
                    case 2: c = C(); c.resize(n); m.assign(n, CE(0, 0)); break;
                    case 3: c = C(h, Z(1, 2)); c.resize(n); m.assign(h, CE(1, 2)); m.resize(n, CE(0, 0)); break;
                    case 4: c = C(h); c.resize(n, Z(3, 4)); m.assign(h, CE(0, 0)); m.resize(n, CE(3, 4)); break;
                    case 5: c = C(2 * n + 1, Z(1, 2)); c.resize(n); m.assign(n, CE(1, 2)); break;
                    case 6: { double a = 3, b = 4; c = C(n, Z(1, 2)); c.resize(h); c.resize(n, xtl::xcomplex<double&, double&>(a, b)); m.assign(h, CE(1, 2)); m.resize(n, CE(3, 4)); break; }
                    }
                }, Yes());
            }
    }
    {
        static const std::size_t N = 130;
        typedef xtl::xcomplex_array<double, N> C;
        static const char* const ROUTE[] = {"C()", "C() default-initialised into 0xA5 storage", "C(n)", "C(n,1+2i)"};
        for (int r = 0; r < 4; ++r)
            sweep_cx_one<C>(R, st, std::string("array n=130 ") + ROUTE[r], N, [&](C& c, CM& m) {
                switch (r)
                {
                case 0: c = C(); m.assign(N, CE(0, 0)); break;
                case 1:
                {
                    alignas(16) static unsigned char buf[sizeof(C)];
                    std::memset(buf, 0xA5, sizeof buf);
                    C* p = new (buf) C;
                    c = *p;
                    p->~C();
                    m.assign(N, CE(0, 0));
                    break;
                }
                case 2: c = C(N); m.assign(N, CE(0, 0)); break;
                case 3: c = C(N, Z(1, 2)); m.assign(N, CE(1, 2)); break;
                }
            }, No());
    }
    vf::stat("sweep_states_built", st.builds); vf::stat("sweep_single_writes", st.writes); vf::stat("sweep_positions_compared", st.positions_compared);
}
#endif

// ---------------------------------------------------------------------------------------------------------------------
int main(int argc, char** argv)
{
    Runner R;
    R.inst = "alias-ov-u64";
    for (int i = 1; i < argc; ++i)
    {
        std::string a = argv[i];
        if (a == "--inst") R.inst = argv[++i];
        else if (a == "--thorough") R.thorough = true;
        else if (a == "--replay") { R.replay = true; R.inst = argv[++i]; R.only = argv[++i]; }
    }
    R.install();
    const std::string& I = R.inst;
    bool known = true;
#if C11_WIDE
    // GNU dialect build: unsigned __int128 is a scalar type there, which is all xdynamic_bitset asks of a block type
    typedef unsigned __int128 wide;
    if (I == "sweep-ov-u128") sweep_ov<wide>(R);
    else if (I == "sweep-oa-u128") sweep_oa<wide>(R);
    else if (I == "alias-ov-u128") alias_ov<wide>(R);
    else known = false;
#elif C11_ALIAS
    if (I == "alias-ov-u64") alias_ov<std::size_t>(R);
    else if (I == "alias-ov-u8") alias_ov<uint8_t>(R);
    else if (I == "alias-oa") alias_oa(R);
    else if (I == "alias-cv") alias_cv(R);
    else if (I == "alias-ca") alias_ca(R);
    else known = false;
#else
    if (I == "sweep-ov-u8") sweep_ov<uint8_t>(R);
    else if (I == "sweep-ov-u16") sweep_ov<uint16_t>(R);
    else if (I == "sweep-ov-u32") sweep_ov<uint32_t>(R);
    else if (I == "sweep-ov-u64") sweep_ov<std::size_t>(R);
    else if (I == "sweep-oa-u8") sweep_oa<uint8_t>(R);
    else if (I == "sweep-oa-u64") sweep_oa<std::size_t>(R);
    else if (I == "sweep-cx") sweep_cx(R);
    else known = false;
#endif
    if (!known) { std::printf("unknown instantiation '%s'\n", I.c_str()); return 2; }
    if (R.replay)
    {
        if (!R.replay_found) std::printf("replay: no scenario named '%s' in %s\n", R.only.c_str(), I.c_str());
        vf::done();
        return 0;
    }
    vf::stat("scenarios", R.scenarios);
    vf::stat("transitions", R.scenarios);
    vf::stat("traces_validated_against_impl", R.scenarios);
    vf::stat("violating_transitions", R.violating);
    vf::stat("instantiations", 1);
    vf::note("C11/" + I + ": scenarios=" + str(R.scenarios) + " (every one a complete history from a fresh container, judged against the model) COMPLETE for the stated sets");
    vf::done();
    return 0;
}
