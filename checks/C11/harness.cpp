// C11: xoptional_vector / xoptional_array / xcomplex_vector / xcomplex_array keep their parallel storages in lockstep (engine E1).
#include <xtl/xoptional_sequence.hpp>
#include <xtl/xcomplex_sequence.hpp>

#include "explorer.hpp"
#include "history.hpp"

#include <set>
#include <stdexcept>

#include "common.hpp"


template <class B>
struct OVW
{
    typedef xtl::xoptional_vector<int, std::allocator<int>, xtl::xdynamic_bitset<B>> C;
    C c;
    std::vector<OE> m;
    std::string key() const
    {
        std::string k = str(c.value().size()) + "/" + str(c.has_value().size()) + ":";
        for (std::size_t i = 0; i < c.value().size(); ++i) k += str(c.value()[i]) + (i < c.has_value().size() ? (bool(c.has_value()[i]) ? "+" : "-") : "!") + ",";
        // hidden state that can influence the future: the raw flag blocks including the bits beyond size()
        k += "|";
        for (std::size_t b = 0; b < c.has_value().block_count(); ++b) { char buf[24]; std::snprintf(buf, sizeof buf, "%llx.", (unsigned long long)c.has_value().data()[b]); k += buf; }
        return k;
    }
};

// a constant source container with another element type (short) and the same flag container type
template <class B>
struct SrcOV
{
    typedef xtl::xoptional_vector<short, std::allocator<short>, xtl::xdynamic_bitset<B>> C;
    C c;
    static int val(std::size_t j) { return int(j) * 7 % 8 == 0 ? 7 : 0; }          // 7 0 0 0 ... only values of the alphabet {0,7}
    static bool flag(std::size_t j) { return j == 1 || j == 2; }                  // - + + -
    SrcOV() { c.resize(4); for (std::size_t j = 0; j < 4; ++j) { c[j].value() = short(val(j)); c[j].has_value() = flag(j); } }
    void unchanged(Errs& e) const
    {
        for (std::size_t j = 0; j < 4; ++j)
            if (c.value()[j] != short(val(j)) || bool(c.has_value()[j]) != flag(j)) { e.add("source-modified", "assigning from a proxy of another container changed that container"); return; }
    }
};

template <class B>
void build_ov(vf::Explorer<OVW<B>>& ex, std::size_t S, const std::vector<std::size_t>& sizes, const std::vector<std::size_t>& idx)
{
    typedef OVW<B> W;
    typedef typename W::C C;
    auto add = [&ex](const std::string& kind, const std::string& name, std::function<bool(W&, Errs&)> f) {
        ex.add_op(kind, name, [f](W& w, Errs& e) {
            bool ok;
            try { ok = f(w, e); } catch (const std::exception& x) { e.add("unexpected-exception", std::string("threw ") + x.what()); return true; }
            if (ok && e.empty() && opt_lengths(w.c, w.m.size(), e))
                for (std::size_t i = 0; i < w.m.size(); ++i)
                    if (w.c.value()[i] != w.m[i].first || bool(w.c.has_value()[i]) != w.m[i].second) { e.add("state", "storages hold " + w.key() + " model " + show(w.m)); break; }
            return ok; });
    };
    add("ctor()", "C()", [](W& w, Errs&) { w.c = C(); w.m.clear(); return true; });
    for (std::size_t s : sizes)
    {
        add("ctor(n,v)", "C(" + str(s) + ",7)", [s](W& w, Errs&) { w.c = C(s, 7); w.m.assign(s, OE(7, true)); return true; });
        add("ctor(n,optional)", "C(" + str(s) + ",optional(7))", [s](W& w, Errs&) { w.c = C(s, xtl::xoptional<int>(7)); w.m.assign(s, OE(7, true)); return true; });
        add("ctor(n,optional)", "C(" + str(s) + ",missing)", [s](W& w, Errs&) { w.c = C(s, xtl::missing<int>()); w.m.assign(s, OE(0, false)); return true; });
        add("ctor(n,optional-ref)", "C(" + str(s) + ",optional(x,f) 7-)", [s](W& w, Errs&) { int x = 7; bool f = false; w.c = C(s, xtl::optional(x, f)); w.m.assign(s, OE(7, false)); return true; });
        add("resize(n)", "resize(" + str(s) + ")", [s](W& w, Errs&) { w.c.resize(s); w.m.resize(s, OE(0, false)); return true; });
        add("resize(n,v)", "resize(" + str(s) + ",7)", [s](W& w, Errs&) { w.c.resize(s, 7); w.m.resize(s, OE(7, true)); return true; });
        add("resize(n,optional)", "resize(" + str(s) + ",optional(7))", [s](W& w, Errs&) { w.c.resize(s, xtl::xoptional<int>(7)); w.m.resize(s, OE(7, true)); return true; });
        add("resize(n,optional)", "resize(" + str(s) + ",missing7)", [s](W& w, Errs&) { w.c.resize(s, xtl::xoptional<int>(7, false)); w.m.resize(s, OE(7, false)); return true; });
    }
    (void)S;
    for (std::size_t i : idx)
    {
        const std::string I = str(i);
        for (int v : {0, 7}) for (int fl = 0; fl < 2; ++fl)
        {
            const bool f = fl != 0;
            const std::string X = "(" + str(v) + "," + str(fl) + ")";
            add("write[]", "[" + I + "]=" + X, [i, v, f](W& w, Errs&) { if (i >= w.m.size()) return false; w.c[i] = mkopt(v, f); w.m[i] = OE(v, f); return true; });
            add("write-at", "at(" + I + ")=" + X, [i, v, f](W& w, Errs&) { if (i >= w.m.size()) return false; w.c.at(i) = mkopt(v, f); w.m[i] = OE(v, f); return true; });
            add("write-iter", "*(begin+" + I + ")=" + X, [i, v, f](W& w, Errs&) { if (i >= w.m.size()) return false; *(w.c.begin() + std::ptrdiff_t(i)) = mkopt(v, f); w.m[i] = OE(v, f); return true; });
            add("write-riter", "*(rbegin+" + I + ")=" + X, [i, v, f](W& w, Errs&) { if (i >= w.m.size()) return false; *(w.c.rbegin() + std::ptrdiff_t(i)) = mkopt(v, f); w.m[w.m.size() - 1 - i] = OE(v, f); return true; });
        }
        add("write-value", "[" + I + "].value()=7", [i](W& w, Errs&) { if (i >= w.m.size()) return false; w.c[i].value() = 7; w.m[i].first = 7; return true; });
        add("write-flag", "[" + I + "].has_value()=1", [i](W& w, Errs&) { if (i >= w.m.size()) return false; w.c[i].has_value() = true; w.m[i].second = true; return true; });
        add("write-flag", "[" + I + "].has_value()=0", [i](W& w, Errs&) { if (i >= w.m.size()) return false; w.c[i].has_value() = false; w.m[i].second = false; return true; });
        add("write-plain", "[" + I + "]=0", [i](W& w, Errs&) { if (i >= w.m.size()) return false; w.c[i] = 0; w.m[i] = OE(0, true); return true; });
        add("write-arrow", "(begin+" + I + ")->value()=0", [i](W& w, Errs&) { if (i >= w.m.size()) return false; (w.c.begin() + std::ptrdiff_t(i))->value() = 0; w.m[i].first = 0; return true; });
        add("write-storage", "value()[" + I + "]=7", [i](W& w, Errs&) { if (i >= w.m.size()) return false; w.c.value()[i] = 7; w.m[i].first = 7; return true; });
        add("write-storage", "has_value()[" + I + "]=1", [i](W& w, Errs&) { if (i >= w.m.size()) return false; w.c.has_value()[i] = true; w.m[i].second = true; return true; });
        // whole-element assignment from the proxy of ANOTHER optional container (other element type, other index): both the
        // value and the flag of exactly position j of the source must land in position i
        for (std::size_t j = 0; j < 4; ++j)
        {
            const std::string J = str(j);
            add("write-from-proxy", "[" + I + "]=src[" + J + "]", [i, j](W& w, Errs& e) {
                if (i >= w.m.size()) return false;
                SrcOV<B> s;
                w.c[i] = s.c[j];
                w.m[i] = OE(s.val(j), s.flag(j));
                s.unchanged(e);
                return true; });
            add("write-from-proxy", "*(begin+" + I + ")=*(src.begin+" + J + ")", [i, j](W& w, Errs& e) {
                if (i >= w.m.size()) return false;
                SrcOV<B> s;
                *(w.c.begin() + std::ptrdiff_t(i)) = *(s.c.begin() + std::ptrdiff_t(j));
                w.m[i] = OE(s.val(j), s.flag(j));
                s.unchanged(e);
                return true; });
            add("write-from-proxy", "[" + I + "]=csrc[" + J + "]", [i, j](W& w, Errs& e) {
                if (i >= w.m.size()) return false;
                SrcOV<B> s;
                const typename SrcOV<B>::C& cs = s.c;
                w.c[i] = cs[j];
                w.m[i] = OE(s.val(j), s.flag(j));
                s.unchanged(e);
                return true; });
        }
        add("copy-element", "[" + I + "]=value([0])", [i](W& w, Errs&) { if (i >= w.m.size() || i == 0) return false; xtl::xoptional<int> t = w.c[0]; w.c[i] = t; w.m[i] = w.m[0]; return true; });
    }
    add("write-front", "front()=(7,0)", [](W& w, Errs&) { if (w.m.empty()) return false; w.c.front() = xtl::xoptional<int>(7, false); w.m.front() = OE(7, false); return true; });
    add("write-back", "back()=(0,1)", [](W& w, Errs&) { if (w.m.empty()) return false; w.c.back() = xtl::xoptional<int>(0, true); w.m.back() = OE(0, true); return true; });
    add("copy", "c=C(c)", [](W& w, Errs&) { C k(w.c); w.c = k; return true; });
    add("move", "c=C(move(c))", [](W& w, Errs&) { C k(std::move(w.c)); w.c = std::move(k); return true; });
    ex.check_state = [](const W& w, Errs& e) {
        if (!opt_lengths(w.c, w.m.size(), e)) return;
        opt_elements(w.c, w.m, e, true);
        opt_iterate(w.c, w.m, e);
        // equality: == holds exactly when sizes, values and flags all match
        C same;
        same.resize(w.m.size());
        for (std::size_t i = 0; i < w.m.size(); ++i) same[i] = mkopt(w.m[i].first, w.m[i].second);
        if (!(w.c == same) || (w.c != same)) e.add("equality", "== against a container rebuilt element by element from the model is false for " + show(w.m));
        if (!w.m.empty())
        {
            C d1(same); d1[w.m.size() - 1].value() = w.m.back().first + 1;
            if (w.c == d1 || !(w.c != d1)) e.add("equality", "== true although the last value differs");
            C d2(same); d2[w.m.size() - 1].has_value() = !w.m.back().second;
            if (w.c == d2 || !(w.c != d2)) e.add("equality", "== true although the last flag differs");
            C d3(same); d3[0].has_value() = !w.m.front().second;
            if (w.c == d3) e.add("equality", "== true although the first flag differs");
        }
        C d4(same); d4.resize(w.m.size() + 1);
        if (w.c == d4 || d4 == w.c) e.add("equality", "== true against a longer container");
    };
}

// ---- xoptional_array<int,3>
struct OAW
{
    typedef xtl::xoptional_array<int, 3> C;
    C c;
    std::vector<OE> m;
    OAW() : c(3, xtl::missing<int>()), m(3, OE(0, false)) {}
    std::string key() const
    {
        std::string k = str(c.value().size()) + "/" + str(c.has_value().size()) + ":";
        for (std::size_t i = 0; i < 3; ++i) k += str(c.value()[i]) + (i < c.has_value().size() ? (bool(c.has_value()[i]) ? "+" : "-") : "!") + ",";
        return k;
    }
};

static void build_oa(vf::Explorer<OAW>& ex)
{
    typedef OAW W;
    typedef W::C C;
    auto add = [&ex](const std::string& kind, const std::string& name, std::function<bool(W&, Errs&)> f) {
        ex.add_op("array-" + kind, name, [f](W& w, Errs& e) {
            bool ok;
            try { ok = f(w, e); } catch (const std::exception& x) { e.add("unexpected-exception", std::string("threw ") + x.what()); return true; }
            if (ok && e.empty()) opt_lengths(w.c, 3, e);
            return ok; });
    };
    // default construction by placement into poisoned storage, both initialisation forms: elements must read as missing
    for (int fill : {0xA5, 0x00}) for (int form = 0; form < 2; ++form)
        add("ctor()", std::string("C") + (form ? "()" : "") + " into " + (fill ? "0xA5" : "0x00") + " storage", [fill, form](W& w, Errs& e) {
            alignas(16) unsigned char buf[sizeof(C)];
            std::memset(buf, fill, sizeof buf);
            C* p = form ? new (buf) C() : new (buf) C;
            if (opt_lengths(*p, 3, e))
                for (std::size_t i = 0; i < 3; ++i) if (bool((*p)[i].has_value())) e.add("default-not-missing", "element " + str(i) + " of a default-constructed xoptional_array is not missing");
            if (e.empty()) { w.c = *p; for (std::size_t i = 0; i < 3; ++i) w.m[i] = OE(w.c.value()[i], false); }
            p->~C();
            return true; });
    add("ctor(n,v)", "C(3,7)", [](W& w, Errs&) { w.c = C(3, 7); w.m.assign(3, OE(7, true)); return true; });
    add("ctor(n,optional)", "C(3,optional(7))", [](W& w, Errs&) { w.c = C(3, xtl::xoptional<int>(7)); w.m.assign(3, OE(7, true)); return true; });
    add("ctor(n,optional)", "C(3,missing)", [](W& w, Errs&) { w.c = C(3, xtl::missing<int>()); w.m.assign(3, OE(0, false)); return true; });
    for (std::size_t i = 0; i < 3; ++i) for (int v : {0, 7}) for (int fl = 0; fl < 2; ++fl)
    {
        const bool f = fl != 0;
        const std::string X = "(" + str(v) + "," + str(fl) + ")", I = str(i);
        add("write[]", "[" + I + "]=" + X, [i, v, f](W& w, Errs&) { w.c[i] = mkopt(v, f); w.m[i] = OE(v, f); return true; });
        add("write-at", "at(" + I + ")=" + X, [i, v, f](W& w, Errs&) { w.c.at(i) = mkopt(v, f); w.m[i] = OE(v, f); return true; });
    }
    add("write-front", "front()=(7,0)", [](W& w, Errs&) { w.c.front() = xtl::xoptional<int>(7, false); w.m.front() = OE(7, false); return true; });
    add("write-back", "back()=(0,1)", [](W& w, Errs&) { w.c.back() = xtl::xoptional<int>(0, true); w.m.back() = OE(0, true); return true; });
    ex.check_state = [](const W& w, Errs& e) {
        if (!opt_lengths(w.c, 3, e)) return;
        opt_elements(w.c, w.m, e, false);
        C same(3, 0);
        for (std::size_t i = 0; i < 3; ++i) same[i] = mkopt(w.m[i].first, w.m[i].second);
        if (!(w.c == same) || (w.c != same)) e.add("equality", "array == against a rebuilt array is false");
        C d(same); d[2].has_value() = !w.m[2].second;
        if (w.c == d) e.add("equality", "array == true although a flag differs");
    };
}

// ---------------------------------------------------------------------------------------------------------------------
// complex containers
// ---------------------------------------------------------------------------------------------------------------------

struct CVW
{
    typedef xtl::xcomplex_vector<double> C;
    C c;
    std::vector<CE> m;
    std::string key() const
    {
        std::string k = str(c.real().size()) + "/" + str(c.imag().size()) + ":";
        for (std::size_t i = 0; i < c.real().size(); ++i) k += str(c.real()[i]) + "," + (i < c.imag().size() ? str(c.imag()[i]) : std::string("!")) + ";";
        return k;
    }
};

static void build_cv(vf::Explorer<CVW>& ex, const std::vector<std::size_t>& sizes, const std::vector<std::size_t>& idx)
{
    typedef CVW W;
    typedef W::C C;
    typedef xtl::xcomplex<double> Z;
    auto add = [&ex](const std::string& kind, const std::string& name, std::function<bool(W&, Errs&)> f) {
        ex.add_op("cx-" + kind, name, [f](W& w, Errs& e) {
            bool ok;
            try { ok = f(w, e); } catch (const std::exception& x) { e.add("unexpected-exception", std::string("threw ") + x.what()); return true; }
            if (ok && e.empty() && cx_lengths(w.c, w.m.size(), e))
                for (std::size_t i = 0; i < w.m.size(); ++i)
                    if (w.c.real()[i] != w.m[i].first || w.c.imag()[i] != w.m[i].second) { e.add("state", "storages hold " + w.key() + " model " + show(w.m)); break; }
            return ok; });
    };
    add("ctor()", "C()", [](W& w, Errs&) { w.c = C(); w.m.clear(); return true; });
    add("ctor(ilist)", "C{1+2i,3+4i}", [](W& w, Errs&) { w.c = C({Z(1, 2), Z(3, 4)}); w.m = {CE(1, 2), CE(3, 4)}; return true; });
    add("ctor(ilist)", "C{}", [](W& w, Errs&) { w.c = C(std::initializer_list<Z>{}); w.m.clear(); return true; });
    for (std::size_t s : sizes)
    {
        add("ctor(n)", "C(" + str(s) + ")", [s](W& w, Errs&) { w.c = C(s); w.m.assign(s, CE(0, 0)); return true; });
        add("ctor(n,z)", "C(" + str(s) + ",1+2i)", [s](W& w, Errs&) { w.c = C(s, Z(1, 2)); w.m.assign(s, CE(1, 2)); return true; });
        add("ctor(n,z-ref)", "C(" + str(s) + ",xcomplex<double&,double&>)", [s](W& w, Errs&) { double a = 3, b = 4; xtl::xcomplex<double&, double&> z(a, b); w.c = C(s, z); w.m.assign(s, CE(3, 4)); return true; });
        add("resize(n)", "resize(" + str(s) + ")", [s](W& w, Errs&) { w.c.resize(s); w.m.resize(s, CE(0, 0)); return true; });
        add("resize(n,z)", "resize(" + str(s) + ",1+2i)", [s](W& w, Errs&) { w.c.resize(s, Z(1, 2)); w.m.resize(s, CE(1, 2)); return true; });
        add("resize(n,z-ref)", "resize(" + str(s) + ",xcomplex<double&,double&>)", [s](W& w, Errs&) { double a = 3, b = 4; xtl::xcomplex<double&, double&> z(a, b); w.c.resize(s, z); w.m.resize(s, CE(3, 4)); return true; });
    }
    for (std::size_t i : idx)
    {
        const std::string I = str(i);
        add("write[]", "[" + I + "]=5+6i", [i](W& w, Errs&) { if (i >= w.m.size()) return false; CXSET(w.c[i], 5, 6); w.m[i] = CE(5, 6); return true; });
        add("write-at", "at(" + I + ")=0+0i", [i](W& w, Errs&) { if (i >= w.m.size()) return false; CXSET(w.c.at(i), 0, 0); w.m[i] = CE(0, 0); return true; });
        add("copy-element", "[" + I + "]=[0]", [i](W& w, Errs&) { if (i >= w.m.size() || i == 0) return false; w.c[i] = w.c[0]; w.m[i] = w.m[0]; return true; });
        add("write-real", "[" + I + "].real()=5", [i](W& w, Errs&) { if (i >= w.m.size()) return false; w.c[i].real() = 5; w.m[i].first = 5; return true; });
        add("write-imag", "[" + I + "].imag()=6", [i](W& w, Errs&) { if (i >= w.m.size()) return false; w.c[i].imag() = 6; w.m[i].second = 6; return true; });
        add("write-iter", "*(begin+" + I + ")=1+2i", [i](W& w, Errs&) { if (i >= w.m.size()) return false; CXSET(*(w.c.begin() + std::ptrdiff_t(i)), 1, 2); w.m[i] = CE(1, 2); return true; });
        add("write-riter", "*(rbegin+" + I + ")=5+6i", [i](W& w, Errs&) { if (i >= w.m.size()) return false; CXSET(*(w.c.rbegin() + std::ptrdiff_t(i)), 5, 6); w.m[w.m.size() - 1 - i] = CE(5, 6); return true; });
        add("write-real-scalar", "[" + I + "]=5", [i](W& w, Errs&) { if (i >= w.m.size()) return false; w.c[i] = 5.0; w.m[i] = CE(5, 0); return true; });
    }
    add("write-front", "front()=5+6i", [](W& w, Errs&) { if (w.m.empty()) return false; CXSET(w.c.front(), 5, 6); w.m.front() = CE(5, 6); return true; });
    add("write-back", "back()=1+2i", [](W& w, Errs&) { if (w.m.empty()) return false; CXSET(w.c.back(), 1, 2); w.m.back() = CE(1, 2); return true; });
    add("copy", "c=C(c)", [](W& w, Errs&) { C k(w.c); w.c = k; return true; });
    add("move", "c=C(move(c))", [](W& w, Errs&) { C k(std::move(w.c)); w.c = std::move(k); return true; });
    ex.check_state = [](const W& w, Errs& e) {
        if (!cx_lengths(w.c, w.m.size(), e)) return;
        cx_elements(w.c, w.m, e);
        C& c = const_cast<C&>(w.c);
        std::vector<CE> f, r, mf;
        std::size_t k = 0, lim = w.m.size() + 3;
        for (auto it = w.c.begin(); !(it == w.c.end()) && k < lim; ++it, ++k) f.push_back(CE((*it).real(), (*it).imag()));
        k = 0; for (auto it = c.begin(); !(it == c.end()) && k < lim; ++it, ++k) mf.push_back(CE(it->real(), it->imag()));
        k = 0; for (auto it = w.c.rbegin(); !(it == w.c.rend()) && k < lim; ++it, ++k) r.push_back(CE((*it).real(), (*it).imag()));
        std::vector<CE> rm(w.m.rbegin(), w.m.rend());
        if (f != w.m || mf != w.m) e.add("iteration", "forward iteration reads " + show(f) + " model " + show(w.m));
        if (r != rm) e.add("reverse-iteration", "reverse iteration reads " + show(r));
        C same(w.m.size());
        for (std::size_t i = 0; i < w.m.size(); ++i) CXSET(same[i], w.m[i].first, w.m[i].second);
        if (!(w.c == same) || (w.c != same)) e.add("equality", "== against a rebuilt container is false");
        if (!w.m.empty()) { C d(same); d[w.m.size() - 1].imag() = w.m.back().second + 1; if (w.c == d || !(w.c != d)) e.add("equality", "== true although an imaginary part differs"); }
        C d2(same); d2.resize(w.m.size() + 1);
        if (w.c == d2) e.add("equality", "== true against a longer container");
    };
}

struct CAW
{
    typedef xtl::xcomplex_array<double, 3> C;
    C c;
    std::vector<CE> m;
    CAW() : c(3), m(3, CE(0, 0)) {}
    std::string key() const { std::string k; for (std::size_t i = 0; i < 3; ++i) k += str(c.real()[i]) + "," + str(c.imag()[i]) + ";"; return k; }
};

static void build_ca(vf::Explorer<CAW>& ex)
{
    typedef CAW W;
    typedef W::C C;
    typedef xtl::xcomplex<double> Z;
    auto add = [&ex](const std::string& kind, const std::string& name, std::function<bool(W&, Errs&)> f) {
        ex.add_op("cxarray-" + kind, name, [f](W& w, Errs& e) {
            bool ok;
            try { ok = f(w, e); } catch (const std::exception& x) { e.add("unexpected-exception", std::string("threw ") + x.what()); return true; }
            return ok; });
    };
    for (int fill : {0xA5, 0x00}) for (int form = 0; form < 2; ++form)
        add("ctor()", std::string("C") + (form ? "()" : "") + " into " + (fill ? "0xA5" : "0x00") + " storage", [fill, form](W& w, Errs& e) {
            alignas(16) unsigned char buf[sizeof(C)];
            std::memset(buf, fill, sizeof buf);
            C* p = form ? new (buf) C() : new (buf) C;
            for (std::size_t i = 0; i < 3; ++i)
                if (!((*p)[i].real() == 0.0) || !((*p)[i].imag() == 0.0)) { e.add("default-not-zero", "element " + str(i) + " of a default-constructed xcomplex_array is not zero (storage was pre-filled with " + (fill ? "0xA5" : "0x00") + ", " + (form ? "value" : "default") + "-initialisation)"); break; }
            if (e.empty()) { w.c = *p; w.m.assign(3, CE(0, 0)); }
            p->~C();
            return true; });
    add("ctor(n)", "C(3)", [](W& w, Errs&) { w.c = C(3); w.m.assign(3, CE(0, 0)); return true; });
    add("ctor(n,z)", "C(3,1+2i)", [](W& w, Errs&) { w.c = C(3, Z(1, 2)); w.m.assign(3, CE(1, 2)); return true; });
    for (std::size_t i = 0; i < 3; ++i)
    {
        const std::string I = str(i);
        add("write[]", "[" + I + "]=5+6i", [i](W& w, Errs&) { CXSET(w.c[i], 5, 6); w.m[i] = CE(5, 6); return true; });
        add("write-at", "at(" + I + ")=0+0i", [i](W& w, Errs&) { CXSET(w.c.at(i), 0, 0); w.m[i] = CE(0, 0); return true; });
        add("write-imag", "[" + I + "].imag()=6", [i](W& w, Errs&) { w.c[i].imag() = 6; w.m[i].second = 6; return true; });
    }
    ex.check_state = [](const W& w, Errs& e) {
        if (!cx_lengths(w.c, 3, e)) return;
        cx_elements(w.c, w.m, e);
        C same(3);
        for (std::size_t i = 0; i < 3; ++i) CXSET(same[i], w.m[i].first, w.m[i].second);
        if (!(w.c == same) || (w.c != same)) e.add("equality", "array == against a rebuilt array is false");
    };
}

// ---------------------------------------------------------------------------------------------------------------------
// fault part: an element type whose copy can throw; a resize that throws half-way must leave both storages in lockstep
// ---------------------------------------------------------------------------------------------------------------------
struct El : pl::Tracked<21, 0, true, true, false, false>
{
    typedef pl::Tracked<21, 0, true, true, false, false> base;
    El() : base(0) {}
    El(int v) : base(v) {}
};

struct FW
{
    typedef xtl::xoptional_vector<El> C;
    C c;
    std::vector<OE> m;
    std::string key() const
    {
        std::string k = str(c.value().size()) + "/" + str(c.has_value().size()) + ":";
        for (std::size_t i = 0; i < c.value().size(); ++i) k += str(c.value()[i].value()) + (i < c.has_value().size() ? (bool(c.has_value()[i]) ? "+" : "-") : "!") + ",";
        return k;
    }
    void light(Errs& e)
    {
        if (c.size() != m.size() || c.value().size() != m.size() || c.has_value().size() != m.size())
        {
            e.add("length-mismatch", "size()=" + str(c.size()) + " value().size()=" + str(c.value().size()) + " has_value().size()=" + str(c.has_value().size()) + " model size " + str(m.size()));
            return;
        }
        for (std::size_t i = 0; i < m.size(); ++i)
            if (c.value()[i].value() != m[i].first || bool(c.has_value()[i]) != m[i].second) { e.add("state", "element " + str(i) + " is (" + str(c.value()[i].value()) + "," + str(bool(c.has_value()[i])) + ") model " + show(m)); return; }
    }
    void check(Errs& e)
    {
        light(e);
        if (!e.empty()) return;
        for (std::size_t i = 0; i < m.size(); ++i)
        {
            auto r = c[i];
            if (r.value().value() != m[i].first || bool(r.has_value()) != m[i].second) e.add("element", "operator[] reads another pair than the storages");
        }
        if (!m.empty())
        {
            auto b = c.back();
            if (b.value().value() != m.back().first || bool(b.has_value()) != m.back().second) e.add("back", "back() pairs mismatched positions");
            std::size_t k = 0;
            for (auto it = c.rbegin(); it != c.rend() && k < m.size() + 2; ++it, ++k)
                if (k < m.size() && ((*it).value().value() != m[m.size() - 1 - k].first || bool((*it).has_value()) != m[m.size() - 1 - k].second)) { e.add("reverse-iteration", "reverse iteration pairs mismatched positions"); break; }
            if (k != m.size()) e.add("reverse-iteration", "rbegin()..rend() visits " + str(k) + " elements of " + str(m.size()));
        }
        bool threw = false;
        try { (void)c.at(m.size()); } catch (const std::out_of_range&) { threw = true; }
        if (!threw) e.add("at-no-throw", "at(size()) did not throw");
    }
};

static void build_fault(vf::HistoryExplorer<FW>& hx, std::size_t S)
{
    typedef FW W;
    for (std::size_t s = 0; s <= S; ++s)
    {
        hx.add_op("resize(n)", "resize(" + str(s) + ")", [s](W& w, Errs&) {
            std::vector<OE> before = w.m;
            try { pl::Arm arm; w.c.resize(s); w.m.resize(s, OE(0, false)); } catch (const pl::Injected&) { w.m = before; }
            return true; });
        hx.add_op("resize(n,v)", "resize(" + str(s) + ",7)", [s](W& w, Errs&) {
            std::vector<OE> before = w.m;
            El v(7);
            try { pl::Arm arm; w.c.resize(s, v); w.m.resize(s, OE(7, true)); } catch (const pl::Injected&) { w.m = before; }
            return true; });
        hx.add_op("resize(n,optional)", "resize(" + str(s) + ",missing5)", [s](W& w, Errs&) {
            std::vector<OE> before = w.m;
            xtl::xoptional<El> v(El(5), false);
            try { pl::Arm arm; w.c.resize(s, v); w.m.resize(s, OE(5, false)); } catch (const pl::Injected&) { w.m = before; }
            return true; });
        hx.add_op("ctor(n,v)", "C(" + str(s) + ",7)", [s](W& w, Errs&) {
            std::vector<OE> before = w.m;
            El v(7);
            try { pl::Arm arm; W::C t(s, v); w.c = std::move(t); w.m.assign(s, OE(7, true)); } catch (const pl::Injected&) { w.m = before; }
            return true; });
    }
    for (std::size_t i = 0; i < S; ++i)
        hx.add_op("write-flag", "[" + str(i) + "].has_value()=toggle", [i](W& w, Errs&) { if (i >= w.m.size()) return false; w.c[i].has_value() = !w.m[i].second; w.m[i].second = !w.m[i].second; return true; });
}

template <class Ex, class W>
void drive(Ex& ex, const std::string& inst, int depth, long long max_states, double deadline, bool replay, const std::string& trace)
{
    ex.prop = "C11";
    ex.inst = inst;
    ex.max_depth = depth;
    ex.max_states = max_states;
    ex.deadline_s = deadline;
    std::vector<W> inits(1);
    if (replay) { ex.replay(inits, trace); return; }
    ex.run(inits);
    ex.summarize(depth == (1 << 30));
}

int main(int argc, char** argv)
{
    std::string inst = "ov-u64-S4", trace;
    bool replay = false;
    int depth = 1 << 30;
    long long max_states = 1LL << 40;
    double deadline = 1e18;
    for (int i = 1; i < argc; ++i)
    {
        std::string a = argv[i];
        if (a == "--inst") inst = argv[++i];
        else if (a == "--depth") depth = atoi(argv[++i]);
        else if (a == "--max-states") max_states = atoll(argv[++i]);
        else if (a == "--deadline") deadline = atof(argv[++i]);
        else if (a == "--replay") { replay = true; inst = argv[++i]; trace = argv[++i]; }
    }
    // inst: ov-u64-S<n> | ov-u8-S<n> | ov-u8-B9 / ov-u64-B65 (boundary indices, crossing a flag block) | oa | cv-S<n> | ca
    auto sizes_upto = [](std::size_t S) { std::vector<std::size_t> v; for (std::size_t s = 0; s <= S; ++s) v.push_back(s); return v; };
    if (inst.compare(0, 8, "ov-u64-S") == 0)
    {
        std::size_t S = std::size_t(atoi(inst.c_str() + 8));
        vf::Explorer<OVW<std::size_t>> ex;
        build_ov<std::size_t>(ex, S, sizes_upto(S), sizes_upto(S ? S - 1 : 0));
        drive<vf::Explorer<OVW<std::size_t>>, OVW<std::size_t>>(ex, inst, depth, max_states, deadline, replay, trace);
    }
    else if (inst.compare(0, 7, "ov-u8-S") == 0)
    {
        std::size_t S = std::size_t(atoi(inst.c_str() + 7));
        vf::Explorer<OVW<uint8_t>> ex;
        build_ov<uint8_t>(ex, S, sizes_upto(S), sizes_upto(S ? S - 1 : 0));
        drive<vf::Explorer<OVW<uint8_t>>, OVW<uint8_t>>(ex, inst, depth, max_states, deadline, replay, trace);
    }
    else if (inst == "ov-u8-B9")
    {
        vf::Explorer<OVW<uint8_t>> ex;
        build_ov<uint8_t>(ex, 9, {0, 1, 7, 8, 9}, {0, 7, 8});
        drive<vf::Explorer<OVW<uint8_t>>, OVW<uint8_t>>(ex, inst, depth, max_states, deadline, replay, trace);
    }
    else if (inst == "ov-u64-B65")
    {
        // the same boundary construction for the default flag container: sizes and indices around the first 64-bit block
        vf::Explorer<OVW<std::size_t>> ex;
        build_ov<std::size_t>(ex, 65, {0, 1, 63, 64, 65}, {0, 63, 64});
        drive<vf::Explorer<OVW<std::size_t>>, OVW<std::size_t>>(ex, inst, depth, max_states, deadline, replay, trace);
    }
    else if (inst == "oa")
    {
        vf::Explorer<OAW> ex;
        build_oa(ex);
        drive<vf::Explorer<OAW>, OAW>(ex, inst, depth, max_states, deadline, replay, trace);
    }
    else if (inst.compare(0, 4, "cv-S") == 0)
    {
        std::size_t S = std::size_t(atoi(inst.c_str() + 4));
        vf::Explorer<CVW> ex;
        build_cv(ex, sizes_upto(S), sizes_upto(S ? S - 1 : 0));
        drive<vf::Explorer<CVW>, CVW>(ex, inst, depth, max_states, deadline, replay, trace);
    }
    else if (inst.compare(0, 7, "fault-S") == 0)
    {
        std::size_t S = std::size_t(atoi(inst.c_str() + 7));
        vf::HistoryExplorer<FW> hx;
        hx.prop = "C11";
        hx.inst = inst;
        hx.max_depth = depth;
        hx.max_states = max_states;
        hx.deadline_s = deadline;
        build_fault(hx, S);
        if (replay) hx.replay(trace);
        else { hx.run(); hx.summarize(depth == (1 << 30)); }
    }
    else if (inst == "ca")
    {
        vf::Explorer<CAW> ex;
        build_ca(ex);
        drive<vf::Explorer<CAW>, CAW>(ex, inst, depth, max_states, deadline, replay, trace);
    }
    vf::done();
    return 0;
}
