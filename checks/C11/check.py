"""C11 optional/complex vectors and arrays keep parallel storages in lockstep: explicit-state BFS (E1)."""
import os
import vlib

LEVEL = "model_checking"
HERE = os.path.dirname(os.path.abspath(__file__))
SRC = os.path.join(HERE, "harness.cpp")


def build():
    # capability probe: whole-element assignment to a complex proxy from an xcomplex value (ill-formed on the pinned tree)
    b = vlib.compile_cxx(SRC, "c11-pa", std="c++14", opt="-O1", san="asan", defines=["CX_PROXY_ASSIGN=1"], expect_fail=True)
    if b:
        return b, True
    return vlib.compile_cxx(SRC, "c11", std="c++14", opt="-O1", san="asan", defines=["CX_PROXY_ASSIGN=0"]), False


def plan(tier):
    if tier == "quick":
        return [["--inst", "ov-u64-S4"], ["--inst", "ov-u8-S4"], ["--inst", "ov-u8-B9", "--max-states", "20000"], ["--inst", "oa"], ["--inst", "cv-S3"], ["--inst", "ca"], ["--inst", "fault-S3"]]
    return [["--inst", "ov-u64-S6"], ["--inst", "ov-u8-S5"], ["--inst", "ov-u8-B9", "--max-states", "300000"], ["--inst", "oa"], ["--inst", "cv-S4"], ["--inst", "ca"], ["--inst", "fault-S4"]]


def run(ctx):
    b, pa = build()
    dl = str(int(max(60, ctx.time_left() - 30)))
    vlib.parallel([(lambda a=a: ctx.run_harness(b, a + ["--deadline", dl], tag="c11")) for a in plan(ctx.tier)])
    ctx.stats["evaluations"] = ctx.stats.get("transitions", 0)
    ctx.stats["distinct_nontrivial"] = ctx.stats.get("states", 0)
    ctx.note("complex proxy whole-element assignment (proxy = xcomplex value) is %s on this tree" % ("well-formed and exercised" if pa else "ill-formed (private member access across instantiations); both parts are written through real()/imag() instead"))
    ctx.note("begin()/end() of the array variants are ill-formed on this tree (IT::value_type on a pointer iterator) and therefore have no executions to check")
    ctx.rule = ("BFS over the raw states (both storages, element by element, and their two lengths) of real xoptional_vector<int> (flags in xdynamic_bitset<size_t> and <uint8_t>), xoptional_array<int,3>, "
                "xcomplex_vector<double>, xcomplex_array<double,3>; every constructor (default via poisoned placement in both initialisation forms, (n), (n,value), (n,optional present/missing/reference closure), "
                "(n,xcomplex value/reference closure), initializer list), resize(s) / resize(s,v) / resize(s,optional|xcomplex) for every s, every element write (value x flag) through [] at front back, forward and "
                "reverse iterators, arrow, value-only, flag-only, plain value, direct storage writes, copy, move - applied to every reachable state; model vector<pair>; after every transition the two storage "
                "lengths and contents, in every new state all six access paths, at() beyond size, iteration and ==/!= against rebuilt and perturbed containers. To fixpoint for the stated maximal size. "
                "Fault part (instantiation fault-S*): xoptional_vector over an element type whose copy constructor can throw, history explorer: every resize / constructor is also run with the k-th element copy throwing "
                "for every k; afterwards both storages must still have the length of size() and pair up position by position")
    ctx.assumptions += [
        "element values {0,7} and flags {0,1}; complex parts from {0,1,2,3,4,5,6}; maximal size 4 (quick) / 5-6 (thorough); flag-block crossing (size 9 over uint8_t blocks) with boundary indices",
        "constructors taking a size are called with the container's own size for the array variants, as the statement says",
        "operator< and friends of xoptional_sequence are not part of the statement and are not judged",
    ]


def replay(ctx, rec):
    b, _ = build()
    ctx.run_harness(b, rec["args"], tag="c11")
