"""C11 optional/complex vectors and arrays keep parallel storages in lockstep: explicit-state BFS (E1) plus four scenario
enumerations (arguments that refer into the container itself; size sweep over every flag block type; reads of non-trivially-movable
element values through the prvalue proxies of every access path; ==/!= over floating-point values whose representation and value
differ)."""
import os
import vlib

LEVEL = "model_checking"
HERE = os.path.dirname(os.path.abspath(__file__))
SRC = os.path.join(HERE, "harness.cpp")
EXTRA = os.path.join(HERE, "extra.cpp")
VALUES = os.path.join(HERE, "values.cpp")


def build():
    """Returns ({tag: binary}, proxy_assign_is_well_formed). The six translation units are compiled side by side."""
    # capability probe: whole-element assignment to a complex proxy from an xcomplex value (ill-formed on the pinned tree)
    b = vlib.compile_cxx(SRC, "c11-pa", std="c++14", opt="-O1", san="asan", defines=["CX_PROXY_ASSIGN=1"], expect_fail=True)
    pa = bool(b)
    d = ["CX_PROXY_ASSIGN=%d" % (1 if pa else 0)]
    jobs = [
        (lambda: b or vlib.compile_cxx(SRC, "c11", std="c++14", opt="-O1", san="asan", defines=d)),
        # extra.cpp, alias part: arguments referring into the container itself
        (lambda: vlib.compile_cxx(EXTRA, "c11x-alias", std="c++14", opt="-O1", san="asan", defines=d + ["C11_ALIAS=1"])),
        # extra.cpp, size sweep over the block types of ISO C++
        (lambda: vlib.compile_cxx(EXTRA, "c11x-sweep", std="c++14", opt="-O1", san="asan", defines=d)),
        # extra.cpp in the GNU dialect: unsigned __int128 as flag block type (std::is_scalar holds for it only there). This entry
        # of the instantiation manifest is REQUIRED: it is well-formed on the pinned tree, so a tree on which it no longer compiles
        # is a check error (exit 2), not a pass.
        (lambda: vlib.compile_cxx(EXTRA, "c11x-wide", std="gnu++14", opt="-O1", san="asan", defines=d + ["C11_WIDE=1"])),
        # values.cpp, read part: element values that are not trivially movable (std::string, a handle whose move steals)
        (lambda: vlib.compile_cxx(VALUES, "c11v-read", std="c++14", opt="-O1", san="asan", defines=d + ["C11_READ=1"])),
        # values.cpp, floating-point part: -0.0 / +0.0, NaNs, infinities in the == / != oracle
        (lambda: vlib.compile_cxx(VALUES, "c11v-fp", std="c++14", opt="-O1", san="asan", defines=d + ["C11_FP=1"])),
    ]
    bins = vlib.parallel(jobs)
    return dict(zip(("c11", "c11x-alias", "c11x-sweep", "c11x-wide", "c11v-read", "c11v-fp"), bins)), pa


def plan(tier):
    """(tag, args) of every harness run of the tier."""
    if tier == "quick":
        bfs = [["--inst", "ov-u64-S4"], ["--inst", "ov-u8-S4"], ["--inst", "ov-u8-B9", "--max-states", "20000"], ["--inst", "oa"], ["--inst", "cv-S3"], ["--inst", "ca"], ["--inst", "fault-S3"]]
        t = []
    else:
        bfs = [["--inst", "ov-u64-S6"], ["--inst", "ov-u8-S5"], ["--inst", "ov-u8-B9", "--max-states", "300000"], ["--inst", "ov-u64-B65", "--max-states", "40000"],
               ["--inst", "oa"], ["--inst", "cv-S4"], ["--inst", "ca"], ["--inst", "fault-S4"]]
        t = ["--thorough"]
    runs = [("c11", a) for a in bfs]
    runs += [("c11x-alias", ["--inst", i] + t) for i in ("alias-ov-u64", "alias-ov-u8", "alias-oa", "alias-cv", "alias-ca")]
    runs += [("c11x-sweep", ["--inst", i] + t) for i in ("sweep-ov-u8", "sweep-ov-u16", "sweep-ov-u32", "sweep-ov-u64", "sweep-oa-u8", "sweep-oa-u64", "sweep-cx")]
    runs += [("c11x-wide", ["--inst", i] + t) for i in ("sweep-ov-u128", "sweep-oa-u128")]
    if tier != "quick":
        runs += [("c11x-wide", ["--inst", "alias-ov-u128"] + t)]
    runs += [("c11v-read", ["--inst", i] + t) for i in ("read-ov-str", "read-ov8-str", "read-oa-str", "read-ov-tok", "read-oa-tok")]
    runs += [("c11v-fp", ["--inst", i] + t) for i in ("fp-cv-f64", "fp-cv-f64-ieee", "fp-cv-f32", "fp-ca-f64", "fp-ca3-f64", "fp-ov-f64", "fp-ov-f32", "fp-oa-f64", "fp-oa3-f64")]
    return runs


def run(ctx):
    bins, pa = build()
    dl = str(int(max(60, ctx.time_left() - 30)))

    def one(tag, a):
        # the BFS harness takes a deadline; the scenario enumerations are small enough to always run to the end
        return ctx.run_harness(bins[tag], a + (["--deadline", dl] if tag == "c11" else []), tag=tag)

    # longest first
    runs = sorted(plan(ctx.tier), key=lambda r: 0 if r[0] == "c11" else 1)
    vlib.parallel([(lambda tag=tag, a=a: one(tag, a)) for tag, a in runs])
    ctx.stats["evaluations"] = ctx.stats.get("transitions", 0)
    ctx.stats["distinct_nontrivial"] = ctx.stats.get("states", 0)
    ctx.note("complex proxy whole-element assignment (proxy = xcomplex value) is %s on this tree" % ("well-formed and exercised" if pa else "ill-formed (private member access across instantiations); both parts are written through real()/imag() instead"))
    ctx.note("begin()/end() of the array variants are ill-formed on this tree (IT::value_type on a pointer iterator) and therefore have no executions to check")
    ctx.note("assignment between two xoptional element proxies of the same type (c[i] = c[j]) is ill-formed on this tree (deleted: reference members), as is assignment of a "
             "complex proxy from a proxy of another instantiation (c[i] = cc[j]); those designators are enumerated as resize / constructor arguments only")
    ctx.note("'transitions' = BFS transitions + scenarios of the alias and sweep parts (every scenario is one judged operation on a state rebuilt from a fresh container); "
             "'states' counts BFS states only; 'scenarios', 'alias_*', 'sweep_*', 'read_*' and 'fp_*' give the scenario parts separately "
             "(fp_comparisons: ==/!= evaluations judged inside the fp scenarios, not counted as transitions)")
    ctx.rule = ("BFS over the raw states (both storages, element by element, and their two lengths) of real xoptional_vector<int> (flags in xdynamic_bitset<size_t> and <uint8_t>), xoptional_array<int,3>, "
                "xcomplex_vector<double>, xcomplex_array<double,3>; every constructor (default via poisoned placement in both initialisation forms, (n), (n,value), (n,optional present/missing/reference closure), "
                "(n,xcomplex value/reference closure), initializer list), resize(s) / resize(s,v) / resize(s,optional|xcomplex) for every s, every element write (value x flag) through [] at front back, forward and "
                "reverse iterators, arrow, value-only, flag-only, plain value, direct storage writes, copy, move - applied to every reachable state; model vector<pair>; after every transition the two storage "
                "lengths and contents, in every new state all six access paths, at() beyond size, iteration and ==/!= against rebuilt and perturbed containers. To fixpoint for the stated maximal size. "
                "Fault part (instantiation fault-S*): xoptional_vector over an element type whose copy constructor can throw, history explorer: every resize / constructor is also run with the k-th element copy throwing "
                "for every k; afterwards both storages must still have the length of size() and pair up position by position. "
                "Alias part (instantiations alias-*, complete enumeration of scenarios, each a history from a fresh container): every operation that takes a value / optional / xcomplex / proxy argument "
                "(resize(s,arg), c = C(s,arg), proxy = arg through [] at front back and forward / reverse iterators, single-part writes, c = c) with the argument REFERRING INTO THE CONTAINER ITSELF: an element of "
                "a storage (value()[j], has_value()[j], real()[j], imag()[j]), the proxy of element j obtained through every access path (const and non-const [] at front back, forward / const / reverse iterators), "
                "a reference closure built from storage elements of two positions (j,k); for every base size, flag pattern, source position(s), target size (shrinking, equal, growing) and capacity preparation "
                "(capacity == size, slack 16, slack 200: growth in place and growth reallocating one or both storages, classified and counted from the capacities observed); vectors and arrays of both families; "
                "model: the pair the designated element held before the call; ASan is part of the oracle. "
                "Sweep part (instantiations sweep-*): flag block types uint8_t, uint16_t, uint32_t, uint64_t and unsigned __int128 (GNU dialect build), sizes around one and two blocks of each type and around 64, "
                "eight construction routes (the constructors, the three resize overloads growing, shrinking and growing again), then EVERY index x twenty single-element write paths from a copy of the built state; "
                "after each write both storages are compared with the model at every position, the written element is read back through every access path, and ==/!= against the unwritten state must agree with "
                "the model; arrays of 130 elements over uint8_t / uint64_t / unsigned __int128 flag blocks, complex vector and array likewise. "
                "Read part (instantiations read-*, values.cpp): optional vectors (flag blocks uint64_t and uint8_t) and xoptional_array<T,3> over element types that are NOT trivially movable "
                "(std::string all-short / all-long / mixed, a heap handle whose move steals); for every size, flag pattern and index i, element i is READ through the prvalue proxy of each of 17 access paths "
                "(const and non-const [] at front back, begin+i, end-(n-i), rbegin, cbegin, crbegin, iterator [], iterators stepped by ++ / --) in each of 17 forms (assignment to an xoptional<T> value, "
                "copy- and direct-initialisation, assignment to a reference closure over locals, assignment to the proxy of another optional vector through [] and an iterator, .value()/.has_value() and "
                "value_or on the prvalue, named proxy copies, a new container filled from it, resize fill of another container, emplace_back/push_back, repeated reads) plus resize of the container itself "
                "filled from its own element and nine whole-container reads (std::copy forward / reverse / const into a std::vector<xoptional<T>>, into another optional vector, back_inserter, three loops); "
                "judged: the destination holds (values[i], flags[i]) and the source container, re-read completely through named proxies and both storages, still holds what was written. "
                "Floating-point part (instantiations fp-*, values.cpp): xcomplex_vector<double> (both ieee modes), <float>, xcomplex_array<double,2|3>, xoptional_vector<double|float>, xoptional_array<double,2|3>; "
                "ALL states over a value alphabet with +0.0/-0.0, two NaNs, 1, +-inf, denorm_min per part up to the stated size, each built through every construction / write route, read back, and compared "
                "with == and != against itself and against EVERY state; oracle std::vector<std::pair<..>>::operator== on the models")
    ctx.assumptions += [
        "element values {0,7} and flags {0,1}; complex parts from {0,1,2,3,4,5,6}; maximal size 4 (quick) / 5-6 (thorough); flag-block crossing (size 9 over uint8_t blocks; thorough: size 65 over 64-bit blocks, state cap 40000) with boundary indices",
        "constructors taking a size are called with the container's own size for the array variants, as the statement says",
        "operator< and friends of xoptional_sequence are not part of the statement and are not judged",
        "alias part: base sizes {1,2,3,9} (thorough {1,2,3,4,5,8,9,17}), contents 10+i / 40+i (pairwise distinct), all 2^n flag patterns for n <= 3 and none/all/even/odd above (thorough: also first-only, last-only); "
        "targets {0,1,n-1,n,n+1,9,16,17,65,130} (thorough adds n+2,2n,2n+1,8,64,128,129,200,201,257); capacity preparations {tight,16,200} (thorough adds 64); second positions of two-position closures: all for n <= 4, "
        "{j, n-1-j, n-1} above; flag blocks uint8_t and uint64_t (thorough: also unsigned __int128)",
        "alias part: a user-built reference closure whose parts are CROSSED between the two storages (xcomplex<double&,double&>(c.imag()[j], c.real()[k])) is not enumerated: it is not an element of the container "
        "(see NOTES.md, 'Not enumerated')",
        "sweep part: sizes {0,1,2,3,w-1,w,w+1,2w-1,2w,2w+1,63,64,65} for block width w (thorough: every size 0..max(2w+2,130)); written values 5 / flags both; unsigned __int128 blocks are checked in -std=gnu++14 "
        "(the library requires is_scalar<block_type>, which holds for that type only in the GNU dialects); the other harnesses stay -std=c++14",
        "read part: sizes {1,2,3,4} (thorough {1,2,3,4,5,9}; all 2^n flag patterns up to n = 4, none/all/even/odd above), arrays of size 3; a read is an expression that takes the proxy as a prvalue "
        "straight from the access path, or a named copy of it used as an lvalue; std::move applied to a named proxy is NOT enumerated (the caller asked for a move; nothing is promised about it); "
        "nothing is judged about objects the scenario itself moved from",
        "fp part: 'values match' is read as the element type's == (what std::vector::operator== does): +0.0 matches -0.0, a NaN matches nothing, not even itself (c == c is false for a state holding a NaN, "
        "as on the pinned tree); stored parts are read back up to == / NaN-ness only (the sign of a stored zero is not judged); alphabet {+0,-0,nan,1,-nan#1,+inf,-inf,denorm_min} for sizes 0..2 "
        "(thorough: + -denorm_min, -1) and {+0,-0,nan} for size 3 (thorough: + 1; optional vectors also size 4); long double is not instantiated",
    ]


def replay(ctx, rec):
    bins, _ = build()
    tag = rec.get("harness") or "c11"
    if tag not in bins:
        tag = "c11"
    ctx.run_harness(bins[tag], rec["args"], tag=tag)
