// C11, two scenario enumerations over the ELEMENT VALUE TYPE, a dimension the other parts fix to int / "ordinary" doubles:
//
//  read-*   (C11_READ build) element values that are NOT trivially movable (std::string short and long, a heap handle whose move
//           steals): every READ of element i - by assignment, by construction, through the accessors, by std::copy / range-for -
//           from the prvalue proxy of every access path (const and non-const [] at front back, forward / const / reverse
//           iterators, iterator []), into every kind of destination (xoptional<T> value, a reference closure over locals, the
//           proxy of another container, a new container, a fill argument of resize, a plain T). Judged: the destination holds the
//           pair (values[i], flags[i]) AND the container, re-read completely (both storages at every position, every access path),
//           still holds what the history wrote ("element i read ... is the pair", "existing elements are preserved", "writes ...
//           land in exactly that pair": a read of v must not change v, a write into w must not change v).
//           Nothing is judged about objects the scenario itself moved from.
//  fp-*     (C11_FP build) floating-point element values whose representation and value differ: +0.0 / -0.0 (equal, different
//           bits), NaNs (same bits, not equal), infinities. ALL states over the alphabet up to a size bound, each built through
//           every construction / write route, and ALL ordered pairs of states compared with == and != ; the oracle is
//           std::vector<std::pair<T,T>>::operator== (resp. pair<T,bool>) on the models: "== holds exactly when sizes, values and
//           flags all match", match meaning the element type's ==, as for std::vector.
//
// Every scenario is a complete history from fresh containers and has a unique name; "--replay <inst> <name>" runs exactly that one.
#include "common.hpp"

#include <algorithm>
#include <cmath>
#include <cstring>
#include <functional>
#include <iterator>
#include <limits>
#include <type_traits>

// ---------------------------------------------------------------------------------------------------------------------
// scenario runner (same protocol as extra.cpp)
// ---------------------------------------------------------------------------------------------------------------------
struct Runner
{
    std::string inst;
    bool replay = false;
    std::string only;
    bool thorough = false;
    long long scenarios = 0, violating = 0;
    bool replay_found = false;

    const void* cur_ctx = nullptr;
    std::string (*cur_thunk)(const void*) = nullptr;
    const std::string* cur_kind = nullptr;

    void install()
    {
        vf::install_crash_handler();
        vf::crash_hook() = [this](const char* what) {
            if (!cur_thunk) return;
            const std::string name = cur_thunk(cur_ctx);
            vf::violation("C11/" + inst + "/" + *cur_kind + "/crash", "scenario [" + name + "]: the process died with " + what, {"--replay", inst, name});
        };
    }

    template <class NF, class F>
    void scenario(const std::string& kind, const NF& namefn, F&& f)
    {
        if (replay)
        {
            if (namefn() != only) return;
            replay_found = true;
        }
        cur_ctx = &namefn;
        cur_thunk = [](const void* p) { return (*static_cast<const NF*>(p))(); };
        cur_kind = &kind;
        Errs e;
        bool applicable = true;
        try { applicable = f(e); }
        catch (const std::exception& x) { e.add("unexpected-exception", std::string("threw ") + x.what()); }
        if (vf::take_asan()) e.add("asan", "AddressSanitizer/UBSan report during the scenario");
        cur_thunk = nullptr;
        if (!applicable && e.empty()) return;
        ++scenarios;
        if (!e.empty())
        {
            ++violating;
            const std::string name = namefn();
            for (auto& kv : e.v)
                vf::violation("C11/" + inst + "/" + kind + "/" + kv.first, "scenario [" + name + "]: " + kv.second, {"--replay", inst, name});
            if (replay) std::printf("replay: %s -> VIOLATION\n", name.c_str());
        }
        else if (replay) std::printf("replay: %s -> ok\n", namefn().c_str());
    }
};

typedef std::true_type Yes;
typedef std::false_type No;
static std::string pat_name(const std::vector<bool>& f) { std::string s; for (bool b : f) s += b ? '+' : '-'; return s; }

#if C11_READ
// =====================================================================================================================
// read part
// =====================================================================================================================
// A handle whose move really gives the referent away (like unique_ptr / string): a moved-from Tok reads -1.
struct Tok
{
    int* p;
    Tok() : p(new int(0)) {}
    explicit Tok(int v) : p(new int(v)) {}
    Tok(const Tok& o) : p(new int(o.get())) {}
    Tok(Tok&& o) noexcept : p(o.p) { o.p = nullptr; }
    Tok& operator=(const Tok& o) { if (this != &o) { const int v = o.get(); if (p) *p = v; else p = new int(v); } return *this; }
    Tok& operator=(Tok&& o) noexcept { if (this != &o) { delete p; p = o.p; o.p = nullptr; } return *this; }
    ~Tok() { delete p; }
    int get() const { return p ? *p : -1; }
    friend bool operator==(const Tok& a, const Tok& b) { return a.get() == b.get(); }
    friend bool operator!=(const Tok& a, const Tok& b) { return a.get() != b.get(); }
};

// value alphabets: make(id, cls) is injective in id for every length class cls
struct StrV
{
    typedef std::string T;
    static const int classes = 3;   // 0: all short (SSO), 1: all long (heap), 2: mixed
    static T make(int id, int cls)
    {
        const bool lng = cls == 1 || (cls == 2 && id % 2 == 0);
        return lng ? "long-string-beyond-the-small-buffer-#" + str(id) + "-....................." : "s" + str(id);
    }
    static std::string show(const T& t) { return t.size() > 8 ? "\"" + t.substr(0, 4) + ".." + t.substr(t.size() > 26 ? 36 : 0, 4) + "\"(" + str(t.size()) + ")" : "\"" + t + "\""; }
    static const char* name() { return "std::string"; }
};
struct TokV
{
    typedef Tok T;
    static const int classes = 1;
    static T make(int id, int) { return Tok(100 + id); }
    static std::string show(const T& t) { return t.get() == -1 ? std::string("<moved-from>") : "Tok(" + str(t.get()) + ")"; }
    static const char* name() { return "Tok"; }
};

template <class V>
struct RT
{
    typedef typename V::T T;
    typedef std::pair<T, bool> E;
    typedef std::vector<E> M;
    static std::string show(const E& x) { return "(" + V::show(x.first) + "," + (x.second ? "1" : "0") + ")"; }
    static std::string show(const M& m) { std::string s = "["; for (auto& x : m) s += show(x) + " "; return s + "]"; }
    static M model(std::size_t n, const std::vector<bool>& f, int cls, int base = 0) { M m; for (std::size_t i = 0; i < n; ++i) m.push_back(E(V::make(base + int(i), cls), bool(f[i]))); return m; }
};

template <class C, class M>
void fill_storages(C& c, const M& m) { for (std::size_t i = 0; i < m.size(); ++i) { c.value()[i] = m[i].first; c.has_value()[i] = m[i].second; } }
template <class C, class M> C make_cont(const M& m, Yes) { C c; c.resize(m.size()); fill_storages(c, m); return c; }
template <class C, class M> C make_cont(const M& m, No) { C c; fill_storages(c, m); return c; }

template <class V, class C> void reread_iter(const C& cc, const typename RT<V>::M& m, Errs& e, Yes, const char* who);
template <class V, class C> void reread_iter(const C&, const typename RT<V>::M&, Errs&, No, const char*);

// Complete re-read of a container against the model. Only NAMED (lvalue) proxies and the storages are used here: the re-read
// itself must not be one of the operations under test.
template <class V, class C, class IT>
void reread(const C& cc, const typename RT<V>::M& m, Errs& e, IT, const char* who = "v")
{
    typedef RT<V> R;
    C& c = const_cast<C&>(cc);
    if (!opt_lengths(cc, m.size(), e)) return;
    for (std::size_t i = 0; i < m.size(); ++i)
        if (!(cc.value()[i] == m[i].first) || bool(cc.has_value()[i]) != m[i].second)
        {
            e.add("state", std::string("storages of ") + who + " hold (" + V::show(cc.value()[i]) + "," + (bool(cc.has_value()[i]) ? "1" : "0") + ") at position " + str(i) + ", the history wrote " + R::show(m[i]) + "; model " + R::show(m));
            return;
        }
    for (std::size_t i = 0; i < m.size(); ++i)
    {
        const char* bad = nullptr;
        auto ok = [&](const auto& r) { return r.value() == m[i].first && bool(r.has_value()) == m[i].second; };
        { const auto r = cc[i]; if (!ok(r)) bad = "const operator[]"; }
        { const auto r = c[i]; if (!ok(r)) bad = "operator[]"; }
        { const auto r = cc.at(i); if (!ok(r)) bad = "const at()"; }
        { const auto r = c.at(i); if (!ok(r)) bad = "at()"; }
        if (i == 0) { const auto r = c.front(); const auto q = cc.front(); if (!ok(r) || !ok(q)) bad = "front()"; }
        if (i + 1 == m.size()) { const auto r = c.back(); const auto q = cc.back(); if (!ok(r) || !ok(q)) bad = "back()"; }
        if (bad) { e.add("element", std::string(bad) + " of " + who + " does not read element " + str(i) + " = " + R::show(m[i])); return; }
    }
    reread_iter<V>(cc, m, e, IT(), who);
    bool t = false;
    try { (void)cc.at(m.size()); } catch (const std::out_of_range&) { t = true; }
    if (!t) e.add("at-no-throw", "at(size()) did not throw");
}
template <class V, class C>
void reread_iter(const C& cc, const typename RT<V>::M& m, Errs& e, Yes, const char* who)
{
    typedef RT<V> R;
    C& c = const_cast<C&>(cc);
    typename R::M f, cf, r;
    std::size_t k = 0;
    const std::size_t lim = m.size() + 3;
    for (auto it = c.begin(); it != c.end() && k < lim; ++it, ++k) { const auto p = *it; f.push_back(typename R::E(p.value(), bool(p.has_value()))); }
    k = 0; for (auto it = cc.cbegin(); it != cc.cend() && k < lim; ++it, ++k) { const auto p = *it; cf.push_back(typename R::E(p.value(), bool(p.has_value()))); }
    k = 0; for (auto it = c.rbegin(); it != c.rend() && k < lim; ++it, ++k) { const auto p = *it; r.push_back(typename R::E(p.value(), bool(p.has_value()))); }
    typename R::M rm(m.rbegin(), m.rend());
    if (f != m || cf != m) e.add("iteration", std::string("forward iteration over ") + who + " reads " + R::show(f) + ", model " + R::show(m));
    if (r != rm) e.add("reverse-iteration", std::string("reverse iteration over ") + who + " reads " + R::show(r) + ", model reversed " + R::show(rm));
}
template <class V, class C>
void reread_iter(const C&, const typename RT<V>::M&, Errs&, No, const char*) {}

// ---- access paths: use(get) is handed a callable whose call expression `get()` is a PRVALUE of the proxy type, exactly what
// `v[i]`, `*it`, ... are. (std::function keyed on the proxy type keeps the number of instantiations of the forms small.)
static const int RPATHS = 17;
static const char* const RPATH[RPATHS] = {"v[i]", "v.at(i)", "v.front()", "v.back()", "cv[i]", "cv.at(i)", "cv.front()", "cv.back()",
                                          "*(v.begin()+i)", "*(v.end()-(n-i))", "*(v.rbegin()+(n-1-i))", "v.begin()[i]", "*it (it = v.begin() incremented i times)",
                                          "*(v.cbegin()+i)", "*(cv.begin()+i)", "*(v.crbegin()+(n-1-i))", "*it-- (it = v.end() decremented n-i times)"};
template <class C, class USE>
bool with_path_iter(int p, C& v, std::size_t i, USE& use, Yes)
{
    const C& cv = v;
    const std::size_t n = v.size();
    const std::ptrdiff_t d = std::ptrdiff_t(i), r = std::ptrdiff_t(n - 1 - i);
    typedef std::function<decltype(*v.begin())()> G;
    typedef std::function<decltype(*v.rbegin())()> GR;
    typedef std::function<decltype(*v.cbegin())()> GC;
    typedef std::function<decltype(*v.crbegin())()> GCR;
    switch (p)
    {
    case 8: use(G([&] { return *(v.begin() + d); })); return true;
    case 9: use(G([&] { return *(v.end() - (r + 1)); })); return true;
    case 10: use(GR([&] { return *(v.rbegin() + r); })); return true;
    case 11: use(G([&] { return v.begin()[d]; })); return true;
    case 12: { auto it = v.begin(); for (std::size_t k = 0; k < i; ++k) ++it; use(G([&] { return *it; })); return true; }
    case 13: use(GC([&] { return *(v.cbegin() + d); })); return true;
    case 14: use(GC([&] { return *(cv.begin() + d); })); return true;
    case 15: use(GCR([&] { return *(v.crbegin() + r); })); return true;
    case 16: { auto it = v.end(); for (std::size_t k = 0; k < n - i; ++k) --it; use(G([&] { return *it; })); return true; }
    }
    return false;
}
template <class C, class USE>
bool with_path_iter(int, C&, std::size_t, USE&, No) { return false; }
template <class C, class USE, class IT>
bool with_path(int p, C& v, std::size_t i, USE& use, IT)
{
    const C& cv = v;
    const std::size_t n = v.size();
    typedef std::function<decltype(v[i])()> G;
    typedef std::function<decltype(cv[i])()> GC;
    switch (p)
    {
    case 0: use(G([&] { return v[i]; })); return true;
    case 1: use(G([&] { return v.at(i); })); return true;
    case 2: if (i != 0) return false; use(G([&] { return v.front(); })); return true;
    case 3: if (i + 1 != n) return false; use(G([&] { return v.back(); })); return true;
    case 4: use(GC([&] { return cv[i]; })); return true;
    case 5: use(GC([&] { return cv.at(i); })); return true;
    case 6: if (i != 0) return false; use(GC([&] { return cv.front(); })); return true;
    case 7: if (i + 1 != n) return false; use(GC([&] { return cv.back(); })); return true;
    }
    return with_path_iter(p, v, i, use, IT());
}

// ---- read forms: P stands for the access path expression ----------------------------------------------------------------
static const int RFORMS = 17;
static const char* const RFORM[RFORMS] = {
    "xoptional<T> x; x = P",
    "xoptional<T> x = P",
    "xoptional<T> x(P)",
    "T t; bool b; xoptional<T&,bool&> cl(t,b); cl = P",
    "w[0] = P (w: optional vector with another flag block type)",
    "*(w.begin()+1) = P",
    "T t = P.value(); bool b = P.has_value()",
    "T t; t = P.value()",
    "T t = P.value_or(d)",
    "auto r = P; xoptional<T> x; x = r",
    "auto r = P; xoptional<T> x(r)",
    "const auto r = P; T t = r.value()",
    "W w2(3, P)",
    "w.resize(4, P)",
    "std::vector<xoptional<T>> out; out.emplace_back(P); out.push_back(P)",
    "x = P; x = P (twice)",
    "xoptional<T> x(T(other),true); x = P; then x = xoptional<T>(T(other2), false)",
};

// returns false when the form has no execution for this proxy type
template <class V, class W, class GET>
bool read_form(int f, GET& get, const typename RT<V>::E& ex, Errs& e)
{
    typedef RT<V> R;
    typedef typename V::T T;
    typedef typename R::E E;
    auto expect = [&](const T& gv, bool gf, const E& want, const char* what) {
        if (!(gv == want.first) || gf != want.second)
            e.add("read", std::string(what) + " holds (" + V::show(gv) + "," + (gf ? "1" : "0") + ") after the read, element is " + R::show(want));
    };
    const std::vector<bool> wf = {true, false};
    switch (f)
    {
    case 0: { xtl::xoptional<T> x; x = get(); expect(x.value(), x.has_value(), ex, "x"); return true; }
    case 1: { xtl::xoptional<T> x = get(); expect(x.value(), x.has_value(), ex, "x"); return true; }
    case 2: { xtl::xoptional<T> x(get()); expect(x.value(), x.has_value(), ex, "x"); return true; }
    case 3: { T t = V::make(70, 0); bool b = !ex.second; xtl::xoptional<T&, bool&> cl(t, b); cl = get(); expect(t, b, ex, "(t,b)"); return true; }
    case 4:
    case 5:
    {
        typename R::M wm = R::model(2, wf, 2, 50);
        W w = make_cont<W>(wm, Yes());
        if (f == 4) { w[0] = get(); wm[0] = ex; } else { *(w.begin() + 1) = get(); wm[1] = ex; }
        reread<V>(w, wm, e, Yes(), "w");
        return true;
    }
    case 6: { T t = get().value(); bool b = get().has_value(); expect(t, b, ex, "(t,b)"); return true; }
    case 7: { T t = V::make(71, 1); t = get().value(); expect(t, ex.second, ex, "t"); return true; }
    case 8: { const T d = V::make(72, 0); T t = get().value_or(d); expect(t, ex.second, E(ex.second ? ex.first : d, ex.second), "value_or result"); return true; }
    case 9: { auto r = get(); xtl::xoptional<T> x; x = r; expect(x.value(), x.has_value(), ex, "x"); return true; }
    case 10: { auto r = get(); xtl::xoptional<T> x(r); expect(x.value(), x.has_value(), ex, "x"); return true; }
    case 11: { const auto r = get(); T t = r.value(); bool b = r.has_value(); expect(t, b, ex, "(t,b)"); return true; }
    case 12: { W w2(3, get()); typename R::M wm(3, ex); reread<V>(w2, wm, e, Yes(), "w2"); return true; }
    case 13:
    {
        typename R::M wm = R::model(2, wf, 2, 50);
        W w = make_cont<W>(wm, Yes());
        w.resize(4, get()); wm.resize(4, ex);
        reread<V>(w, wm, e, Yes(), "w");
        return true;
    }
    case 14:
    {
        std::vector<xtl::xoptional<T>> out;
        out.emplace_back(get()); out.push_back(get());
        expect(out[0].value(), out[0].has_value(), ex, "out[0]"); expect(out[1].value(), out[1].has_value(), ex, "out[1]");
        return true;
    }
    case 15: { xtl::xoptional<T> x; x = get(); x = get(); expect(x.value(), x.has_value(), ex, "x (second read of the same element)"); return true; }
    case 16:
    {
        xtl::xoptional<T> x(V::make(73, 1), true);
        x = get();
        expect(x.value(), x.has_value(), ex, "x");
        x = xtl::xoptional<T>(V::make(74, 0), false);   // overwriting the copy must not reach the container
        return true;
    }
    }
    return false;
}

// whole-container reads (vectors)
static const int WFORMS = 9;
static const char* const WFORM[WFORMS] = {
    "std::copy(v.begin(), v.end(), out.begin()) into std::vector<xoptional<T>>",
    "std::copy(v.rbegin(), v.rend(), out.begin())",
    "std::copy(v.cbegin(), v.cend(), out.begin())",
    "std::copy(v.begin(), v.end(), w.begin()) into an optional vector with another flag block type",
    "for (it = v.begin(); it != v.end(); ++it) out[k++] = *it",
    "for (xoptional<T> x : v) out.push_back(x)",
    "for (auto&& r : v) out[k++] = r",
    "std::copy(v.begin(), v.end(), std::back_inserter(out))",
    "std::copy(v.begin(), v.end(), w.rbegin())",
};
template <class V, class W, class C>
void walk_form(int f, C& v, const typename RT<V>::M& m, Errs& e)
{
    typedef RT<V> R;
    typedef typename V::T T;
    const std::size_t n = m.size();
    std::vector<xtl::xoptional<T>> out(n);
    typename R::M want(m), got;
    bool into_w = false;
    typename R::M wm = R::model(n, std::vector<bool>(n, true), 2, 50);
    W w = make_cont<W>(wm, Yes());
    switch (f)
    {
    case 0: std::copy(v.begin(), v.end(), out.begin()); break;
    case 1: std::copy(v.rbegin(), v.rend(), out.begin()); want.assign(m.rbegin(), m.rend()); break;
    case 2: std::copy(v.cbegin(), v.cend(), out.begin()); break;
    case 3: std::copy(v.begin(), v.end(), w.begin()); into_w = true; break;
    case 4: { std::size_t k = 0; for (auto it = v.begin(); it != v.end() && k < n; ++it) out[k++] = *it; break; }
    case 5: { out.clear(); for (xtl::xoptional<T> x : v) { if (out.size() > n) break; out.push_back(x); } break; }
    case 6: { std::size_t k = 0; for (auto&& r : v) { if (k >= n) break; out[k++] = r; } break; }
    case 7: out.clear(); std::copy(v.begin(), v.end(), std::back_inserter(out)); break;
    case 8: std::copy(v.begin(), v.end(), w.rbegin()); into_w = true; want.assign(m.rbegin(), m.rend()); break;
    }
    if (into_w) reread<V>(w, want, e, Yes(), "w");
    else
    {
        for (auto& x : out) got.push_back(typename R::E(x.value(), bool(x.has_value())));
        if (got != want) e.add("read", "the copies hold " + R::show(got) + ", the elements are " + R::show(want));
    }
}

struct ReadStats { long long reads = 0, walks = 0, positions = 0; };
template <class V, class C> bool self_resize(int p, std::size_t i, std::size_t n, const std::vector<bool>& fl, int cls, Errs& e, ReadStats& st, Yes, C*);
template <class V, class C> bool self_resize(int, std::size_t, std::size_t, const std::vector<bool>&, int, Errs&, ReadStats&, No, C*);
template <class V, class W, class C> bool walk_all(int f, std::size_t n, const std::vector<bool>& fl, int cls, Errs& e, ReadStats& st, Yes, C*);
template <class V, class W, class C> bool walk_all(int, std::size_t, const std::vector<bool>&, int, Errs&, ReadStats&, No, C*);

template <class V, class C, class W, class IT>
void read_part(Runner& R, IT iters, const std::vector<std::size_t>& sizes)
{
    typedef RT<V> RTV;
    typedef typename RTV::M M;
    ReadStats st;
    for (std::size_t n : sizes)
        for (unsigned pat = 0; pat < (1u << n); ++pat)
        {
            if (n > 4 && pat != 0 && pat != (1u << n) - 1 && pat != 0x55555555u % (1u << n) && pat != 0xAAAAAAAAu % (1u << n)) continue;
            std::vector<bool> fl(n);
            for (std::size_t i = 0; i < n; ++i) fl[i] = (pat >> i) & 1;
            for (int cls = 0; cls < V::classes; ++cls)
            {
                const std::string base = "n=" + str(n) + " " + pat_name(fl) + " L" + str(cls);
                for (int p = 0; p < RPATHS; ++p)
                    for (int f = 0; f < RFORMS; ++f)
                    {
                        const std::string kind = std::string("read ") + RFORM[f];
                        for (std::size_t i = 0; i < n; ++i)
                            R.scenario(kind, [&] { return base + "; " + RFORM[f] + "; P = " + RPATH[p] + ", i=" + str(i); }, [&](Errs& e) {
                                const M m = RTV::model(n, fl, cls);
                                C v = make_cont<C>(m, iters);
                                bool ran = false;
                                auto use = [&](auto get) { ran = read_form<V, W>(f, get, m[i], e); };
                                if (!with_path(p, v, i, use, iters) || !ran) return false;
                                reread<V>(v, m, e, iters);
                                ++st.reads; st.positions += (long long)n;
                                return true;
                            });
                    }
                // resize of the container itself with the fill taken from the prvalue proxy of its own element i (growth reallocates)
                for (int p = 0; p < RPATHS; ++p)
                {
                    static const std::string kind = "read v.resize(n+2, P)";
                    for (std::size_t i = 0; i < n; ++i)
                        R.scenario(kind, [&] { return base + "; v.resize(n+2, P); P = " + RPATH[p] + ", i=" + str(i); }, [&](Errs& e) {
                            return self_resize<V>(p, i, n, fl, cls, e, st, iters, (C*)nullptr);
                        });
                }
                for (int f = 0; f < WFORMS; ++f)
                {
                    const std::string kind = std::string("read-all ") + WFORM[f];
                    R.scenario(kind, [&] { return base + "; " + WFORM[f]; }, [&](Errs& e) {
                        return walk_all<V, W>(f, n, fl, cls, e, st, iters, (C*)nullptr);
                    });
                }
            }
        }
    vf::stat("read_single_element_reads", st.reads); vf::stat("read_whole_container_reads", st.walks); vf::stat("read_positions_reread", st.positions);
}
template <class V, class C>
bool self_resize(int p, std::size_t i, std::size_t n, const std::vector<bool>& fl, int cls, Errs& e, ReadStats& st, Yes, C*)
{
    typedef RT<V> RTV;
    typename RTV::M m = RTV::model(n, fl, cls);
    C t = make_cont<C>(m, Yes());
    C v(t);   // copied: capacity == size, the growth reallocates the value storage
    const typename RTV::E fill = m[i];
    auto use = [&](auto get) { v.resize(n + 2, get()); };
    if (!with_path(p, v, i, use, Yes())) return false;
    m.resize(n + 2, fill);
    reread<V>(v, m, e, Yes());
    ++st.reads; st.positions += (long long)n + 2;
    return true;
}
template <class V, class C>
bool self_resize(int, std::size_t, std::size_t, const std::vector<bool>&, int, Errs&, ReadStats&, No, C*) { return false; }
template <class V, class W, class C>
bool walk_all(int f, std::size_t n, const std::vector<bool>& fl, int cls, Errs& e, ReadStats& st, Yes, C*)
{
    typedef RT<V> RTV;
    const typename RTV::M m = RTV::model(n, fl, cls);
    C v = make_cont<C>(m, Yes());
    walk_form<V, W>(f, v, m, e);
    reread<V>(v, m, e, Yes());
    ++st.walks; st.positions += (long long)n;
    return true;
}
template <class V, class W, class C>
bool walk_all(int, std::size_t, const std::vector<bool>&, int, Errs&, ReadStats&, No, C*) { return false; }

template <class V, class B, class B2>
void read_ov(Runner& R)
{
    typedef typename V::T T;
    typedef xtl::xoptional_vector<T, std::allocator<T>, xtl::xdynamic_bitset<B>> C;
    typedef xtl::xoptional_vector<T, std::allocator<T>, xtl::xdynamic_bitset<B2>> W;
    read_part<V, C, W>(R, Yes(), R.thorough ? std::vector<std::size_t>{1, 2, 3, 4, 5, 9} : std::vector<std::size_t>{1, 2, 3, 4});
}
template <class V>
void read_oa(Runner& R)
{
    typedef typename V::T T;
    typedef xtl::xoptional_array<T, 3> C;
    typedef xtl::xoptional_vector<T, std::allocator<T>, xtl::xdynamic_bitset<uint8_t>> W;
    read_part<V, C, W>(R, No(), {3});
}
#endif  // C11_READ

#if C11_FP
// =====================================================================================================================
// floating-point value part
// =====================================================================================================================
template <class T> struct FpBits;
template <> struct FpBits<double> { typedef std::uint64_t U; static const char* name() { return "double"; } };
template <> struct FpBits<float> { typedef std::uint32_t U; static const char* name() { return "float"; } };
template <class T> typename FpBits<T>::U bits(T x) { typename FpBits<T>::U u; std::memcpy(&u, &x, sizeof u); return u; }
template <class T> T from_bits(typename FpBits<T>::U u) { T x; std::memcpy(&x, &u, sizeof x); return x; }
template <class T> std::string fshow(T x)
{
    if (x != x) return (std::signbit(x) ? "-nan#" : "nan#") + str((unsigned long long)(bits(x) & 0xFFFF));
    if (x == 0) return std::signbit(x) ? "-0.0" : "+0.0";
    return str(x);
}
// what "the given value" means for a floating-point part when it is READ back: equal under ==, or both NaN
template <class T> bool fsame(T a, T b) { return (a != a) ? (b != b) : a == b; }

template <class T>
std::vector<T> fp_alphabet(int level)   // 0: {+0,-0,nan} (3); 1: + 1 (4); 2: quick (8); 3: thorough (10)
{
    typedef std::numeric_limits<T> L;
    const T qnan = L::quiet_NaN();
    const T nan2 = from_bits<T>(bits<T>(-qnan) | 1u);   // another NaN: sign set, payload 1
    std::vector<T> a = {T(0.0), T(-0.0), qnan};
    if (level >= 1) a.push_back(T(1));
    if (level >= 2) { a.push_back(nan2); a.push_back(L::infinity()); a.push_back(-L::infinity()); a.push_back(L::denorm_min()); }
    if (level >= 3) { a.push_back(-L::denorm_min()); a.push_back(T(-1)); }
    return a;
}

struct FpStats { long long states = 0, cmps = 0, eq_diffbits = 0, ne_samebits = 0, eq = 0; };

// all element tuples of length n over `elems`
template <class E>
void tuples(const std::vector<E>& elems, std::size_t n, std::vector<std::vector<E>>& out)
{
    std::vector<std::size_t> ix(n, 0);
    for (;;)
    {
        std::vector<E> t;
        for (std::size_t k = 0; k < n; ++k) t.push_back(elems[ix[k]]);
        out.push_back(t);
        std::size_t k = 0;
        while (k < n && ++ix[k] == elems.size()) ix[k++] = 0;
        if (k == n) break;
    }
}

// ---- complex family ------------------------------------------------------------------------------------------------
template <class T, class CT, bool VEC>
struct FpCx
{
    typedef CT C;
    typedef std::pair<T, T> E;
    typedef std::vector<E> M;
    typedef xtl::xcomplex<T> Z;
    static std::vector<E> elems(const std::vector<T>& a) { std::vector<E> r; for (T x : a) for (T y : a) r.push_back(E(x, y)); return r; }
    static std::string show(const E& x) { return "(" + fshow(x.first) + "," + fshow(x.second) + ")"; }
    static bool samebits(const E& a, const E& b) { return bits(a.first) == bits(b.first) && bits(a.second) == bits(b.second); }
    static const int routes = 5;
    static const char* route_name(int r)
    {
        static const char* const N[] = {"C(n); real()[i]=, imag()[i]=", "C(n, e0); [i].real()=, [i].imag()=", "C(); resize(n, e_last); at(i).real()=, (begin+i)->imag()=",
                                        "C(n, xcomplex<T&,T&>(e0)); *(rbegin+(n-1-i)) parts", "C(n); whole-element write of [i]"};
        static const char* const A[] = {"C(); real()[i]=, imag()[i]=", "C(n, e0); [i].real()=, [i].imag()=", "C(n); at(i).real()=, at(i).imag()=", "C(n, xcomplex<T&,T&>(e0)); [i].real()=, [i].imag()=",
                                        "C(); whole-element write of [i]"};
        return VEC ? N[r] : A[r];
    }
    static bool build(int r, const M& m, C& c) { return build_(r, m, c, std::integral_constant<bool, VEC>()); }
    static void parts(C& c, const M& m, int how)
    {
        for (std::size_t i = 0; i < m.size(); ++i)
            switch (how)
            {
            case 0: c.real()[i] = m[i].first; c.imag()[i] = m[i].second; break;
            case 1: c[i].real() = m[i].first; c[i].imag() = m[i].second; break;
            case 2: c.at(i).real() = m[i].first; c.at(i).imag() = m[i].second; break;
            case 4: { auto&& p = c[i]; set_whole(p, m[i]); break; }
            }
    }
    template <class P> static void set_whole(P&& p, const E& x)
    {
#if CX_PROXY_ASSIGN
        p = Z(x.first, x.second);
#else
        p.real() = x.first; p.imag() = x.second;
#endif
    }
    static bool build_(int r, const M& m, C& c, Yes)
    {
        const std::size_t n = m.size();
        switch (r)
        {
        case 0: c = C(n); parts(c, m, 0); return true;
        case 1: if (!n) return false; c = C(n, Z(m[0].first, m[0].second)); parts(c, m, 1); return true;
        case 2:
            if (!n) return false;
            c = C(); c.resize(n, Z(m[n - 1].first, m[n - 1].second));
            for (std::size_t i = 0; i + 1 < n; ++i) { c.at(i).real() = m[i].first; (c.begin() + std::ptrdiff_t(i))->imag() = m[i].second; }
            return true;
        case 3:
        {
            if (!n) return false;
            T a = m[0].first, b = m[0].second;
            c = C(n, xtl::xcomplex<T&, T&>(a, b));
            for (std::size_t i = 1; i < n; ++i) { auto p = *(c.rbegin() + std::ptrdiff_t(n - 1 - i)); p.real() = m[i].first; p.imag() = m[i].second; }
            return true;
        }
        case 4: c = C(n); parts(c, m, 4); return true;
        }
        return false;
    }
    static bool build_(int r, const M& m, C& c, No)
    {
        const std::size_t n = m.size();
        switch (r)
        {
        case 0: c = C(); parts(c, m, 0); return true;
        case 1: c = C(n, Z(m[0].first, m[0].second)); parts(c, m, 1); return true;
        case 2: c = C(n); parts(c, m, 2); return true;
        case 3: { T a = m[0].first, b = m[0].second; c = C(n, xtl::xcomplex<T&, T&>(a, b)); parts(c, m, 1); return true; }
        case 4: c = C(); parts(c, m, 4); return true;
        }
        return false;
    }
    static void stored(const C& cc, const M& m, Errs& e)
    {
        C& c = const_cast<C&>(cc);
        if (!cx_lengths(cc, m.size(), e)) return;
        for (std::size_t i = 0; i < m.size(); ++i)
        {
            const auto r1 = cc[i]; const auto r2 = c.at(i);
            if (!fsame<T>(cc.real()[i], m[i].first) || !fsame<T>(cc.imag()[i], m[i].second) || !fsame<T>(r1.real(), m[i].first) || !fsame<T>(r1.imag(), m[i].second) || !fsame<T>(r2.real(), m[i].first) ||
                !fsame<T>(r2.imag(), m[i].second))
            {
                e.add("state", "element " + str(i) + " reads " + show(E(cc.real()[i], cc.imag()[i])) + " (storages) / " + show(E(r1.real(), r1.imag())) + " ([]), written " + show(m[i]));
                return;
            }
        }
    }
};

// ---- optional family -----------------------------------------------------------------------------------------------
template <class T, class CT, bool VEC>
struct FpOpt
{
    typedef CT C;
    typedef std::pair<T, bool> E;
    typedef std::vector<E> M;
    static std::vector<E> elems(const std::vector<T>& a) { std::vector<E> r; for (T x : a) { r.push_back(E(x, true)); r.push_back(E(x, false)); } return r; }
    static std::string show(const E& x) { return "(" + fshow(x.first) + "," + (x.second ? "1" : "0") + ")"; }
    static bool samebits(const E& a, const E& b) { return bits(a.first) == bits(b.first) && a.second == b.second; }
    static const int routes = 4;
    static const char* route_name(int r)
    {
        static const char* const N[] = {"C(n, 0); value()[i]=, has_value()[i]=", "C(n, optional(e0)); [i] = xoptional<T>(v,f)", "C(); resize(n, optional(e_last)); *(begin+i) = xoptional<T>(v,f)",
                                        "C(n, v0); at(i) = v; at(i).has_value() = f"};
        static const char* const A[] = {"C(n, 0); value()[i]=, has_value()[i]=", "C(n, optional(e0)); [i] = xoptional<T>(v,f)", "C(); [i] = xoptional<T>(v,f)", "C(n, v0); at(i) = v; at(i).has_value() = f"};
        return VEC ? N[r] : A[r];
    }
    static bool build(int r, const M& m, C& c) { return build_(r, m, c, std::integral_constant<bool, VEC>()); }
    static bool build_(int r, const M& m, C& c, Yes)
    {
        const std::size_t n = m.size();
        switch (r)
        {
        case 0: c = C(n, T(0)); for (std::size_t i = 0; i < n; ++i) { c.value()[i] = m[i].first; c.has_value()[i] = m[i].second; } return true;
        case 1: if (!n) return false; c = C(n, xtl::xoptional<T>(T(m[0].first), bool(m[0].second))); for (std::size_t i = 1; i < n; ++i) c[i] = xtl::xoptional<T>(T(m[i].first), bool(m[i].second)); return true;
        case 2:
            if (!n) return false;
            c = C(); c.resize(n, xtl::xoptional<T>(T(m[n - 1].first), bool(m[n - 1].second)));
            for (std::size_t i = 0; i + 1 < n; ++i) *(c.begin() + std::ptrdiff_t(i)) = xtl::xoptional<T>(T(m[i].first), bool(m[i].second));
            return true;
        case 3: if (!n) return false; c = C(n, m[0].first); for (std::size_t i = 0; i < n; ++i) { c.at(i) = m[i].first; c.at(i).has_value() = m[i].second; } return true;
        }
        return false;
    }
    static bool build_(int r, const M& m, C& c, No)
    {
        const std::size_t n = m.size();
        switch (r)
        {
        case 0: c = C(n, T(0)); for (std::size_t i = 0; i < n; ++i) { c.value()[i] = m[i].first; c.has_value()[i] = m[i].second; } return true;
        case 1: c = C(n, xtl::xoptional<T>(T(m[0].first), bool(m[0].second))); for (std::size_t i = 1; i < n; ++i) c[i] = xtl::xoptional<T>(T(m[i].first), bool(m[i].second)); return true;
        case 2: c = C(); for (std::size_t i = 0; i < n; ++i) c[i] = xtl::xoptional<T>(T(m[i].first), bool(m[i].second)); return true;
        case 3: c = C(n, m[0].first); for (std::size_t i = 0; i < n; ++i) { c.at(i) = m[i].first; c.at(i).has_value() = m[i].second; } return true;
        }
        return false;
    }
    static void stored(const C& cc, const M& m, Errs& e)
    {
        C& c = const_cast<C&>(cc);
        if (!opt_lengths(cc, m.size(), e)) return;
        for (std::size_t i = 0; i < m.size(); ++i)
        {
            const auto r1 = cc[i]; const auto r2 = c.at(i);
            if (!fsame<T>(cc.value()[i], m[i].first) || bool(cc.has_value()[i]) != m[i].second || !fsame<T>(r1.value(), m[i].first) || bool(r1.has_value()) != m[i].second || !fsame<T>(r2.value(), m[i].first) ||
                bool(r2.has_value()) != m[i].second)
            {
                e.add("state", "element " + str(i) + " reads " + show(E(cc.value()[i], bool(cc.has_value()[i]))) + " (storages) / " + show(E(r1.value(), bool(r1.has_value()))) + " ([]), written " + show(m[i]));
                return;
            }
        }
    }
};

// All states: every tuple over the 8-value alphabet {+0,-0,nan,1,-nan#1,inf,-inf,denorm_min} (thorough: 10 values, + -denorm_min, -1) for
// the sizes in `full`, every tuple over {+0,-0,nan} (thorough: + 1) for the sizes in `small`.
// Every (state, route) is one scenario: the state is built through the route, read back, compared with itself (same object) and
// with EVERY state (built through route 0), both operand orders arise because the left operand ranges over all states as well.
template <class F, class T>
void fp_part(Runner& R, const std::vector<std::size_t>& full, const std::vector<std::size_t>& small)
{
    typedef typename F::C C;
    typedef typename F::E E;
    typedef typename F::M M;
    FpStats st;
    std::vector<M> states;
    const std::vector<E> big = F::elems(fp_alphabet<T>(R.thorough ? 3 : 2)), tiny = F::elems(fp_alphabet<T>(R.thorough ? 1 : 0));
    for (std::size_t n : full) tuples(big, n, states);
    for (std::size_t n : small) tuples(tiny, n, states);
    std::vector<C> rhs(states.size());
    for (std::size_t s = 0; s < states.size(); ++s) F::build(0, states[s], rhs[s]);
    (void)vf::take_asan();   // route 0 of every state is judged by its own scenario below
    auto name_of = [](const M& m) { std::string s = "["; for (auto& x : m) s += F::show(x) + " "; return s + "]"; };
    for (int r = 0; r < F::routes; ++r)
    {
        const std::string kind = std::string("fp-equality ") + F::route_name(r);
        for (std::size_t s = 0; s < states.size(); ++s)
            R.scenario(kind, [&] { return std::string(FpBits<T>::name()) + " " + name_of(states[s]) + " built by " + F::route_name(r) + "; == and != against every state"; }, [&](Errs& e) {
                const M& m = states[s];
                C c;
                if (!F::build(r, m, c)) return false;
                F::stored(c, m, e);
                if (!e.empty()) return true;
                ++st.states;
                {
                    const bool want = (m == m);   // false exactly when the state holds a NaN
                    const C& alias = c;
                    if ((c == alias) != want || (c != alias) == want)
                        e.add(want ? "equality" : "equality-nan", "c == c (same object) is " + str(int(c == alias)) + ", c != c is " + str(int(c != alias)) + ", the values " + (want ? "match" : "do not match (NaN != NaN)"));
                    ++st.cmps;
                }
                for (std::size_t t = 0; t < states.size(); ++t)
                {
                    const M& m2 = states[t];
                    const bool want = (m == m2);   // std::vector<std::pair<..>>::operator== : sizes and every part equal under ==
                    const bool eq = (c == rhs[t]), ne = (c != rhs[t]);
                    ++st.cmps;
                    bool same_rep = m.size() == m2.size();
                    for (std::size_t i = 0; same_rep && i < m.size(); ++i) same_rep = F::samebits(m[i], m2[i]);
                    if (want) { ++st.eq; if (!same_rep) ++st.eq_diffbits; }
                    else if (same_rep) ++st.ne_samebits;
                    if (eq != want || ne == want)
                    {
                        const char* k = want && !same_rep ? "equality-signed-zero" : !want && same_rep ? "equality-nan" : "equality";
                        e.add(k, "against " + name_of(m2) + ": == returned " + str(int(eq)) + ", != returned " + str(int(ne)) + "; sizes and all parts " + (want ? "match (element-wise ==)" : "do not all match") +
                                     (same_rep ? ", representations identical" : ", representations differ"));
                        if (e.v.size() >= 3) break;
                    }
                }
                return true;
            });
    }
    vf::stat("fp_states_built", st.states); vf::stat("fp_comparisons", st.cmps); vf::stat("fp_pairs_equal", st.eq);
    vf::stat("fp_pairs_equal_with_different_representation", st.eq_diffbits); vf::stat("fp_pairs_unequal_with_identical_representation", st.ne_samebits);
    vf::stat("fp_distinct_states", (long long)states.size());
}
#endif  // C11_FP

// ---------------------------------------------------------------------------------------------------------------------
int main(int argc, char** argv)
{
    Runner R;
    for (int i = 1; i < argc; ++i)
    {
        std::string a = argv[i];
        if (a == "--inst") R.inst = argv[++i];
        else if (a == "--thorough") R.thorough = true;
        else if (a == "--replay") { R.replay = true; R.inst = argv[++i]; R.only = argv[++i]; }
    }
    R.install();
    const std::string& I = R.inst;
    bool known = true;
#if C11_READ
    if (I == "read-ov-str") read_ov<StrV, std::size_t, uint8_t>(R);
    else if (I == "read-ov8-str") read_ov<StrV, uint8_t, std::size_t>(R);
    else if (I == "read-oa-str") read_oa<StrV>(R);
    else if (I == "read-ov-tok") read_ov<TokV, std::size_t, uint8_t>(R);
    else if (I == "read-oa-tok") read_oa<TokV>(R);
    else known = false;
#elif C11_FP
    const std::vector<std::size_t> vfull = {0, 1, 2};
    const std::vector<std::size_t> vsmall = {3};
    const std::vector<std::size_t> osmall = R.thorough ? std::vector<std::size_t>{3, 4} : std::vector<std::size_t>{3};
    if (I == "fp-cv-f64") fp_part<FpCx<double, xtl::xcomplex_vector<double>, true>, double>(R, vfull, vsmall);
    else if (I == "fp-cv-f64-ieee") fp_part<FpCx<double, xtl::xcomplex_vector<double, true>, true>, double>(R, vfull, vsmall);
    else if (I == "fp-cv-f32") fp_part<FpCx<float, xtl::xcomplex_vector<float>, true>, float>(R, vfull, vsmall);
    else if (I == "fp-ca-f64") fp_part<FpCx<double, xtl::xcomplex_array<double, 2>, false>, double>(R, {2}, {});
    else if (I == "fp-ca3-f64") fp_part<FpCx<double, xtl::xcomplex_array<double, 3>, false>, double>(R, {}, {3});
    else if (I == "fp-ov-f64") fp_part<FpOpt<double, xtl::xoptional_vector<double>, true>, double>(R, vfull, osmall);
    else if (I == "fp-ov-f32") fp_part<FpOpt<float, xtl::xoptional_vector<float>, true>, float>(R, vfull, osmall);
    else if (I == "fp-oa-f64") fp_part<FpOpt<double, xtl::xoptional_array<double, 2>, false>, double>(R, {2}, {});
    else if (I == "fp-oa3-f64") fp_part<FpOpt<double, xtl::xoptional_array<double, 3>, false>, double>(R, {}, {3});
    else known = false;
#else
    known = false;
#endif
    if (!known) { std::printf("unknown instantiation '%s'\n", I.c_str()); return 2; }
    if (R.replay)
    {
        if (!R.replay_found) std::printf("replay: no scenario named '%s' in %s\n", R.only.c_str(), I.c_str());
        vf::done();
        return 0;
    }
    vf::stat("scenarios", R.scenarios);
    vf::stat("transitions", R.scenarios);
    vf::stat("traces_validated_against_impl", R.scenarios);
    vf::stat("violating_transitions", R.violating);
    vf::stat("instantiations", 1);
    vf::note("C11/" + I + ": scenarios=" + str(R.scenarios) + " (every one a complete history from fresh containers, judged against the model) COMPLETE for the stated sets");
    vf::done();
    return 0;
}
