// C20 endianness configuration probe.  One translation unit per configuration: whatever the configuration puts in front
// (a system header named by C20_PRE, or byte-order macro sets given with -D the way real little-endian platforms define
// them) is seen BEFORE xtl/xplatform.hpp; the answer of xtl::endianness() is then compared with the byte layout of
// 16/32/64-bit integers observed through memcpy and with the compiler's __BYTE_ORDER__.
#ifdef C20_PRE
#include C20_PRE
#endif

#include "xtl/xplatform.hpp"

#include "report.hpp"

#include <cstdint>
#include <cstring>

#ifndef C20_CFG
#define C20_CFG "?"
#endif

template <class T>
static int layout(T pattern)  // 1 little, 0 big, 2 neither; pattern has byte k+1 at significance k (0x..030201 read low to high)
{
    volatile T v = pattern;
    T t = v;
    unsigned char b[sizeof(T)];
    std::memcpy(b, &t, sizeof(T));
    bool little = true, big = true;
    for (std::size_t i = 0; i < sizeof(T); ++i)
    {
        if (b[i] != i + 1) little = false;
        if (b[i] != sizeof(T) - i) big = false;
    }
    return little ? 1 : big ? 0 : 2;
}

int main(int argc, char** argv)
{
    static const char* const names[] = {"big_endian", "little_endian", "mixed"};
    int l16 = layout<std::uint16_t>(0x0201);
    int l32 = layout<std::uint32_t>(0x04030201u);
    int l64 = layout<std::uint64_t>(0x0807060504030201ull);
    int macro = -1;
#if defined(__BYTE_ORDER__) && defined(__ORDER_LITTLE_ENDIAN__) && defined(__ORDER_BIG_ENDIAN__)
    macro = __BYTE_ORDER__ == __ORDER_LITTLE_ENDIAN__ ? 1 : __BYTE_ORDER__ == __ORDER_BIG_ENDIAN__ ? 0 : 2;
#endif
    if (l16 != l32 || l32 != l64 || (macro >= 0 && macro != l32))
    {
        std::fprintf(stderr, "C20 endian probe: the independent inspections disagree: %d %d %d macro %d\n", l16, l32, l64, macro);
        return 2;  // harness error, not a verdict
    }
    int lib = -1;
    switch (xtl::endianness())
    {
    case xtl::endian::big_endian: lib = 0; break;
    case xtl::endian::little_endian: lib = 1; break;
    case xtl::endian::mixed: lib = 2; break;
    }
    vf::stat("evaluations");
    vf::stat("endianness_configurations");
    if (std::strncmp(C20_CFG, "pre=none", 8) != 0) vf::stat("distinct_nontrivial");
    std::string cfg = C20_CFG;
    std::string pre = cfg.substr(0, cfg.find(' '));
    if (lib != l32)
    {
        std::vector<std::string> replay;
        for (int i = 1; i < argc; ++i) replay.push_back(argv[i]);
        vf::violation("C20/endianness/" + pre + "/reports-" + (lib >= 0 ? names[lib] : "nothing"),
                      "configuration [" + cfg + "]: uint16/uint32/uint64 are stored " + names[l32] + " (memcpy inspection; __BYTE_ORDER__ agrees), "
                      "but xtl::endianness() returned " + (lib >= 0 ? names[lib] : "?"), replay);
    }
    if (argc > 1 && std::string(argv[1]) == "--sample")
        vf::sample("[endianness configuration " + cfg + "] platform stores integers " + names[l32] + ", endianness() == " + (lib >= 0 ? names[lib] : "?"), 1);
    vf::done();
    return 0;
}
