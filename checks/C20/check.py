"""C20 executable_path / prefix_path / endianness: exhaustive enumeration of an install-path alphabet.

helper.cpp (the only code that includes xtl) is built against REPO as it is now and "installed" by driver.cpp at every
path of the alphabet  depth x total length x component flavour x invocation (x helper build);  driver.cpp creates each
path itself with relative mkdir/chdir steps under a mkdtemp directory in /tmp and judges what the installed program
printed against the path it created.  See NOTES.md.
"""
import os
import shutil
import subprocess
import tempfile
import time

import vlib

LEVEL = "exploration"
HERE = os.path.dirname(os.path.abspath(__file__))
HELPER = os.path.join(HERE, "helper.cpp")
DRIVER = os.path.join(HERE, "driver.cpp")
WORKERS = int(os.environ.get("VERIF_JOBS", "0") or 0) or min(vlib.NCPU, 8)


def build(tier):
    """-> (driver binary, [(build name, helper binary)])"""
    jobs = [lambda: vlib.compile_cxx(DRIVER, "c20-driver", std="c++14", opt="-O1", san="asan"),
            lambda: vlib.compile_cxx(HELPER, "c20-helper-asan", std="c++14", opt="-O1", san="asan")]
    if tier == "thorough":
        # the same program as an ordinary optimised build: no redzones, so what an over-read returns is what a user sees
        jobs.append(lambda: vlib.compile_cxx(HELPER, "c20-helper-plain", std="c++14", opt="-O2", san="none"))
    bins = vlib.parallel(jobs)
    helpers = [("asan-O1", bins[1])]
    if tier == "thorough":
        helpers.append(("plain-O2", bins[2]))
    return bins[0], helpers


# ---- endianness(): configuration enumeration -----------------------------------------------------------------------------
# what a translation unit may have seen before xtl/xplatform.hpp: system headers that define byte-order macros, and the macro
# sets real little-endian platforms define (BSD family / libbsd: both _BIG_ENDIAN and _LITTLE_ENDIAN as the constants 4321 /
# 1234 next to _BYTE_ORDER; the unprefixed BSD names; glibc's __-prefixed names).  Never a lone "I am big endian" flag: that
# would be lying to the library about the target.
ENDIAN_PROBE = os.path.join(HERE, "endian_probe.cpp")
ENDIAN_PRE = [
    ("none", None, []),
    ("endian.h", "<endian.h>", []),
    ("sys/param.h", "<sys/param.h>", []),
    ("sys/types.h", "<sys/types.h>", []),
    ("netinet/in.h", "<netinet/in.h>", []),
    ("bsd/sys/endian.h", "<bsd/sys/endian.h>", []),  # only when the header exists (libbsd-dev)
    ("D:_BIG_ENDIAN=4321,_LITTLE_ENDIAN=1234,_BYTE_ORDER=1234", None, ["_BIG_ENDIAN=4321", "_LITTLE_ENDIAN=1234", "_BYTE_ORDER=1234"]),
    ("D:BIG_ENDIAN=4321,LITTLE_ENDIAN=1234,BYTE_ORDER=1234", None, ["BIG_ENDIAN=4321", "LITTLE_ENDIAN=1234", "BYTE_ORDER=1234"]),
    ("D:__BIG_ENDIAN=4321,__LITTLE_ENDIAN=1234,__BYTE_ORDER=1234", None, ["__BIG_ENDIAN=4321", "__LITTLE_ENDIAN=1234", "__BYTE_ORDER=1234"]),
]
ENDIAN_COMPILERS = ["g++", "clang++"]
ENDIAN_STDS = ["c++14", "c++17"]
ENDIAN_OPTS = ["-O0", "-O2"]


def has_header(compiler, header):
    r = subprocess.run([compiler, "-x", "c++", "-fsyntax-only", "-"], input="#include %s\n" % header, stdout=subprocess.PIPE,
                       stderr=subprocess.PIPE, text=True)
    return r.returncode == 0


def endian_build(pre, cc, std, opt):
    name, header, defs = [e for e in ENDIAN_PRE if e[0] == pre][0]
    defines = list(defs) + ['C20_CFG="pre=%s %s -std=%s %s"' % (name, cc, std, opt)]
    if header:
        defines.append("C20_PRE=" + header)
    tag = "c20-endian-%s" % "".join(ch if ch.isalnum() else "_" for ch in "%s-%s-%s-%s" % (name[:24], cc, std, opt))
    return vlib.compile_cxx(ENDIAN_PROBE, tag, std=std, opt=opt, san="none", compiler=cc, flags=["-w"], defines=defines)


def endian_run(ctx, pre, cc, std, opt, sample=False):
    binary = endian_build(pre, cc, std, opt)
    ctx.run_harness(binary, (["--sample"] if sample else []) + [pre, cc, std, opt], tag="c20-endian")


def endian_configs(ctx):
    out = []
    for name, header, _ in ENDIAN_PRE:
        for cc in ENDIAN_COMPILERS:
            if header and not has_header(cc, header):
                ctx.note("endianness configuration pre=%s skipped for %s: the header is not installed" % (name, cc))
                ctx.stat("endianness_configurations_unavailable", len(ENDIAN_STDS) * len(ENDIAN_OPTS))
                continue
            for std in ENDIAN_STDS:
                for opt in ENDIAN_OPTS:
                    out.append((name, cc, std, opt))
    return out


def scratch_root():
    # /tmp, outside /repo and /verif; removed in the finally blocks below.  World-searchable (mkdtemp makes it 0700): grid G runs the
    # installed program with an unprivileged uid, and only the directories a case restricts may stand between that uid and the path
    top = tempfile.mkdtemp(prefix="c20_", dir="/tmp")
    os.chmod(top, 0o755)
    return top


def helper_args(helpers):
    out = []
    for name, path in helpers:
        out += ["--helper", "%s=%s" % (name, path)]
    return out


def order_key(v):
    a = v.get("args") or []
    try:
        n = {"short": 0, "natural": 0, "max": 10 ** 6, "first": 0, "middle": 1, "last-dir": 2, "file": 3, "states": 0, "all": 10 ** 6, "none": -1}.get(a[3])
        return (v["sig"], a[1], int(a[2]), int(a[3]) if n is None else n)
    except Exception:
        return (v["sig"], " ".join(a), 0, 0)


def run(ctx):
    cfgs = endian_configs(ctx)
    vlib.parallel([(lambda c=c, i=i: endian_run(ctx, *c, sample=(i % 13 == 5))) for i, c in enumerate(cfgs)], workers=WORKERS)
    driver, helpers = build(ctx.tier)
    top = scratch_root()
    try:
        n = WORKERS if ctx.tier == "quick" else WORKERS * 4
        budget = max(20, ctx.time_left() - (45 if ctx.tier == "quick" else 120))
        if ctx.tier == "thorough":
            budget = min(budget, 1500)
        stop_at = time.time() + budget  # one absolute deadline for all shards (they run in waves of WORKERS)
        roots = []
        for k in range(n):
            r = os.path.join(top, "w%03d" % k)  # fixed width: the root length is part of the total path length
            os.mkdir(r)
            os.chmod(r, 0o755)
            roots.append(r)
        jobs = [(lambda k=k: ctx.run_harness(driver, ["--root", roots[k]] + helper_args(helpers) +
                                             ["--tier", ctx.tier, "--shard", str(k), str(n), "--deadline", str(int(stop_at))],
                                             tag="c20-driver"))
                for k in range(n)]
        results = vlib.parallel(jobs, workers=WORKERS)
    finally:
        shutil.rmtree(top, ignore_errors=True)
    # the same signature can come from several shards: keep the report independent of thread timing
    ctx.viols.sort(key=order_key)
    # likewise the samples kept in the evidence: up to three written-out cases per grid, chosen independently of which shard finished first
    allsamples = sorted(rec["v"] for recs in results for rec in recs if rec.get("t") == "sample")
    ctx.samples = []
    esamples = sorted(v for v in ctx.samples if v.startswith("[endianness configuration"))[:3]
    ctx.samples = []
    for g in "ABCDEFG":
        ctx.samples += [v for v in allsamples if v.startswith("[grid %s," % g)][:2]
    ctx.samples += esamples[:12 - len(ctx.samples)]

    ctx.stat("helper_builds", len(helpers))
    thorough = ctx.tier == "thorough"
    ctx.rule = (
        "one evaluation = one run of the helper program installed at one path and started one way, judged on executable_path(), prefix_path() "
        "and endianness(). Grid A = depth (directories below the scratch root) x total byte length of the absolute path x flavour of every name "
        "{plain, spaces, utf8, highbytes(not UTF-8), leading-dot, special(control/shell/format characters)} x invocation "
        "{direct absolute, relative ./name from its directory, symlink to the file, symlinked directory%s} x helper build %s; "
        "quick: depth {1,2,3,8,40} x length {short, 1000, 1022, 1023, 1024, 1025, 2048, 4000, 4095, max-for-depth}; "
        "thorough: depth {1,2,3,4,5,8,16,17,40,100,1000} x length {short, 255..257, 511..513, 1000, every 1016..1032, 2047..2049, 3000, 4000, 4093..4095, max-for-depth} "
        "plus grid B = EVERY total length from the shortest creatable to PATH_MAX-1 (4095) at depth 17 x {plain, utf8, highbytes} x {direct, relative, symlink to the file}. "
        "Grid C = 55 names that look special to path-handling code but are ordinary bytes (ending in / equal to / containing ' (deleted)', backslashes, "
        "trailing dot(s) or blank, leading blank, single characters incl. blank, '-', backslash, '~', 0xff, leading '-', %% $ * ? quotes newline tab, only "
        "non-ASCII bytes; round 5: percent-encoded '..' '/' blank NUL, ~user, a name equal to another component of the same path ('bin', 'prog'), .exe / .app "
        "suffixes, 'file:', ':' and ';' inside, Unicode look-alikes of '..' (fullwidth, one-dot leaders, overlong UTF-8), NFD next to NFC, Windows device names, "
        "two blanks, [a-z], {a,b}) x slot {program name, its directory, a directory higher up%s} x %s x invocation %s. "
        "Grid D = 3..6-byte names with ONE 255-byte name as {first, middle, last directory, program name} x depth %s x flavour %s x invocation %s. "
        "Grid E = process state left behind by earlier calls {fresh; errno assigned 0, ENOENT, EINTR, ERANGE, ENAMETOOLONG, EINVAL, ENOMEM, EACCES, ELOOP; the same eight "
        "non-zero values left by a really failing system call; executable_path() already called twice (results must be identical); cwd = / ; cwd = a deleted "
        "directory; umask 0777; stdin closed} (23 states, entered immediately before each call) x install path %s x invocation %s; oracle unchanged, nothing is "
        "required of errno afterwards. "
        "Grid F = the DOT FAMILY of whole path components (a canonical path has no '.' or '..' components, so whole names are the only place dots occur): 36 names "
        "{.hidden, .a, ..data, ..a, ..<timestamp>.<digits>, three / four / five dots, ...a, dot(s) followed or preceded by a blank, '. .', '.. ..', dot(s) followed by a "
        "backslash, ..\\x, .. + 0xff, . + UTF-8, .. + newline, '.. (deleted)', '..' + 253 letters (NAME_MAX), 255 dots, a.b, a..b, a...b, v1.2.3, a., a.., name., name.., "
        "name..., .a., ..a.., .a..b.} x position {EVERY one of the depth+1 components (each directory level and the program name), all components at once} among "
        "ordinary 3..6-byte names x depth %s x invocation %s%s; oracle unchanged (exact install path, grandparent + '/', sanitizer clean). "
        "Grid G = ACCESS CONTEXT of the calling process relative to its install path: which directory of the path is restricted {none, %s, every directory} x "
        "rights the calling uid keeps there {--- (directory mode 0700), r-- may list but not search (0744), --x may search but not list (0711)} x mode of the program "
        "file {0755, 0111 execute-only} x launch {root: started by root and staying root (baseline, modes do not bind root); drop: started by root by absolute path, the "
        "PROGRAM does setgroups(0)/setgid/setuid to 65534 before calling; fexecve: the parent opens the file O_PATH while root, drops, fexecve(fd); procfd: same with "
        "execv(/proc/self/fd/N); cwd: the parent chdirs into the program's directory while root, drops, execv(./name); owner-revokes: path and file owned by 65534, "
        "started by it by absolute path, the PROGRAM fchmods the directory to 0000/0400/0100 before calling} x install path representative %s; no chroot, no namespaces. "
        "For every case the driver asks the kernel (a probe child with the same credentials opens the path O_PATH) whether the install path can still be walked and "
        "checks that and the uid/gid/groups the program reported against its permission model (mismatch = harness error); cases whose exec the kernel refuses (cwd launch "
        "into a directory the caller may not search) are counted in cases_not_startable and are not part of the space. Oracle unchanged: the path the driver created. "
        "The requested length is spread evenly over the depth+1 names (each 1..255 bytes); (depth, length) cells that no such split reaches are counted in "
        "cells_not_creatable / cases_not_creatable and are not part of the space. "
        "endianness() is in addition decided per BUILD CONFIGURATION (endian_probe.cpp, one translation unit each): what is seen before xtl/xplatform.hpp "
        "{nothing, <endian.h>, <sys/param.h>, <sys/types.h>, <netinet/in.h>, <bsd/sys/endian.h> when installed, -D_BIG_ENDIAN=4321 -D_LITTLE_ENDIAN=1234 "
        "-D_BYTE_ORDER=1234, -DBIG_ENDIAN.. -DLITTLE_ENDIAN.. -DBYTE_ORDER.., -D__BIG_ENDIAN.. -D__LITTLE_ENDIAN.. -D__BYTE_ORDER..} x {g++, clang++} x "
        "{c++14, c++17} x {-O0, -O2}, same in both tiers; each must report the byte layout of uint16/32/64 seen through memcpy (which must agree with "
        "__BYTE_ORDER__); every such configuration except 'nothing' counts as one distinct non-trivial case. "
        "distinct_nontrivial (paths) = distinct (install path below the root, invocation) pairs that are NOT of the kind the test-suite already runs, i.e. excluding "
        "plain-ASCII paths shorter than 256 bytes started directly or as ./name; the second helper build does not add to it; in grid E the prior state is part of the case (every state but 'fresh' is non-trivial)"
        % ((", symlink to a symlink to the file" if thorough else "", [h[0] for h in helpers]) +
           ((", all three", "total length {natural (depth 4 between opt/local/app/bin/prog), 1023, 1024, 2048, 4095 (depth 17, plain padding)}", "as grid A",
             "{3,4,8,17,40,100}", "all 6", "as grid A",
             "{short depth 2, one 255-byte name among short ones, total 1024 at depth 8, total 4095 at depth 40}", "{direct, relative, symlink to the file}",
             "{1,2,3,4,5,8,17}", "as grid A", ", plus every position at depth 17 with the other names padded (plain) to a total length of {1024, 4095}",
             "every single directory (depth <= 8; first / middle / the program's own at depth 40)",
             "{short plain depth 3, one 255-byte name among short ones highbytes depth 3, total 1024 spaces depth 8, short special depth 3, leading-dot depth 1, total 4095 utf8 depth 40}") if thorough else
            ("", "natural length (depth 4 between opt/local/app/bin/prog)", "{direct, symlink to the file}", "{3,8}", "{plain, spaces, highbytes}",
             "{direct, symlink to the file}", "{short depth 2, one 255-byte name among short ones, total 1024 at depth 8}", "{direct}",
             "{1,4}", "{direct, symlink to the file}", "",
             "the first / the middle / the program's own directory",
             "{short plain depth 3, one 255-byte name among short ones highbytes depth 3, total 1024 spaces depth 8}"))))
    ctx.assumptions += [
        "endianness configurations only use macro sets that real platforms define consistently with a little-endian target (both constants + the selector); a lone 'this target is big endian' flag (__BIG_ENDIAN__, __ARMEB__, ...) is never defined: that would misdescribe the target and is out of scope",
        "the oracle is the path the driver created (canonical scratch root + the names it generated); it is never read back from the program under test",
        "Linux x86-64 only: the _WIN32, __APPLE__, __FreeBSD__ and __sun branches of xsystem.hpp and the big-endian / mixed answers of endianness() are unreachable on this platform",
        "install paths live under a mkdtemp directory in /tmp (ext4 here); names are at most NAME_MAX=255 bytes and never '.' or '..'; hard links, bind mounts, deleted or replaced executables and paths longer than PATH_MAX-1 are outside the alphabet",
        "a program installed directly in / or one directory below / is not enumerated: creating it needs either a write into the real root directory (outside the scratch root) or chroot + a mounted /proc inside it (CAP_SYS_CHROOT + CAP_SYS_ADMIN)",
        "through a symlink the expected answer is the canonical path of the real file (what the property's observable, realpath(/proc/self/exe), denotes)",
        "AddressSanitizer (recover mode, stack redzones) is the observer for 'without reading or writing outside its internal buffer'; an access that stays inside a redzone-free neighbouring object of the same frame would not be seen",
        "name lengths inside one path are uniform (+-1) in grids A/B; grid D adds exactly one 255-byte name among short ones; other length mixtures are not enumerated",
        "the property quantifies over install paths of a program: every evaluation is a process started from an installed file that stays where it is; renaming or moving the running binary (or one of its parent directories) between two calls is a relocation of a running process, not an install path, and is not enumerated (repeated calls without relocation are: grid E state called-before)",
        "grid G: 'a path the platform allows' includes paths that the CALLING credentials cannot walk or list at the time of the call, as long as the process was legitimately "
        "started from there and nothing is moved (privilege drop after start, start through an inherited fd or cwd, the owner revoking its own rights); the install path and the "
        "file stay where they are for the whole run (unlike a relocation, which stays out of scope). Only the uid/gid pair 65534 with no supplementary groups is used as the "
        "unprivileged identity; group-based rights, ACLs, capabilities dropped while staying uid 0, chroot / mount namespaces and LSM policies are not enumerated; when the check "
        "does not run as root only the owner-revokes launch exists (reported as a cap)",
        "grids C and F put one special name (or the same special name everywhere) into a path of otherwise ordinary names; paths mixing two different special names are not enumerated",
    ]
    ctx.note("prefix_path() failures on a case where executable_path() itself failed are folded into the executable_path violation (same defect), "
             "they are counted in prefix_failures_folded_into_executable_path_failure")


def replay(ctx, rec):
    if rec.get("harness") == "c20-endian":
        endian_run(ctx, *[a for a in rec["args"] if a != "--sample"][:4])
        return
    driver, helpers = build(rec.get("tier", ctx.tier))
    top = scratch_root()
    try:
        root = os.path.join(top, "w000")
        os.mkdir(root)
        os.chmod(root, 0o755)
        ctx.run_harness(driver, ["--root", root] + helper_args(helpers) + ["--tier", rec.get("tier", ctx.tier)] + list(rec["args"]),
                        tag="c20-driver")
    finally:
        shutil.rmtree(top, ignore_errors=True)
