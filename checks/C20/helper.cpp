// C20 helper: the program that gets "installed" at every path of the alphabet.  It is the only place where the code
// under test runs.  It knows nothing about where it was put: it just prints what xtl says, hex-encoded, and whether
// AddressSanitizer reported anything during each call.  The judging is done by driver.cpp, which created the path.
#include "xtl/xsystem.hpp"
#include "xtl/xplatform.hpp"

#include "report.hpp"

#include <cstdio>
#include <cstring>
#include <string>

static void put_hex(const char* key, const std::string& s)
{
    std::printf("%s %zu ", key, s.size());
    for (unsigned char c : s) std::printf("%02x", c);
    std::printf("\n");
}

int main()
{
    (void) vf::take_asan();
    {
        std::string e = xtl::executable_path();
        int a = vf::take_asan() ? 1 : 0;
        put_hex("exe", e);
        std::printf("asan_exe %d\n", a);
    }
    {
        std::string p = xtl::prefix_path();
        int a = vf::take_asan() ? 1 : 0;
        put_hex("prefix", p);
        std::printf("asan_prefix %d\n", a);
    }
    {
        // endianness(): what the library says, next to three inspections that do not share its code:
        // the first byte in memory of a 16-bit and of a 64-bit pattern, and the compiler's own macro
        int lib = -1;
        switch (xtl::endianness())
        {
        case xtl::endian::big_endian: lib = 0; break;
        case xtl::endian::little_endian: lib = 1; break;
        case xtl::endian::mixed: lib = 2; break;
        }
        int a = vf::take_asan() ? 1 : 0;
        volatile unsigned short p16 = 0x0102;
        volatile unsigned long long p64 = 0x0102030405060708ULL;
        unsigned char b16[2], b64[8];
        unsigned short t16 = p16;
        unsigned long long t64 = p64;
        std::memcpy(b16, &t16, 2);
        std::memcpy(b64, &t64, 8);
        int macro = -1;
#if defined(__BYTE_ORDER__) && defined(__ORDER_LITTLE_ENDIAN__) && defined(__ORDER_BIG_ENDIAN__)
#if __BYTE_ORDER__ == __ORDER_LITTLE_ENDIAN__
        macro = 1;
#elif __BYTE_ORDER__ == __ORDER_BIG_ENDIAN__
        macro = 0;
#else
        macro = 2;
#endif
#endif
        std::printf("endian %d %d ", lib, macro);
        for (unsigned char c : b16) std::printf("%02x", c);
        std::printf(" ");
        for (unsigned char c : b64) std::printf("%02x", c);
        std::printf(" %d\n", a);
    }
    std::printf("end\n");
    std::fflush(stdout);
    return 0;
}
