// C20 helper: the program that gets "installed" at every path of the alphabet.  It is the only place where the code
// under test runs.  It knows nothing about where it was put: it just prints what xtl says, hex-encoded, and whether
// AddressSanitizer reported anything during each call.  The judging is done by driver.cpp, which created the path.
#include "xtl/xsystem.hpp"
#include "xtl/xplatform.hpp"

#include "report.hpp"

#include <cerrno>
#include <csignal>
#include <cstdio>
#include <cstdlib>
#include <cstring>
#include <fcntl.h>
#include <grp.h>
#include <string>
#include <sys/mman.h>
#include <sys/stat.h>
#include <unistd.h>

static void put_hex(const char* key, const std::string& s)
{
    std::printf("%s %zu ", key, s.size());
    for (unsigned char c : s) std::printf("%02x", c);
    std::printf("\n");
}

// ---- "process state left behind by earlier calls" (grid E of driver.cpp) ----------------------------------------------
// C20_STATE names the state the process is put into immediately before each call of the functions under test:
//   errno:<NAME>     errno assigned directly                    syscall:<NAME>  a really failing system call that sets it
//   called-before    executable_path() was already called (twice; the results must be identical)
//   cwd-root / cwd-deleted / umask-0777 / stdin-closed
// access context of the process relative to its install path (grid G of driver.cpp), entered once before the first judged call:
//   drop:<uid>                  the program, started with privileges, gives them up: setgroups(0) / setgid(uid) / setuid(uid)
//   revoke:<octal mode>:<fd,..> the program changes the mode of directories of its own install path (inherited directory fds)
static const struct { const char* name; int value; } ERRNOS[] = {
    {"0", 0}, {"ENOENT", ENOENT}, {"EINTR", EINTR}, {"ERANGE", ERANGE}, {"ENAMETOOLONG", ENAMETOOLONG},
    {"EINVAL", EINVAL}, {"ENOMEM", ENOMEM}, {"EACCES", EACCES}, {"ELOOP", ELOOP}};

static void on_usr1(int) {}

[[noreturn]] static void state_error(const std::string& what)
{
    std::printf("state_error %s (errno=%d)\n", what.c_str(), errno);
    std::fflush(stdout);
    _exit(0);
}

static int failing_syscall(int want)
{
    char buf[64];
    errno = 0;
    switch (want)
    {
    case ENOENT: { struct stat st; (void) ::stat("/nonexistent-c20/x", &st); break; }
    case EINTR:
    {
        struct sigaction sa;
        std::memset(&sa, 0, sizeof sa);
        sa.sa_handler = on_usr1;  // no SA_RESTART
        sigemptyset(&sa.sa_mask);
        ::sigaction(SIGUSR1, &sa, nullptr);
        sigset_t block, old, none;
        sigemptyset(&block);
        sigaddset(&block, SIGUSR1);
        ::sigprocmask(SIG_BLOCK, &block, &old);
        ::raise(SIGUSR1);  // pending
        none = old;
        sigdelset(&none, SIGUSR1);
        (void) ::sigsuspend(&none);  // handler runs, returns -1 / EINTR
        int e = errno;
        ::sigprocmask(SIG_SETMASK, &old, nullptr);
        errno = e;
        break;
    }
    case ERANGE: (void) !::getcwd(buf, 1); break;
    case ENAMETOOLONG: { struct stat st; std::string n(6000, 'n'); (void) ::stat(n.c_str(), &st); break; }
    case EINVAL: (void) !::readlink("/", buf, sizeof buf); break;  // not a symbolic link
    case ENOMEM: (void) ::mmap(nullptr, std::size_t(1) << 62, PROT_READ, MAP_PRIVATE | MAP_ANONYMOUS, -1, 0); break;
    case EACCES: { char* const av[] = {const_cast<char*>("passwd"), nullptr}; (void) ::execv("/etc/passwd", av); break; }  // no x bit: EACCES even for root
    case ELOOP: { int fd = ::open("/proc/self/exe", O_RDONLY | O_NOFOLLOW); if (fd >= 0) ::close(fd); break; }
    default: break;
    }
    return errno;
}

static bool g_once_done = false;

static void enter_state(const std::string& st)
{
    if (st.empty() || st == "fresh" || st == "called-before") return;
    if (st.compare(0, 6, "errno:") == 0 || st.compare(0, 8, "syscall:") == 0)
    {
        bool direct = st[0] == 'e';
        std::string n = st.substr(direct ? 6 : 8);
        for (auto& e : ERRNOS)
            if (n == e.name)
            {
                if (direct) { errno = e.value; return; }
                int got = failing_syscall(e.value);
                if (got != e.value) state_error("the system call meant to fail with " + n + " left errno " + std::to_string(got));
                return;
            }
        state_error("unknown errno name " + n);
    }
    if (g_once_done) return;
    g_once_done = true;
    if (st.compare(0, 5, "drop:") == 0)
    {
        const long id = std::atol(st.c_str() + 5);
        if (id <= 0) state_error("drop: bad uid");
        if (::setgroups(0, nullptr) != 0 || ::setgid(gid_t(id)) != 0 || ::setuid(uid_t(id)) != 0) state_error("drop privileges");
        if (::getuid() != uid_t(id) || ::geteuid() != uid_t(id) || ::getegid() != gid_t(id) || ::setuid(0) == 0) state_error("privileges were not dropped");
    }
    else if (st.compare(0, 7, "revoke:") == 0)
    {
        char* end = nullptr;
        const long mode = std::strtol(st.c_str() + 7, &end, 8);
        if (!end || *end != ':') state_error("revoke: bad mode");
        while (*end == ':' || *end == ',')
        {
            const long fd = std::strtol(end + 1, &end, 10);
            if (::fchmod(int(fd), mode_t(mode)) != 0) state_error("fchmod of directory fd " + std::to_string(fd));
            ::close(int(fd));
        }
    }
    else if (st == "cwd-root") { if (::chdir("/") != 0) state_error("chdir /"); }
    else if (st == "cwd-deleted")
    {
        const char* scratch = std::getenv("C20_SCRATCH");
        if (!scratch) state_error("C20_SCRATCH not set");
        std::string d = std::string(scratch) + "/.c20_gone";
        if (::mkdir(d.c_str(), 0755) != 0 || ::chdir(d.c_str()) != 0 || ::rmdir(d.c_str()) != 0) state_error("cwd-deleted");
    }
    else if (st == "umask-0777") ::umask(0777);
    else if (st == "stdin-closed") ::close(0);
    else state_error("unknown state " + st);
}

int main()
{
    (void) vf::take_asan();
    const char* st_env = std::getenv("C20_STATE");
    const std::string state = st_env ? st_env : "";
    if (state == "called-before")
    {
        std::string a = xtl::executable_path();
        std::string b = xtl::executable_path();
        put_hex("first", a);
        std::printf("repeat_equal %d\n", a == b ? 1 : 0);
    }
    {
        enter_state(state);
        std::string e = xtl::executable_path();
        int a = vf::take_asan() ? 1 : 0;
        put_hex("exe", e);
        std::printf("asan_exe %d\n", a);
        // the credentials the call was made with (the driver checks that the access context it asked for was really entered)
        std::printf("ids %ld %ld %ld %ld %d\n", long(::getuid()), long(::geteuid()), long(::getgid()), long(::getegid()), ::getgroups(0, nullptr));
    }
    {
        enter_state(state);
        std::string p = xtl::prefix_path();
        int a = vf::take_asan() ? 1 : 0;
        put_hex("prefix", p);
        std::printf("asan_prefix %d\n", a);
    }
    {
        // endianness(): what the library says, next to three inspections that do not share its code:
        // the first byte in memory of a 16-bit and of a 64-bit pattern, and the compiler's own macro
        int lib = -1;
        switch (xtl::endianness())
        {
        case xtl::endian::big_endian: lib = 0; break;
        case xtl::endian::little_endian: lib = 1; break;
        case xtl::endian::mixed: lib = 2; break;
        }
        int a = vf::take_asan() ? 1 : 0;
        volatile unsigned short p16 = 0x0102;
        volatile unsigned long long p64 = 0x0102030405060708ULL;
        unsigned char b16[2], b64[8];
        unsigned short t16 = p16;
        unsigned long long t64 = p64;
        std::memcpy(b16, &t16, 2);
        std::memcpy(b64, &t64, 8);
        int macro = -1;
#if defined(__BYTE_ORDER__) && defined(__ORDER_LITTLE_ENDIAN__) && defined(__ORDER_BIG_ENDIAN__)
#if __BYTE_ORDER__ == __ORDER_LITTLE_ENDIAN__
        macro = 1;
#elif __BYTE_ORDER__ == __ORDER_BIG_ENDIAN__
        macro = 0;
#else
        macro = 2;
#endif
#endif
        std::printf("endian %d %d ", lib, macro);
        for (unsigned char c : b16) std::printf("%02x", c);
        std::printf(" ");
        for (unsigned char c : b64) std::printf("%02x", c);
        std::printf(" %d\n", a);
    }
    std::printf("end\n");
    std::fflush(stdout);
    return 0;
}
