// C20 driver: enumerates the install-path alphabet, creates every path (relative mkdir/chdir steps), installs the helper
// there, runs it through every invocation kind and judges what it printed against the path THIS program created.
// The code under test runs only inside the helper (helper.cpp); nothing here includes an xtl header.
//
//   driver --root DIR --helper NAME=PATH [--helper NAME=PATH] --tier quick|thorough [--shard K N] [--deadline EPOCH_SECONDS]
//   driver --root DIR --helper NAME=PATH ... --tier T --slice GRID DEPTH LENCLASS        (replay of one slice)
//
// A "slice" is one cell: (grid A/B, depth, total length), (grid C, slot of the special name, total length),
// (grid D, depth, position of the long name), (grid E, install path, "states") or (grid F, depth, position of the dot-family
// name [@ total length]) or (grid G, install path representative, which directory of the path is restricted: none | index | all);
// its cases are flavour-or-name-shape-or-state-or-rights x invocation-or-launch (x helper build).
#include "report.hpp"

#include <algorithm>
#include <cerrno>
#include <climits>
#include <ctime>
#include <fcntl.h>
#include <grp.h>
#include <sys/sendfile.h>
#include <sys/stat.h>
#include <sys/types.h>
#include <sys/wait.h>

namespace
{
    [[noreturn]] void die(const std::string& what)
    {
        std::fprintf(stderr, "C20 driver: %s (errno=%d %s)\n", what.c_str(), errno, std::strerror(errno));
        std::fflush(stderr);
        _exit(2);
    }

    // ------------------------------------------------------------------ alphabet ----------------------------------

    const char* const FLAVOURS[] = {"plain", "spaces", "utf8", "highbytes", "leading-dot", "special"};
    enum { F_PLAIN, F_SPACES, F_UTF8, F_HIGH, F_DOT, F_SPECIAL, N_FLAVOURS };
    // the last six are the LAUNCH kinds of grid G (access context of the process relative to its install path): how a process
    // comes to run a program whose install path it cannot (fully) search or list with the credentials it has at call time
    const char* const INVOCATIONS[] = {"direct", "relative", "symlink-file", "symlink-dir", "symlink-chain",
                                       "root", "drop", "fexecve", "procfd", "cwd", "owner-revokes"};
    enum { I_DIRECT, I_RELATIVE, I_LINK_FILE, I_LINK_DIR, I_LINK_CHAIN,
           I_ACC_ROOT,     // started by root, stays root (rights on directories do not bind root: baseline)
           I_ACC_DROP,     // started by root by absolute path; the PROGRAM drops to an unprivileged uid/gid before the call (daemon start-up)
           I_ACC_FEXECVE,  // the parent opens the file (O_PATH) while privileged, drops, fexecve(fd)
           I_ACC_PROCFD,   // same, but execv("/proc/self/fd/N")
           I_ACC_CWD,      // the parent chdirs into the program's directory while privileged, drops, execv("./name")
           I_ACC_OWNER,    // path owned by the unprivileged uid, which starts the program by absolute path; the PROGRAM then removes
                           // its own rights on the directory (fchmod) before the call
           N_INVOCATIONS };
    const char* const LAUNCH_TEXT[] = {
        "started by root by its absolute path and staying root (directory modes do not bind root)",
        "started by root by its absolute path; the program itself does setgroups(0)/setgid/setuid to the unprivileged id before the call",
        "parent opens the file O_PATH while root, drops to the unprivileged id, fexecve(fd)",
        "parent opens the file O_PATH while root, drops to the unprivileged id, execv(\"/proc/self/fd/N\")",
        "parent chdirs into the program's directory while root, drops to the unprivileged id, execv(\"./name\")",
        "path and file owned by the unprivileged id, started by it by absolute path; the program itself fchmods the directory before the call"};
    // what the calling uid is left with on a restricted directory: nothing / may list it but not search it / may search but not list it
    const char* const RIGHTS[] = {"---", "r--", "--x"};
    const mode_t RIGHTS_MODE_OTHER[] = {0700, 0744, 0711};  // directory of root, the caller is "other"
    const mode_t RIGHTS_MODE_OWNER[] = {0000, 0400, 0100};  // directory of the caller itself
    enum { R_NONE, R_READ, R_SEARCH, N_RIGHTS };
    const mode_t FILE_MODES[] = {0755, 0111};               // the program file itself: ordinary / execute-only (not readable by a non-root caller)
    const uid_t UNPRIV = 65534;

    int flavour_min(int f) { return (f == F_UTF8 || f == F_DOT) ? 2 : 1; }

    // the i-th name (directory component or file name) of a path, exactly n bytes, never "." or "..", no '/', no NUL
    std::string component(int f, int i, int n)
    {
        static const char plain[] = "abcdefghijklmnopqrstuvwxyz0123456789_-+=,@~ABCXYZ";
        const int np = int(sizeof(plain) - 1);
        std::string s;
        switch (f)
        {
        case F_PLAIN:
            for (int j = 0; j < n; ++j) s += plain[(i * 7 + j) % np];
            break;
        case F_SPACES:  // interior, leading and trailing blanks, runs of two blanks
            for (int j = 0; j < n; ++j) s += ((j + i) % 3 == 0 || (j % 11) == 5) ? ' ' : plain[(i * 5 + j) % 26];
            break;
        case F_UTF8:
        {
            static const char* const units[] = {"\xc3\xa9", "\xe6\xbc\xa2", "\xf0\x9f\x98\x80", "\xc3\xb1", "\xd0\x96", "\xe2\x82\xac"};
            int k = i;
            while (int(s.size()) < n)
            {
                const char* u = units[k++ % 6];
                if (int(s.size() + std::strlen(u)) <= n) s += u;
                else s += 'u';
            }
            break;
        }
        case F_HIGH:  // bytes >= 0x80 that do not form UTF-8 (0xff/0xfe never occur in UTF-8, lone continuation bytes)
        {
            static const unsigned char hb[] = {0xff, 0x80, 0xfe, 0xe9, 0xa0, 0xc0, 0xbf, 0xf8};
            for (int j = 0; j < n; ++j) s += char(hb[(i + j) % 8]);
            break;
        }
        case F_DOT:
            s += '.';
            for (int j = 1; j < n; ++j) s += plain[(i * 3 + j) % 36];
            break;
        case F_SPECIAL:  // shell/terminal/format-string specials, control characters
        {
            static const char sp[] = "\n\t\\\"'%$*?[;&|<>()!#~\x01\x7f :{}`^";
            const int ns = int(sizeof(sp) - 1);
            for (int j = 0; j < n; ++j) s += sp[(i * 3 + j) % ns];
            break;
        }
        }
        return s;
    }

    struct tier_def
    {
        std::vector<int> depths;
        std::vector<std::string> lens;  // "short", "max" or a number
        std::vector<int> invocations;
        // grid B: every total length from the smallest creatable one to PATH_MAX-1 at one depth, reduced flavours/invocations
        int sweep_depth = 0;
        std::vector<int> sweep_flavours, sweep_invocations;
        // grid C: every name of the SHAPES list x the slot it is put in (program name / its directory / higher up / all three)
        // x total length ("natural" = depth 4 between ordinary short names; a number = depth 17 padded with plain names)
        std::vector<int> shape_positions, shape_invocations;
        std::vector<std::string> shape_lens;
        // grid D: short names with ONE component of NAME_MAX bytes (first / middle / last directory / program name)
        std::vector<int> mixed_depths, mixed_flavours, mixed_invocations;
        // grid E: process state left behind by earlier calls (STATES) x a few install paths of grid A/D (STATE_PATHS)
        std::vector<int> state_paths, state_invocations;
        // grid F: every name of the DOT FAMILY (dotfamily()) as the component at EVERY position of a path of ordinary short names
        // (each directory level and the program name), and as all components at once; dot_long_lens: in addition total lengths
        // reached by padding the other names (plain), at depth dot_long_depth
        std::vector<int> dot_depths, dot_invocations;
        std::vector<int> dot_long_lens;
        int dot_long_depth = 17;
        // grid G: access context.  install path representative (ACCESS_PATHS) x which directory is restricted x rights left x file mode x launch
        std::vector<int> access_paths;
        bool access_every_position = false;
    };
    // the path alphabet thinned to representatives: every flavour, the three length buckets, the length boundary 1024 and PATH_MAX-1, depth 1
    struct access_path { const char* label; int depth; const char* lenclass; int flavour; int long_at; };
    const access_path ACCESS_PATHS[] = {
        {"short-plain", 3, "short", F_PLAIN, -1},
        {"one-255-byte-name-highbytes", 3, "short", F_HIGH, 1},
        {"total-1024-spaces", 8, "1024", F_SPACES, -1},
        {"short-special", 3, "short", F_SPECIAL, -1},
        {"depth-1-leading-dot", 1, "short", F_DOT, -1},
        {"total-4095-utf8", 40, "4095", F_UTF8, -1},
    };
    const int N_ACCESS_PATHS = int(sizeof(ACCESS_PATHS) / sizeof(ACCESS_PATHS[0]));
    // positions (index of the restricted directory among the depth directories below the scratch root) enumerated for one path
    std::vector<int> access_positions(int depth, bool every)
    {
        std::set<int> s = {0, depth / 2, depth - 1};
        if (every && depth <= 8) for (int i = 0; i < depth; ++i) s.insert(i);
        return std::vector<int>(s.begin(), s.end());
    }
    const std::vector<std::string>& states()
    {
        static std::vector<std::string> v;
        if (v.empty())
        {
            v.push_back("fresh");
            for (const char* e : {"0", "ENOENT", "EINTR", "ERANGE", "ENAMETOOLONG", "EINVAL", "ENOMEM", "EACCES", "ELOOP"}) v.push_back(std::string("errno:") + e);
            for (const char* e : {"ENOENT", "EINTR", "ERANGE", "ENAMETOOLONG", "EINVAL", "ENOMEM", "EACCES", "ELOOP"}) v.push_back(std::string("syscall:") + e);
            for (const char* e : {"called-before", "cwd-root", "cwd-deleted", "umask-0777", "stdin-closed"}) v.push_back(e);
        }
        return v;
    }
    const char* const STATE_PATHS[] = {"short", "one-255-byte-name", "total-1024", "total-4095"};

    // names that look special to path-handling code but are ordinary bytes on POSIX
    struct shape_def { const char* label; std::string name; };
    const std::vector<shape_def>& shapes()
    {
        static const std::vector<shape_def> v = {
            {"ends-in-deleted", "prog (deleted)"},          // what the kernel appends to the link target of an unlinked file
            {"is-deleted-suffix", " (deleted)"},
            {"deleted-twice", "x (deleted) (deleted)"},
            {"deleted-in-middle", "a (deleted) b"},
            {"backslash-inside", "back\\slash"},
            {"backslash-end", "trail\\"},
            {"windows-like", "C:\\dir\\x.exe"},
            {"ends-in-dot", "name."},
            {"ends-in-two-dots", "name.."},
            {"ends-in-space", "name "},
            {"starts-with-space", " name"},
            {"single-letter", "a"},
            {"single-space", " "},
            {"single-dash", "-"},
            {"single-backslash", "\\"},
            {"single-tilde", "~"},
            {"single-highbyte", "\xff"},
            {"dash-option", "-rf"},
            {"double-dash-option", "--help"},
            {"percent-format", "%s%n%d"},
            {"percent-end", "100%"},
            {"dollar-var", "$HOME"},
            {"dollar-brace", "${x}"},
            {"star", "*"},
            {"star-inside", "a*b"},
            {"question", "what?"},
            {"single-quote", "it's"},
            {"double-quote", "say\"hi\""},
            {"newline", "line1\nline2"},
            {"newline-end", "name\n"},
            {"tab", "tab\tname"},
            {"only-highbytes", "\xff\xfe\xfd\x80"},
            {"only-utf8-nonascii", "\xc3\xa9\xe6\xbc\xa2"},
            {"only-latin1-controls", "\x80\x9f\xa0"},
            // round 5: further families of whole-component shapes that path-normalising / prefix-searching code could mangle
            // (the dot family has its own grid F)
            {"percent-encoded-dotdot", "%2e%2e"},           // URL decoding
            {"percent-encoded-slash", "a%2Fb"},
            {"percent-encoded-space", "a%20b"},
            {"percent-encoded-nul", "a%00b"},
            {"tilde-user", "~root"},                        // home expansion
            {"same-as-bin-directory", "bin"},               // a component equal to another component of the same path:
            {"same-as-program-name", "prog"},               //   code that searches for a name instead of cutting components
            {"exe-suffix", "prog.exe"},                     // suffix stripping
            {"app-bundle-suffix", "Prog.app"},
            {"url-scheme", "file:"},
            {"colon-inside", "a:b"},                        // PATH-list / drive separators
            {"semicolon-inside", "a;b"},
            {"fullwidth-dots", "\xef\xbc\x8e\xef\xbc\x8e"},   // U+FF0E U+FF0E: compatibility-normalises to ".."
            {"one-dot-leaders", "\xe2\x80\xa4\xe2\x80\xa4"}, // U+2024 U+2024
            {"overlong-encoded-dots", "\xc0\xae\xc0\xae"},     // the classic overlong (invalid) UTF-8 spelling of ".."
            {"decomposed-accent", "e\xcc\x81t\xc3\xa9"},       // NFD next to NFC: Unicode-normalising code changes bytes
            {"windows-device-name", "NUL"},
            {"windows-device-name-ext", "con.txt"},
            {"two-spaces", "  "},
            {"glob-class", "[a-z]"},
            {"brace-list", "{a,b}"},
        };
        return v;
    }

    // grid F: the DOT FAMILY.  On POSIX only the two names "." and ".." are special; every other name made of or containing
    // dots is an ordinary name, and a canonical path (what the property speaks about) never contains "." or ".." components.
    // So whole components are the only place where dots can appear: leading, trailing, inner, only dots, next to the bytes
    // that neighbour a separator in other notations (blank, backslash), next to non-ASCII bytes, short and NAME_MAX long.
    const std::vector<shape_def>& dotfamily()
    {
        static const std::vector<shape_def> v = {
            {"dot-name", ".hidden"},
            {"dot-letter", ".a"},
            {"dotdot-name", "..data"},                      // Kubernetes volume directories
            {"dotdot-letter", "..a"},
            {"dotdot-timestamp", "..2024_01_01_00_00_00.123456"},
            {"three-dots", "..."},
            {"four-dots", "...."},
            {"five-dots", "....."},
            {"three-dots-letter", "...a"},
            {"dot-space", ". "},
            {"dotdot-space", ".. "},
            {"space-dot", " ."},
            {"space-dotdot", " .."},
            {"dot-space-dot", ". ."},
            {"dotdot-space-dotdot", ".. .."},
            {"dot-backslash", ".\\"},
            {"dotdot-backslash", "..\\"},
            {"dotdot-backslash-name", "..\\x"},
            {"dotdot-highbyte", "..\xff"},
            {"dot-utf8", ".\xc3\xa9"},
            {"dotdot-newline", "..\n"},
            {"dotdot-deleted", ".. (deleted)"},
            {"dotdot-255-bytes", ".." + std::string(size_t(NAME_MAX - 2), 'k')},
            {"dots-255-bytes", std::string(size_t(NAME_MAX), '.')},
            {"inner-dot", "a.b"},
            {"inner-dotdot", "a..b"},
            {"inner-three-dots", "a...b"},
            {"version-dots", "v1.2.3"},
            {"letter-dot", "a."},
            {"letter-dotdot", "a.."},
            {"name-dot", "name."},
            {"name-dotdot", "name.."},
            {"name-three-dots", "name..."},
            {"dot-name-dot", ".a."},
            {"dotdot-name-dotdot", "..a.."},
            {"dots-everywhere", ".a..b."},
        };
        return v;
    }
    const char* const POSITIONS[] = {"program-name", "its-directory", "higher-up", "all-three"};
    const char* const MIXED_POS[] = {"first", "middle", "last-dir", "file"};

    tier_def make_tier(const std::string& tier)
    {
        tier_def t;
        if (tier == "quick")
        {
            t.depths = {1, 2, 3, 8, 40};
            t.lens = {"short", "1000", "1022", "1023", "1024", "1025", "2048", "4000", "4095", "max"};
            t.invocations = {I_DIRECT, I_RELATIVE, I_LINK_FILE, I_LINK_DIR};
            t.shape_positions = {0, 1, 2};
            t.shape_lens = {"natural"};
            t.shape_invocations = {I_DIRECT, I_LINK_FILE};
            t.mixed_depths = {3, 8};
            t.mixed_flavours = {F_PLAIN, F_SPACES, F_HIGH};
            t.mixed_invocations = {I_DIRECT, I_LINK_FILE};
            t.state_paths = {0, 1, 2};
            t.state_invocations = {I_DIRECT};
            t.dot_depths = {1, 4};
            t.dot_invocations = {I_DIRECT, I_LINK_FILE};
            t.access_paths = {0, 1, 2};
        }
        else
        {
            t.depths = {1, 2, 3, 4, 5, 8, 16, 17, 40, 100, 1000};
            t.lens = {"short", "255", "256", "257", "511", "512", "513", "1000"};
            for (int l = 1016; l <= 1032; ++l) t.lens.push_back(std::to_string(l));
            for (int l : {2047, 2048, 2049, 3000, 4000, 4093, 4094, 4095}) t.lens.push_back(std::to_string(l));
            t.lens.push_back("max");
            t.invocations = {I_DIRECT, I_RELATIVE, I_LINK_FILE, I_LINK_DIR, I_LINK_CHAIN};
            t.sweep_depth = 17;
            t.sweep_flavours = {F_PLAIN, F_UTF8, F_HIGH};
            t.sweep_invocations = {I_DIRECT, I_RELATIVE, I_LINK_FILE};
            t.shape_positions = {0, 1, 2, 3};
            t.shape_lens = {"natural", "1023", "1024", "2048", "4095"};
            t.shape_invocations = t.invocations;
            t.mixed_depths = {3, 4, 8, 17, 40, 100};
            t.mixed_flavours = {F_PLAIN, F_SPACES, F_UTF8, F_HIGH, F_DOT, F_SPECIAL};
            t.mixed_invocations = t.invocations;
            t.state_paths = {0, 1, 2, 3};
            t.state_invocations = {I_DIRECT, I_RELATIVE, I_LINK_FILE};
            t.dot_depths = {1, 2, 3, 4, 5, 8, 17};
            t.dot_invocations = t.invocations;
            t.dot_long_lens = {1024, 4095};
            t.access_paths = {0, 1, 2, 3, 4, 5};
            t.access_every_position = true;
        }
        return t;
    }

    struct slice
    {
        std::string grid;  // "A" | "B" | "C" | "D" | "E" (E: depth = index into STATE_PATHS, lenclass = "states")
        int depth;             // A, B, D: directories below the root;  C: slot of the special name (index into POSITIONS)
        std::string lenclass;  // A, B: "short" | "max" | total length;  C: "natural" | total length;  D: entry of MIXED_POS
    };

    const int MAXLEN = PATH_MAX - 1;  // longest path string the platform accepts
    const int NAMEMAX = 255;

    // ------------------------------------------------------------------ state --------------------------------------

    bool g_isroot = true;     // grid G needs root to create directories the caller cannot search; without it only owner-revokes exists
    bool g_access_grid = true;  // false: uid 0 that may not change its uid (e.g. a user namespace without other ids): grid G cannot be set up
    std::string g_root;       // as given
    std::string g_realroot;   // canonical
    std::vector<std::pair<std::string, std::string>> g_helpers;  // build name -> binary
    std::set<std::string> g_distinct;

    // name lengths (depth directories + file name) for a cell, or empty when not creatable
    std::vector<int> name_lengths(int depth, const std::string& lenclass, int flavour, int* total)
    {
        const int R = int(g_realroot.size());
        const int n = depth + 1;
        std::vector<int> v;
        if (lenclass == "short")
        {
            int sum = 0;
            for (int i = 0; i < n; ++i) { v.push_back(3 + (i % 4)); sum += v.back(); }
            *total = R + n + sum;
            if (*total > MAXLEN) v.clear();
            return v;
        }
        long S;
        if (lenclass == "max") S = std::min<long>(long(NAMEMAX) * n, long(MAXLEN) - R - n);
        else S = std::atol(lenclass.c_str()) - R - n;
        if (S < long(flavour_min(flavour)) * n || S > long(NAMEMAX) * n) return v;
        for (int i = 0; i < n; ++i) v.push_back(int(S / n) + (i < int(S % n) ? 1 : 0));
        *total = R + n + int(S);
        return v;
    }

    std::string abbreviate(const std::string& s)
    {
        if (s.size() <= 24) return s;
        return s.substr(0, 16) + "...(" + std::to_string(s.size()) + " bytes)";
    }

    std::string unhex(const std::string& h)
    {
        std::string o;
        for (size_t i = 0; i + 1 < h.size(); i += 2) o += char(std::strtol(h.substr(i, 2).c_str(), nullptr, 16));
        return o;
    }

    std::string slurp(const std::string& path)
    {
        std::string o;
        int fd = ::open(path.c_str(), O_RDONLY);
        if (fd < 0) return o;
        char buf[65536];
        ssize_t k;
        while ((k = ::read(fd, buf, sizeof buf)) > 0) o.append(buf, size_t(k));
        ::close(fd);
        return o;
    }

    void copy_to(const std::string& src, const char* relname)
    {
        int in = ::open(src.c_str(), O_RDONLY);
        if (in < 0) die("open helper " + src);
        struct stat st;
        if (::fstat(in, &st) != 0) die("fstat helper");
        int out = ::open(relname, O_WRONLY | O_CREAT | O_EXCL, 0755);
        if (out < 0) die("create installed program");
        off_t left = st.st_size;
        while (left > 0)
        {
            ssize_t k = ::sendfile(out, in, nullptr, size_t(left));
            if (k <= 0) die("sendfile");
            left -= k;
        }
        if (::close(out) != 0) die("close installed program");
        ::close(in);
    }

    struct outcome
    {
        bool ran = false;          // helper ended normally with all records
        std::string how;           // otherwise: what happened
        std::string stage;         // function that was running when it stopped
        std::string exe, prefix;
        bool have_exe = false, have_prefix = false, have_endian = false;
        int asan_exe = 0, asan_prefix = 0, asan_endian = 0;
        int e_lib = -1, e_macro = -1;
        std::string e_b16, e_b64;
        std::string asan_line;
        std::string first;       // state called-before: what the earlier call returned
        int repeat_equal = -1;   //                      and whether two earlier calls agreed
        bool started = true;     // grid G: false when execve itself was refused with EACCES (the caller may not search the directory)
        long ruid = -1, euid = -1, rgid = -1, egid = -1, ngroups = -1;  // credentials at call time as the helper saw them
    };

    // grid G: how the process is started and how it comes to its credentials (see the I_ACC_* kinds)
    struct launch
    {
        int kind = -1;
        std::string file;                      // program name (cwd launch: "./name")
        std::vector<std::string> revoke_dirs;  // owner-revokes: directories whose mode the program changes itself (absolute paths)
        mode_t revoke_mode = 0;
    };

    void drop_privileges()
    {
        if (!g_isroot) return;
        if (::setgroups(0, nullptr) != 0 || ::setgid(UNPRIV) != 0 || ::setuid(UNPRIV) != 0) _exit(125);
        if (::geteuid() != UNPRIV || ::setuid(0) == 0) _exit(125);
    }

    // can a process with the given credentials reach `path` by walking it from / ?  0 yes, 1 EACCES (asked of the kernel in a child)
    int probe_walk(const std::string& path, bool unprivileged)
    {
        pid_t pid = ::fork();
        if (pid < 0) die("fork (probe)");
        if (pid == 0)
        {
            if (unprivileged) drop_privileges();
            int fd = ::open(path.c_str(), O_PATH | O_CLOEXEC);
            _exit(fd >= 0 ? 0 : errno == EACCES ? 13 : 99);
        }
        int status = 0;
        while (::waitpid(pid, &status, 0) < 0)
            if (errno != EINTR) die("waitpid (probe)");
        if (WIFEXITED(status) && WEXITSTATUS(status) == 0) return 0;
        if (WIFEXITED(status) && WEXITSTATUS(status) == 13) return 1;
        die("access probe ended unexpectedly (status " + std::to_string(status) + ")");
    }

    // run argv0path (as seen from the current directory = the bin directory) and collect what the helper printed
    outcome run_helper(const std::string& invoke_path, const std::string& state_in = "", const launch* lc = nullptr)
    {
        std::string state = state_in;
        const std::string outf = g_root + "/.c20_out", errf = g_root + "/.c20_err";
        pid_t pid = ::fork();
        if (pid < 0) die("fork");
        if (pid == 0)
        {
            int o = ::open(outf.c_str(), O_WRONLY | O_CREAT | O_TRUNC, 0644);
            int e = ::open(errf.c_str(), O_WRONLY | O_CREAT | O_TRUNC, 0644);
            if (o < 0 || e < 0) _exit(126);
            ::dup2(o, 1);
            ::dup2(e, 2);
            ::close(o);
            ::close(e);
            int devnull = ::open("/dev/null", O_RDONLY);
            if (devnull >= 0) { ::dup2(devnull, 0); ::close(devnull); }
            for (int s : {SIGSEGV, SIGABRT, SIGFPE, SIGBUS, SIGILL}) std::signal(s, SIG_DFL);
            // recover mode so that an over-read is reported and the run continues; no symbolizer, no leak pass (speed)
            ::setenv("ASAN_OPTIONS",
                     "handle_segv=0:handle_abort=0:handle_sigfpe=0:handle_sigbus=0:handle_sigill=0:halt_on_error=0:"
                     "detect_leaks=0:allocator_may_return_null=1:abort_on_error=0:exitcode=0:symbolize=0", 1);
            ::setenv("UBSAN_OPTIONS", "print_stacktrace=0:symbolize=0", 1);
            if (!state.empty()) ::setenv("C20_STATE", state.c_str(), 1); else ::unsetenv("C20_STATE");
            ::setenv("C20_SCRATCH", g_realroot.c_str(), 1);
            ::alarm(120);
            std::string path = invoke_path;
            int exec_fd = -1;
            if (lc)
                switch (lc->kind)
                {
                case I_ACC_ROOT: break;
                case I_ACC_DROP: state = "drop:" + std::to_string(long(UNPRIV)); break;
                case I_ACC_FEXECVE:
                    exec_fd = ::open(path.c_str(), O_PATH | O_CLOEXEC);
                    if (exec_fd < 0) _exit(124);
                    drop_privileges();
                    break;
                case I_ACC_PROCFD:
                {
                    int fd = ::open(path.c_str(), O_PATH);
                    if (fd < 0) _exit(124);
                    drop_privileges();
                    path = "/proc/self/fd/" + std::to_string(fd);
                    break;
                }
                case I_ACC_CWD:  // the current directory IS the program's directory (run_slice built the path by chdir steps)
                    drop_privileges();
                    path = "./" + lc->file;
                    break;
                case I_ACC_OWNER:
                {
                    std::string fds;
                    for (const std::string& d : lc->revoke_dirs)
                    {
                        int fd = ::open(d.c_str(), O_RDONLY | O_DIRECTORY);
                        if (fd < 0) _exit(124);
                        fds += (fds.empty() ? "" : ",") + std::to_string(fd);
                    }
                    drop_privileges();
                    if (!fds.empty())
                    {
                        char oct[16];
                        std::snprintf(oct, sizeof oct, "%o", unsigned(lc->revoke_mode));
                        state = std::string("revoke:") + oct + ":" + fds;
                    }
                    break;
                }
                default: _exit(124);
                }
            if (lc) { if (!state.empty()) ::setenv("C20_STATE", state.c_str(), 1); else ::unsetenv("C20_STATE"); }
            char* const argv[] = {const_cast<char*>(path.c_str()), nullptr};
            if (exec_fd >= 0) ::fexecve(exec_fd, argv, environ);
            else ::execv(path.c_str(), argv);
            _exit(lc && errno == EACCES ? 120 : 127);
        }
        int status = 0;
        while (::waitpid(pid, &status, 0) < 0)
            if (errno != EINTR) die("waitpid");
        outcome r;
        std::string out = slurp(outf), err = slurp(errf);
        {
            size_t p = err.find("ERROR: AddressSanitizer");
            if (p == std::string::npos) p = err.find("runtime error");
            if (p != std::string::npos)
            {
                size_t e = err.find('\n', p);
                r.asan_line = err.substr(p, (e == std::string::npos ? err.size() : e) - p);
                size_t a = r.asan_line.find(" on address ");  // addresses differ from run to run: keep them out of messages
                if (a != std::string::npos) r.asan_line.erase(a);
                size_t q = err.find("READ of size", p);
                if (q == std::string::npos) q = err.find("WRITE of size", p);
                if (q != std::string::npos)
                {
                    size_t e2 = err.find(" at ", q);
                    if (e2 != std::string::npos && e2 - q < 40) r.asan_line += "; " + err.substr(q, e2 - q);
                }
            }
        }
        bool ended = false;
        std::istringstream is(out);
        std::string line;
        while (std::getline(is, line))
        {
            std::istringstream ls(line);
            std::string k;
            ls >> k;
            if (k == "state_error") die("the helper could not enter state '" + state + "': " + line);
            if (k == "repeat_equal") { ls >> r.repeat_equal; continue; }
            if (k == "ids") { ls >> r.ruid >> r.euid >> r.rgid >> r.egid >> r.ngroups; continue; }
            if (k == "exe" || k == "prefix" || k == "first")
            {
                size_t len = 0;
                std::string hex;
                ls >> len >> hex;
                std::string v = unhex(hex);
                if (v.size() != len) { r.how = "garbled helper output"; break; }
                if (k == "first") r.first = v;
                else if (k == "exe") { r.exe = v; r.have_exe = true; }
                else { r.prefix = v; r.have_prefix = true; }
            }
            else if (k == "asan_exe") ls >> r.asan_exe;
            else if (k == "asan_prefix") ls >> r.asan_prefix;
            else if (k == "endian") { ls >> r.e_lib >> r.e_macro >> r.e_b16 >> r.e_b64 >> r.asan_endian; r.have_endian = true; }
            else if (k == "end") ended = true;
        }
        r.stage = !r.have_exe ? "executable_path" : !r.have_prefix ? "prefix_path" : !r.have_endian ? "endianness" : "exit";
        if (WIFSIGNALED(status))
        {
            int s = WTERMSIG(status);
            r.how = s == SIGALRM ? "timeout-120s" : s == SIGSEGV ? "SIGSEGV" : s == SIGABRT ? "SIGABRT" : s == SIGBUS ? "SIGBUS"
                  : s == SIGFPE ? "SIGFPE" : s == SIGILL ? "SIGILL" : "signal-" + std::to_string(s);
        }
        else if (WIFEXITED(status) && WEXITSTATUS(status) == 120)
        {
            r.started = false;  // execve refused with EACCES: judged against the permission model by the caller
            r.how = "not-started";
            return r;
        }
        else if (WIFEXITED(status) && (WEXITSTATUS(status) == 124 || WEXITSTATUS(status) == 125))
            die("grid G: the child could not " + std::string(WEXITSTATUS(status) == 124 ? "open the file or directory it was to pass on" : "drop its privileges"));
        else if (WIFEXITED(status) && WEXITSTATUS(status) == 127)
            die("execv of the installed helper failed: " + abbreviate(invoke_path) + " stderr: " + err.substr(0, 300));
        else if (WIFEXITED(status) && WEXITSTATUS(status) == 126)
            die("child could not open its output files");
        else if (WIFEXITED(status) && WEXITSTATUS(status) != 0)
            r.how = "exit-status-" + std::to_string(WEXITSTATUS(status));
        else if (!ended && r.how.empty())
            r.how = "incomplete-output";
        r.ran = r.how.empty();
        return r;
    }

    // ------------------------------------------------------------------ judging ------------------------------------

    struct failure
    {
        std::string function, kind, msg;
        int flavour, invocation;
    };

    std::string len_bucket(int L) { return L < 256 ? "len<256" : L < 1024 ? "len256-1023" : "len1024-4095"; }

    size_t common_prefix(const std::string& a, const std::string& b)
    {
        size_t i = 0;
        while (i < a.size() && i < b.size() && a[i] == b[i]) ++i;
        return i;
    }

    std::string show_tail(const std::string& s, size_t from)
    {
        size_t b = from > 6 ? from - 6 : 0;
        return "..." + s.substr(b, 22) + (b + 22 < s.size() ? "..." : "");
    }

    bool g_endian_reported = false;

    void judge(const outcome& r, const std::string& expect_exe, const std::string& expect_prefix, const std::string& where,
               int flavour, int invocation, bool& exe_ub, std::vector<failure>& fails, std::vector<failure>& global_fails)
    {
        // exe_ub: an earlier (sanitizer) build of this very case already showed an invalid access inside executable_path()
        auto add = [&](const std::string& fn, const std::string& kind, const std::string& msg)
        { fails.push_back(failure{fn, kind, where + ": " + msg, flavour, invocation}); };

        if (!r.ran)
            add(r.stage == "exit" ? "helper" : r.stage, "crashed-" + r.how,
                "the installed program ended by " + r.how + " while running " + r.stage + (r.asan_line.empty() ? "" : " [" + r.asan_line + "]"));
        bool exe_clean = false;
        if (r.have_exe)
        {
            bool ok = r.exe == expect_exe;
            if (r.asan_exe)
                add("executable_path", "asan-report", "AddressSanitizer reported an invalid access inside executable_path() [" + r.asan_line + "]; returned "
                    + std::to_string(r.exe.size()) + " bytes, " + (ok ? "equal to" : "different from") + " the install path");
            if (r.asan_exe) exe_ub = true;
            // a call during which the sanitizer saw an invalid access is reported once, as asan-report: what it returned
            // (in this or in another build of the same case) is the product of undefined behaviour -- it can depend on
            // stale stack bytes -- and is only counted, not reported as a second violation
            if (!ok && exe_ub) vf::stat("wrong_results_folded_into_asan_report");
            if (!ok && !exe_ub)
            {
                size_t c = common_prefix(r.exe, expect_exe);
                add("executable_path", r.exe.empty() ? "empty-path" : "wrong-path",
                    "expected the install path (" + std::to_string(expect_exe.size()) + " bytes), observed " + std::to_string(r.exe.size())
                    + " bytes; first difference at byte " + std::to_string(c) + ": expected '" + show_tail(expect_exe, c) + "' observed '" + show_tail(r.exe, c) + "'");
            }
            if (r.repeat_equal == 0 || (r.repeat_equal == 1 && r.first != r.exe))
                add("executable_path", "differs-between-calls", "repeated calls in one process returned different strings: " + std::to_string(r.first.size())
                    + " bytes first, " + std::to_string(r.exe.size()) + " bytes later");
            exe_clean = ok && !exe_ub;
            vf::stat(ok ? "exe_path_correct" : "exe_path_wrong");
        }
        if (r.have_prefix)
        {
            bool ok = r.prefix == expect_prefix;
            vf::stat(ok ? "prefix_correct" : "prefix_wrong");
            // prefix_path() is executable_path() plus two cuts: when executable_path() already failed on this very case
            // the same defect is not reported a second time under another name
            if (exe_clean)
            {
                if (r.asan_prefix)
                    add("prefix_path", "asan-report", "AddressSanitizer reported an invalid access inside prefix_path() [" + r.asan_line + "]");
                if (!ok)
                {
                    size_t c = common_prefix(r.prefix, expect_prefix);
                    add("prefix_path", "wrong-prefix",
                        "executable_path() was right but prefix_path() is not the grandparent directory + '/': expected " + std::to_string(expect_prefix.size())
                        + " bytes, observed " + std::to_string(r.prefix.size()) + " bytes; first difference at byte " + std::to_string(c) + ": expected '"
                        + show_tail(expect_prefix, c) + "' observed '" + show_tail(r.prefix, c) + "'");
                }
            }
            else if (!ok || r.asan_prefix)
                vf::stat("prefix_failures_folded_into_executable_path_failure");
        }
        if (r.have_endian)
        {
            // what the platform does, from the 16-bit and the 64-bit pattern: 1 little, 0 big, 2 neither
            int p16 = r.e_b16 == "0201" ? 1 : r.e_b16 == "0102" ? 0 : 2;
            int p64 = r.e_b64 == "0807060504030201" ? 1 : r.e_b64 == "0102030405060708" ? 0 : 2;
            static const char* const names[] = {"big_endian", "little_endian", "mixed"};
            vf::stat("endianness_evaluations");
            if (p16 != p64 || (r.e_macro >= 0 && r.e_macro != p64))
                die("the three byte-order inspections disagree with each other: " + r.e_b16 + " " + r.e_b64 + " macro " + std::to_string(r.e_macro));
            if ((r.e_lib != p64 || r.asan_endian) && !g_endian_reported)
            {
                g_endian_reported = true;
                if (r.e_lib != p64)
                    global_fails.push_back(failure{"endianness", "reports-" + std::string(r.e_lib >= 0 && r.e_lib <= 2 ? names[r.e_lib] : "nothing"),
                        std::string("platform stores 0x0102 as bytes ") + r.e_b16 + " and 0x0102030405060708 as " + r.e_b64 + " (__BYTE_ORDER__ says "
                        + (r.e_macro >= 0 ? names[r.e_macro] : "nothing") + "), i.e. " + names[p64] + "; endianness() returned "
                        + (r.e_lib >= 0 && r.e_lib <= 2 ? names[r.e_lib] : "?"), p64, 0});
                if (r.asan_endian)
                    global_fails.push_back(failure{"endianness", "asan-report", "AddressSanitizer reported an invalid access inside endianness()", p64, 0});
            }
        }
    }

    // ------------------------------------------------------------------ one slice ----------------------------------

    struct spec
    {
        std::string label;               // flavour or name shape: the row of the attribution table
        std::vector<std::string> names;  // directories + program name; empty = this case is not creatable
        std::string what;                // description for messages
        bool plain = false;
        std::string state;               // grid E: C20_STATE for the helper
        // grid G: indices (among the directories below the scratch root) of the restricted directories, the rights the calling uid
        // keeps on them, the mode of the program file
        std::vector<int> restricted;
        int rights = -1;
        mode_t fmode = 0755;
    };

    std::string relpath_shown(const std::vector<std::string>& names, const std::vector<size_t>& keep)
    {
        size_t total = 0;
        for (auto& n : names) total += n.size() + 1;
        std::string o = "$ROOT";
        if (total <= 100) { for (auto& n : names) o += "/" + n; return o; }
        size_t last = size_t(-1);
        for (size_t k : keep)
        {
            if (k >= names.size() || k == last) continue;
            o += (last == size_t(-1) ? (k == 0 ? "/" : "/.../") : (k == last + 1 ? "/" : "/.../")) + abbreviate(names[k]);
            last = k;
        }
        return o;
    }

    std::vector<spec> make_specs(const tier_def& T, const slice& sl, std::vector<int>& invocations)
    {
        std::vector<spec> out;
        const int R = int(g_realroot.size());
        if (sl.grid == "A" || sl.grid == "B")
        {
            std::vector<int> flavours;
            if (sl.grid == "A") { for (int f = 0; f < N_FLAVOURS; ++f) flavours.push_back(f); invocations = T.invocations; }
            else { flavours = T.sweep_flavours; invocations = T.sweep_invocations; }
            for (int f : flavours)
            {
                spec sp;
                sp.label = FLAVOURS[f];
                sp.plain = f == F_PLAIN;
                int L = 0;
                std::vector<int> lens = name_lengths(sl.depth, sl.lenclass, f, &L);
                for (size_t i = 0; i < lens.size(); ++i) sp.names.push_back(component(f, int(i), lens[i]));
                if (!lens.empty())
                    sp.what = "depth " + std::to_string(sl.depth) + ", total length " + std::to_string(L) + " bytes (name lengths "
                        + std::to_string(lens.front()) + ".." + std::to_string(lens.back()) + "), flavour " + FLAVOURS[f] + ", path "
                        + relpath_shown(sp.names, {0, sp.names.size() - 1});
                out.push_back(sp);
            }
        }
        else if (sl.grid == "C")
        {
            invocations = T.shape_invocations;
            if (sl.depth < 0 || sl.depth > 3) die("bad slot");
            const bool natural = sl.lenclass == "natural";
            const size_t n = natural ? 5 : 18;
            const size_t upper = natural ? 1 : 8, dir = n - 2, file = n - 1;
            for (const shape_def& sh : shapes())
            {
                spec sp;
                sp.label = sh.label;
                std::vector<bool> slot(n, false);
                if (sl.depth == 0 || sl.depth == 3) slot[file] = true;
                if (sl.depth == 1 || sl.depth == 3) slot[dir] = true;
                if (sl.depth == 2 || sl.depth == 3) slot[upper] = true;
                size_t k = size_t(std::count(slot.begin(), slot.end(), true));
                std::vector<std::string> names(n);
                bool ok = true;
                if (natural)
                {
                    static const char* const ordinary[] = {"opt", "local", "app", "bin", "prog"};
                    for (size_t i = 0; i < n; ++i) names[i] = slot[i] ? sh.name : std::string(ordinary[i]);
                }
                else
                {
                    long S = std::atol(sl.lenclass.c_str()) - R - long(n) - long(k * sh.name.size());
                    long m = long(n - k);
                    if (S < m || S > long(NAMEMAX) * m) ok = false;
                    long j = 0;
                    for (size_t i = 0; ok && i < n; ++i)
                    {
                        if (slot[i]) { names[i] = sh.name; continue; }
                        names[i] = component(F_PLAIN, int(i), int(S / m + (j < S % m ? 1 : 0)));
                        ++j;
                    }
                }
                if (ok)
                {
                    sp.names = names;
                    size_t L = size_t(R);
                    for (auto& x : names) L += 1 + x.size();
                    sp.what = "name shape " + std::string(sh.label) + " as " + POSITIONS[sl.depth] + ", depth " + std::to_string(n - 1) + ", total length "
                        + std::to_string(L) + " bytes, path " + relpath_shown(names, {0, upper, dir, file});
                }
                out.push_back(sp);
            }
        }
        else if (sl.grid == "D")
        {
            invocations = T.mixed_invocations;
            int pos = -1;
            for (int i = 0; i < 4; ++i) if (sl.lenclass == MIXED_POS[i]) pos = i;
            if (pos < 0 || sl.depth < 3) die("bad mixed-length cell");
            const size_t n = size_t(sl.depth) + 1;
            const size_t at = pos == 0 ? 0 : pos == 1 ? size_t(sl.depth) / 2 : pos == 2 ? n - 2 : n - 1;
            for (int f : T.mixed_flavours)
            {
                spec sp;
                sp.label = FLAVOURS[f];
                size_t L = size_t(R);
                for (size_t i = 0; i < n; ++i)
                {
                    sp.names.push_back(component(f, int(i), i == at ? NAMEMAX : 3 + int(i % 4)));
                    L += 1 + sp.names.back().size();
                }
                if (L > size_t(MAXLEN)) sp.names.clear();
                else
                    sp.what = "one " + std::to_string(NAMEMAX) + "-byte name as " + MIXED_POS[pos] + " component (index " + std::to_string(at) + " of "
                        + std::to_string(n) + ") among 3..6-byte names, depth " + std::to_string(sl.depth) + ", total length " + std::to_string(L)
                        + " bytes, flavour " + FLAVOURS[f] + ", path " + relpath_shown(sp.names, {0, at, n - 1});
                out.push_back(sp);
            }
        }
        else if (sl.grid == "E")
        {
            invocations = T.state_invocations;
            if (sl.depth < 0 || sl.depth > 3) die("bad state path");
            std::vector<std::string> names;
            int L = 0;
            if (sl.depth == 1)
                for (size_t i = 0; i < 4; ++i) names.push_back(component(F_PLAIN, int(i), i == 1 ? NAMEMAX : 3 + int(i % 4)));
            else
            {
                int depth = sl.depth == 0 ? 2 : sl.depth == 2 ? 8 : 40;
                std::vector<int> lens = name_lengths(depth, sl.depth == 0 ? "short" : sl.depth == 2 ? "1024" : "4095", F_PLAIN, &L);
                for (size_t i = 0; i < lens.size(); ++i) names.push_back(component(F_PLAIN, int(i), lens[i]));
            }
            size_t total = size_t(R);
            for (auto& x : names) total += 1 + x.size();
            for (const std::string& st : states())
            {
                spec sp;
                sp.label = st;
                sp.state = st;
                sp.names = names;
                sp.what = "prior process state " + st + ", install path " + STATE_PATHS[sl.depth] + " (depth " + std::to_string(names.size() - 1) + ", total length "
                    + std::to_string(total) + " bytes, plain names), path " + relpath_shown(names, {0, names.size() - 1});
                out.push_back(sp);
            }
        }
        else if (sl.grid == "F")
        {
            // lenclass = "<position>" | "all" | "<position>@<total length>"; position = index of the dot-family name among the
            // depth+1 names (0 = first directory below the root ... depth = the program name)
            invocations = T.dot_invocations;
            const size_t n = size_t(sl.depth) + 1;
            if (sl.depth < 1) die("bad dot-family cell");
            std::string posw = sl.lenclass;
            long total = 0;
            size_t atsign = posw.find('@');
            if (atsign != std::string::npos) { total = std::atol(posw.c_str() + atsign + 1); posw.erase(atsign); }
            const bool all = posw == "all";
            const size_t at = all ? 0 : size_t(std::atol(posw.c_str()));
            if (!all && (posw.empty() || posw.find_first_not_of("0123456789") != std::string::npos || at >= n)) die("bad dot-family position");
            if (all && total) die("bad dot-family cell: 'all' has no padding names");
            for (const shape_def& sh : dotfamily())
            {
                spec sp;
                sp.label = sh.label;
                std::vector<std::string> names(n);
                bool ok = true;
                if (!total)
                    for (size_t i = 0; i < n; ++i) names[i] = (all || i == at) ? sh.name : component(F_PLAIN, int(i), 3 + int(i % 4));
                else
                {
                    long S = total - R - long(n) - long(sh.name.size()), m = long(n) - 1, j = 0;
                    if (m < 1 || S < m || S > long(NAMEMAX) * m) ok = false;
                    for (size_t i = 0; ok && i < n; ++i)
                    {
                        if (i == at) { names[i] = sh.name; continue; }
                        names[i] = component(F_PLAIN, int(i), int(S / m + (j < S % m ? 1 : 0)));
                        ++j;
                    }
                }
                size_t L = size_t(R);
                for (auto& x : names) L += 1 + x.size();
                if (ok && L > size_t(MAXLEN)) ok = false;
                if (ok && total && long(L) != total) die("internal: length bookkeeping (grid F)");
                if (ok)
                {
                    const std::set<size_t> keepset = {0, at, n - 2, n - 1};
                    const std::vector<size_t> keep(keepset.begin(), keepset.end());
                    sp.names = names;
                    sp.what = "dot-family name " + std::string(sh.label) + " as " + (all ? std::string("EVERY component")
                        : at == n - 1 ? std::string("the program name") : "directory " + std::to_string(at + 1) + " of " + std::to_string(n - 1))
                        + ", depth " + std::to_string(n - 1) + ", total length " + std::to_string(L) + " bytes, path " + relpath_shown(names, keep);
                }
                out.push_back(sp);
            }
        }
        else if (sl.grid == "G")
        {
            // depth = index into ACCESS_PATHS; lenclass = "none" | "<index of the restricted directory>" | "all"
            if (sl.depth < 0 || sl.depth >= N_ACCESS_PATHS) die("bad access-context path");
            const access_path& ap = ACCESS_PATHS[sl.depth];
            if (g_isroot) invocations = {I_ACC_ROOT, I_ACC_DROP, I_ACC_FEXECVE, I_ACC_PROCFD, I_ACC_CWD, I_ACC_OWNER};
            else invocations = {I_ACC_OWNER};
            std::vector<std::string> names;
            int L = 0;
            if (ap.long_at >= 0)
                for (int i = 0; i <= ap.depth; ++i) names.push_back(component(ap.flavour, i, i == ap.long_at ? NAMEMAX : 3 + (i % 4)));
            else
            {
                std::vector<int> lens = name_lengths(ap.depth, ap.lenclass, ap.flavour, &L);
                for (size_t i = 0; i < lens.size(); ++i) names.push_back(component(ap.flavour, int(i), lens[i]));
            }
            size_t total = size_t(R);
            for (auto& x : names) total += 1 + x.size();
            std::vector<int> restricted;
            std::string which;
            if (sl.lenclass == "none") which = "no directory restricted";
            else if (sl.lenclass == "all")
            {
                for (int i = 0; i < ap.depth; ++i) restricted.push_back(i);
                which = "EVERY one of the " + std::to_string(ap.depth) + " directories below the scratch root restricted";
            }
            else
            {
                if (sl.lenclass.find_first_not_of("0123456789") != std::string::npos || std::atoi(sl.lenclass.c_str()) >= ap.depth) die("bad access-context position");
                const int at = std::atoi(sl.lenclass.c_str());
                restricted.push_back(at);
                which = "directory " + std::to_string(at + 1) + " of " + std::to_string(ap.depth) + (at == ap.depth - 1 ? " (the program's own directory)" : "") + " restricted";
            }
            for (int rg = 0; rg < N_RIGHTS; ++rg)
            {
                if (restricted.empty() && rg != 0) break;  // nothing restricted: the rights alphabet does not apply
                for (mode_t fm : FILE_MODES)
                {
                    char oct[16];
                    std::snprintf(oct, sizeof oct, "%04o", unsigned(fm));
                    spec sp;
                    sp.names = names;  // empty when the representative is not creatable under this root
                    sp.restricted = restricted;
                    sp.rights = restricted.empty() ? -1 : rg;
                    sp.fmode = fm;
                    sp.plain = ap.flavour == F_PLAIN && restricted.empty() && fm == 0755;
                    sp.label = std::string(restricted.empty() ? "r-x" : RIGHTS[rg]) + "/" + oct;
                    sp.what = "access context: " + which + (restricted.empty() ? "" : ", rights left to the calling uid there '" + std::string(RIGHTS[rg]) + "'")
                        + ", program file mode " + oct + ", install path " + ap.label + " (depth " + std::to_string(ap.depth) + ", total length "
                        + std::to_string(total) + " bytes, flavour " + FLAVOURS[ap.flavour] + "), path " + relpath_shown(names, {0, names.size() - 1});
                    out.push_back(sp);
                }
            }
        }
        else die("unknown grid " + sl.grid);
        return out;
    }

    // ---- grid G: one access context.  Sets the ownership / modes up, starts the program through the launch kind, ASKS THE KERNEL
    // (probe child with the same credentials) whether the install path can still be walked, compares that and the credentials the
    // program reported with the permission model (a mismatch is a harness error: the context was not what the case says), and puts
    // ownership and modes back.  The verdict on what the program returned is the ordinary one (judge).
    outcome run_access_case(const spec& sp, int kind, const std::vector<std::string>& names, const std::string& expect_exe)
    {
        const int depth = int(names.size()) - 1;
        std::vector<std::string> dirs;  // absolute paths of the directories below the scratch root, top-down
        {
            std::string d = g_realroot;
            for (int i = 0; i < depth; ++i) { d += "/" + names[size_t(i)]; dirs.push_back(d); }
        }
        const bool owner = kind == I_ACC_OWNER;
        const bool unprivileged = kind != I_ACC_ROOT;
        const bool may_search = sp.rights == R_SEARCH;  // of the restricted directories; all others are 0755
        // permission model -------------------------------------------------------------------------------------------------
        bool bindir_restricted = false;
        for (int i : sp.restricted) if (i == depth - 1) bindir_restricted = true;
        const bool model_startable = !(kind == I_ACC_CWD && bindir_restricted && !may_search);
        const bool model_walkable = (kind == I_ACC_ROOT && g_isroot) || sp.restricted.empty() || may_search;
        // set-up ----------------------------------------------------------------------------------------------------------
        launch lc;
        lc.kind = kind;
        lc.file = names.back();
        if (owner)
        {
            if (g_isroot)
            {
                for (const std::string& d : dirs) if (::lchown(d.c_str(), UNPRIV, UNPRIV) != 0) die("chown directory");
                if (::lchown(expect_exe.c_str(), UNPRIV, UNPRIV) != 0) die("chown installed program");
                if (::chmod(expect_exe.c_str(), sp.fmode) != 0) die("chmod installed program");  // chown clears nothing here, but be explicit
            }
            for (int i : sp.restricted) lc.revoke_dirs.push_back(dirs[size_t(i)]);
            if (!sp.restricted.empty()) lc.revoke_mode = RIGHTS_MODE_OWNER[sp.rights];
        }
        else
            for (int i : sp.restricted)
                if (::chmod(dirs[size_t(i)].c_str(), RIGHTS_MODE_OTHER[sp.rights]) != 0) die("chmod directory");
        // run + probe -----------------------------------------------------------------------------------------------------
        outcome r = run_helper(expect_exe, "", &lc);
        const int walk = probe_walk(expect_exe, unprivileged);
        // put everything back (top-down, so that it also works for a non-root owner) --------------------------------------------
        for (const std::string& d : dirs)
        {
            if (::chmod(d.c_str(), 0755) != 0) die("chmod directory back");
            if (owner && g_isroot && ::lchown(d.c_str(), 0, 0) != 0) die("chown directory back");
        }
        if (owner && g_isroot && (::lchown(expect_exe.c_str(), 0, 0) != 0 || ::chmod(expect_exe.c_str(), sp.fmode) != 0)) die("chown installed program back");
        // harness self-checks ---------------------------------------------------------------------------------------------
        const std::string ctx = std::string(INVOCATIONS[kind]) + " / " + sp.label + " / " + std::to_string(sp.restricted.size()) + " restricted";
        if (r.started != model_startable)
            die("grid G (" + ctx + "): the kernel " + (r.started ? "started" : "refused to start") + " the program but the permission model says the opposite");
        if ((walk == 0) != model_walkable)
            die("grid G (" + ctx + "): the install path is " + (walk == 0 ? "walkable" : "not walkable") + " for the calling credentials but the permission model says the opposite");
        vf::stat("access_probe_runs");
        if (!r.started) return r;
        vf::stat(walk == 0 ? "access_contexts_path_walkable" : "access_contexts_path_not_walkable");
        if (r.have_exe)
        {
            const long want = unprivileged && g_isroot ? long(UNPRIV) : long(::geteuid());
            if (r.ruid != want || r.euid != want || (g_isroot && (r.rgid != want || r.egid != want)) || (unprivileged && g_isroot && r.ngroups != 0))
                die("grid G (" + ctx + "): the program reported uid " + std::to_string(r.ruid) + "/" + std::to_string(r.euid) + " gid " + std::to_string(r.rgid) + "/"
                    + std::to_string(r.egid) + " groups " + std::to_string(r.ngroups) + " at call time, expected " + std::to_string(want));
        }
        return r;
    }

    void run_slice(const tier_def& T, const slice& sl, long slice_index)
    {
        std::vector<int> invocations;
        const std::vector<spec> specs = make_specs(T, sl, invocations);
        std::vector<failure> fails, global_fails;
        std::set<std::pair<int, int>> present;
        int L_any = 0;
        long case_no = 0;
        const long sample_at = (slice_index * 7) % long(specs.size() * invocations.size());

        for (int f = 0; f < int(specs.size()); ++f)
        {
            const spec& sp = specs[size_t(f)];
            if (sp.names.empty()) { vf::stat("cases_not_creatable", long(invocations.size())); case_no += long(invocations.size()); continue; }
            const std::vector<std::string>& names = sp.names;
            const int depth = int(names.size()) - 1;
            const std::string& file = names.back();

            // the path this driver creates; nothing below reads it back from the program under test
            std::string expect_exe = g_realroot, expect_prefix, bindir;
            for (int i = 0; i < depth; ++i)
            {
                if (i == depth - 1) expect_prefix = expect_exe + "/";
                expect_exe += "/" + names[size_t(i)];
            }
            bindir = expect_exe;
            expect_exe += "/" + file;
            const int L = int(expect_exe.size());
            if (L > MAXLEN) die("internal: length bookkeeping");
            if ((sl.grid == "A" || sl.grid == "B" || sl.grid == "C") && sl.lenclass != "states" && sl.lenclass != "short" && sl.lenclass != "max" && sl.lenclass != "natural"
                && L != std::atoi(sl.lenclass.c_str()))
                die("internal: length bookkeeping");
            L_any = L;

            // build it with relative steps so that any length up to PATH_MAX-1 is creatable
            if (::chdir(g_realroot.c_str()) != 0) die("chdir root");
            for (int i = 0; i < depth; ++i)
            {
                if (::mkdir(names[size_t(i)].c_str(), 0755) != 0) die("mkdir component " + std::to_string(i));
                if (::chdir(names[size_t(i)].c_str()) != 0) die("chdir component " + std::to_string(i));
            }
            const std::string lf = g_realroot + "/.c20_lf", ld = g_realroot + "/.c20_ld", lc = g_realroot + "/.c20_lc";
            bool links = ::symlink(expect_exe.c_str(), lf.c_str()) == 0;
            links = ::symlink(bindir.c_str(), ld.c_str()) == 0 && links;
            links = ::symlink(lf.c_str(), lc.c_str()) == 0 && links;
            if (!links) die("symlink creation");

            std::map<int, bool> exe_ub;  // per invocation; the sanitizer build is helper 0 and runs first
            for (size_t hv = 0; hv < g_helpers.size(); ++hv)
            {
                copy_to(g_helpers[hv].second, file.c_str());
                if (sp.fmode != 0755 && ::chmod(file.c_str(), sp.fmode) != 0) die("chmod installed program");
                long cn = case_no;
                for (int inv : invocations)
                {
                    std::string how;
                    switch (inv)
                    {
                    case I_DIRECT: how = expect_exe; break;
                    case I_RELATIVE: how = "./" + file; break;
                    case I_LINK_FILE: how = lf; break;
                    case I_LINK_DIR: how = ld + "/" + file; break;
                    case I_LINK_CHAIN: how = lc; break;
                    default: how = expect_exe; break;  // grid G launches: see run_helper
                    }
                    outcome r;
                    if (inv >= I_ACC_ROOT)
                    {
                        r = run_access_case(sp, inv, names, expect_exe);
                        if (!r.started) { vf::stat("cases_not_startable"); ++cn; continue; }  // not part of the space: the kernel refuses the exec
                    }
                    else r = run_helper(how, sp.state);
                    std::string where = std::string("[grid ") + sl.grid + ", " + sp.what + (inv >= I_ACC_ROOT ? std::string(", launch ") + INVOCATIONS[inv] + " ("
                        + LAUNCH_TEXT[inv - I_ACC_ROOT] + ")" : std::string(", invocation ") + INVOCATIONS[inv]) + ", build " + g_helpers[hv].first + "]";
                    const size_t fails_before = fails.size();
                    judge(r, expect_exe, expect_prefix, where, f, inv, exe_ub[inv], fails, global_fails);
                    if (fails.size() != fails_before) vf::stat("failing_runs_grid_" + sl.grid);
                    present.insert({f, inv});
                    vf::stat("evaluations");
                    vf::stat(std::string("runs_") + INVOCATIONS[inv]);
                    vf::stat("runs_grid_" + sl.grid);
                    if (sl.grid != "C" && sl.grid != "E" && sl.grid != "F" && sl.grid != "G") vf::stat("runs_flavour_" + sp.label);
                    if (L >= 1024) vf::stat("runs_with_path_ge_1024");
                    vf::smax("max_path_length", L);
                    vf::smax("max_depth", depth);
                    // distinct non-trivial: see ctx.rule in check.py
                    bool trivial = (sp.plain || sp.state == "fresh") && L < 256 && (inv == I_DIRECT || inv == I_RELATIVE);
                    if (sl.grid == "G") trivial = sp.plain && inv == I_ACC_ROOT;  // = an ordinary direct start
                    if (!trivial && g_distinct.insert(expect_exe.substr(g_realroot.size()) + "\x01" + INVOCATIONS[inv] + "\x01" + sp.state
                                                      + (sl.grid == "G" ? sp.label + "@" + sl.lenclass : std::string())).second)
                        vf::stat("distinct_nontrivial");
                    if (hv == 0 && cn == sample_at)
                        vf::sample(where + " -> executable_path() " + (r.exe == expect_exe ? "== install path" : "!= install path") + " ("
                            + std::to_string(r.exe.size()) + " bytes), prefix_path() " + (r.prefix == expect_prefix ? "== grandparent/" : "!= grandparent/")
                            + " (" + std::to_string(r.prefix.size()) + " bytes), asan " + (r.asan_exe || r.asan_prefix ? "REPORT" : "clean"),
                            sl.grid == "A" || sl.grid == "B" ? 3 : sl.grid == "G" ? 9 : 6);
                    ++cn;
                }
                if (::unlink(file.c_str()) != 0) die("unlink installed program");
            }
            case_no += long(invocations.size());

            ::unlink(lf.c_str());
            ::unlink(ld.c_str());
            ::unlink(lc.c_str());
            for (int i = depth - 1; i >= 0; --i)
            {
                if (::chdir("..") != 0) die("chdir ..");
                if (::rmdir(names[size_t(i)].c_str()) != 0) die("rmdir component " + std::to_string(i));
            }
        }
        if (present.empty()) { vf::stat("cells_not_creatable"); return; }
        vf::stat("slices");

        // ---- attribution inside the slice: which part of flavour x invocation fails in the same way ----
        std::map<std::pair<std::string, std::string>, std::vector<const failure*>> groups;
        for (const failure& x : fails) groups[{x.function, x.kind}].push_back(&x);
        for (auto& g : groups)
        {
            std::set<std::pair<int, int>> F;
            std::set<int> ff, fi;
            for (const failure* x : g.second) { F.insert({x->flavour, x->invocation}); ff.insert(x->flavour); fi.insert(x->invocation); }
            std::string scope;
            if (F == present && sl.grid != "G") scope = "all";
            else if (sl.grid == "G")
            {
                // rights x file mode x launch: name the failing part when it is a full sub-product of what was run
                std::set<int> fr, fm;
                for (int f : ff) { fr.insert(specs[size_t(f)].rights); fm.insert(int(specs[size_t(f)].fmode)); }
                std::set<std::pair<int, int>> prod;
                std::set<int> allmodes, alllaunch, unprivileged;  // launches: those that could be started in the failing rows
                for (auto& p : present)
                {
                    allmodes.insert(int(specs[size_t(p.first)].fmode));
                    const bool row = fr.count(specs[size_t(p.first)].rights) && fm.count(int(specs[size_t(p.first)].fmode));
                    if (row) { alllaunch.insert(p.second); if (p.second != I_ACC_ROOT) unprivileged.insert(p.second); }
                    if (row && fi.count(p.second)) prod.insert(p);
                }
                if (F == present) scope = "access=all";
                else if (F == prod)
                {
                    scope = "rights=";
                    for (int r : fr) scope += std::string(scope.back() == '=' ? "" : "+") + (r < 0 ? "r-x" : RIGHTS[r]);
                    if (fm != allmodes) { scope += ";file="; for (int m : fm) { char o[16]; std::snprintf(o, sizeof o, "%04o", unsigned(m)); scope += std::string(scope.back() == '=' ? "" : "+") + o; } }
                    scope += ";launch=";
                    if (fi == alllaunch) scope += "all";
                    else if (fi == unprivileged) scope += "every-unprivileged";
                    else for (int i : fi) scope += std::string(scope.back() == '=' ? "" : "+") + INVOCATIONS[i];
                }
                else scope = "access=some";
            }
            else
            {
                std::set<std::pair<int, int>> byf, byi;
                for (auto& p : present) { if (ff.count(p.first)) byf.insert(p); if (fi.count(p.second)) byi.insert(p); }
                if (F == byf && ff.size() > 6) scope = std::to_string(ff.size()) + "-of-" + std::to_string(specs.size()) + (sl.grid == "C" || sl.grid == "F" ? "-names" : sl.grid == "E" ? "-states" : "-flavours");
                else if (F == byf) { scope = sl.grid == "C" || sl.grid == "F" ? "name=" : sl.grid == "E" ? "state=" : "flavour="; for (int f : ff) scope += std::string(scope.back() == '=' ? "" : "+") + specs[size_t(f)].label; }
                else if (F == byi) { scope = "invocation="; for (int i : fi) scope += std::string(scope.back() == '=' ? "" : "+") + INVOCATIONS[i]; }
                else scope = "some";
            }
            std::string sig = "C20/" + g.first.first + "/" + len_bucket(L_any) + "," + scope + "/" + g.first.second;
            std::string msg = g.second.front()->msg + " -- " + std::to_string(F.size()) + " of the " + std::to_string(present.size())
                + " cases (flavour or name shape or state or access rights x invocation or launch) of this cell fail this way";
            vf::violation(sig, msg, {"--slice", sl.grid, std::to_string(sl.depth), sl.lenclass});
        }
        for (const failure& x : global_fails)
        {
            static const char* const names[] = {"big-endian-platform", "little-endian-platform", "mixed-endian-platform"};
            vf::violation("C20/endianness/" + std::string(names[x.flavour]) + "/" + x.kind, x.msg, {"--slice", sl.grid, std::to_string(sl.depth), sl.lenclass});
        }
    }
}

int main(int argc, char** argv)
{
    std::string tier = "quick";
    long shard = 0, nshards = 1;
    double deadline = 1e18;
    bool one = false;
    slice one_slice{"A", 1, "short"};
    for (int i = 1; i < argc; ++i)
    {
        std::string a = argv[i];
        if (a == "--root" && i + 1 < argc) g_root = argv[++i];
        else if (a == "--helper" && i + 1 < argc)
        {
            std::string v = argv[++i];
            size_t p = v.find('=');
            if (p == std::string::npos) die("--helper NAME=PATH");
            g_helpers.push_back({v.substr(0, p), v.substr(p + 1)});
        }
        else if (a == "--tier" && i + 1 < argc) tier = argv[++i];
        else if (a == "--shard" && i + 2 < argc) { shard = std::atol(argv[++i]); nshards = std::atol(argv[++i]); }
        else if (a == "--deadline" && i + 1 < argc) deadline = std::atof(argv[++i]);
        else if (a == "--slice" && i + 3 < argc) { one = true; one_slice.grid = argv[++i]; one_slice.depth = std::atoi(argv[++i]); one_slice.lenclass = argv[++i]; }
        else die("bad argument " + a);
    }
    if (g_root.empty() || g_helpers.empty()) die("need --root and --helper");
    char rp[PATH_MAX];
    if (!::realpath(g_root.c_str(), rp)) die("realpath of root");
    g_realroot = rp;
    g_isroot = ::geteuid() == 0;
    if (g_isroot)
    {
        // is the dropped-privilege machinery available here?  (asked once, in a child)
        pid_t pid = ::fork();
        if (pid < 0) die("fork");
        if (pid == 0) _exit(::setgroups(0, nullptr) == 0 && ::setgid(UNPRIV) == 0 && ::setuid(UNPRIV) == 0 && ::geteuid() == UNPRIV ? 0 : 1);
        int status = 0;
        while (::waitpid(pid, &status, 0) < 0)
            if (errno != EINTR) die("waitpid");
        g_access_grid = WIFEXITED(status) && WEXITSTATUS(status) == 0;
    }
    if (g_isroot && g_access_grid)
    {
        // grid G needs every directory ABOVE the install paths to be searchable by the unprivileged id (only the directories the
        // case restricts may stand in its way); check.py creates the scratch root accordingly
        struct stat st;
        std::string up = g_realroot;
        while (up.size() > 1)
        {
            if (::stat(up.c_str(), &st) != 0) die("stat " + up);
            if ((st.st_mode & 0005) != 0005) die("the scratch root must be world-searchable for grid G: " + up);
            up.erase(up.rfind('/') == 0 ? 1 : up.rfind('/'));
        }
    }

    tier_def T = make_tier(tier);
    vf::smax("grid_C_name_shapes", (long long) shapes().size());
    vf::smax("grid_F_dot_family_names", (long long) dotfamily().size());
    std::vector<slice> slices;
    if (one) slices.push_back(one_slice);
    else
    {
        for (int d : T.depths)
            for (const std::string& l : T.lens) slices.push_back(slice{"A", d, l});
        if (T.sweep_depth)
        {
            int lo = int(g_realroot.size()) + 2 * (T.sweep_depth + 1);
            for (int l = lo; l <= MAXLEN; ++l) slices.push_back(slice{"B", T.sweep_depth, std::to_string(l)});
        }
        for (int pos : T.shape_positions)
            for (const std::string& l : T.shape_lens) slices.push_back(slice{"C", pos, l});
        for (int d : T.mixed_depths)
            for (const char* p : MIXED_POS) slices.push_back(slice{"D", d, p});
        for (int k : T.state_paths) slices.push_back(slice{"E", k, "states"});
        for (int d : T.dot_depths)
        {
            for (int p = 0; p <= d; ++p) slices.push_back(slice{"F", d, std::to_string(p)});
            slices.push_back(slice{"F", d, "all"});
        }
        for (int l : T.dot_long_lens)
            for (int p = 0; p <= T.dot_long_depth; ++p) slices.push_back(slice{"F", T.dot_long_depth, std::to_string(p) + "@" + std::to_string(l)});
        if (!g_access_grid)
        {
            if (shard == 0)
                vf::cap("grid G (access context) not run: this process is uid 0 but may not change to uid/gid 65534 (setgroups/setgid/setuid refused), and directory "
                        "modes do not bind uid 0, so no access context can be set up");
        }
        else for (int k : T.access_paths)
        {
            const int d = ACCESS_PATHS[k].depth;
            slices.push_back(slice{"G", k, "none"});
            for (int p : access_positions(d, T.access_every_position)) slices.push_back(slice{"G", k, std::to_string(p)});
            if (d > 1) slices.push_back(slice{"G", k, "all"});
        }
        if (!g_isroot && shard == 0)  // (then g_access_grid is true: an ordinary user can restrict its own directories)
            vf::cap("grid G: not running as root, so directories the caller cannot search cannot be set up from outside; only the launch kind "
                    "owner-revokes (the program restricts its own directories) is enumerated, the five root-based launch kinds are not");
    }
    long mine = 0, done_n = 0;
    for (size_t i = 0; i < slices.size(); ++i)
    {
        if (long(i) % nshards != shard) continue;
        ++mine;
        // --deadline is an absolute wall-clock time (seconds since the epoch) shared by all shards; it only decides where
        // a run is cut short (and then reported as capped), never a verdict
        if (double(std::time(nullptr)) > deadline)
            continue;
        run_slice(T, slices[i], long(i));
        ++done_n;
    }
    if (done_n < mine)
        vf::cap("shard " + std::to_string(shard) + "/" + std::to_string(nshards) + ": deadline reached after " + std::to_string(done_n) + " of "
                + std::to_string(mine) + " (depth, length) cells; the remaining cells were not run");
    if (::chdir("/") != 0) die("chdir /");
    ::unlink((g_root + "/.c20_out").c_str());
    ::unlink((g_root + "/.c20_err").c_str());
    vf::done();
    return 0;
}
