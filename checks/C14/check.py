"""C14 byte hashes are pure functions of the bytes and equal reference MurmurHash2 / MurmurHash64A.

Two parts, merged into one context:
  * hash functions (this directory): exhaustive enumeration of length x content family x function x seed x placement x alignment x
    surrounding fill on exact-size heap blocks under AddressSanitizer, plus all 256^3 (thorough: 256^4) contents of one length,
    plus guard-page placements in a forked child, plus bands of lengths around powers of two (2^13 .. 2^16, thorough .. 2^22) and
    keys of 2 GiB / 4 GiB (lengths 2^31 + d, 2^32 + d in a sparse anonymous mapping between inaccessible pages),
    plus std::hash of equal fixed strings across storage layouts; oracle = the
    independently written refs/C14_murmur_ref.hpp (itself checked against the SMHasher verification values).
    ALIAS (alias_scen.cpp + alias_main.cpp): keys whose bytes were last written through lvalues of 19 element types x 8 shapes x
    element counts x {g++, clang++} x {-O0..-O3} builds without sanitizer; HIST: all histories up to a depth over two std::hash
    objects and two fixed-string objects (the hasher object's history).
  * fixed-string coherence: the C01 explorer (error kinds 'C14:'), every reachable raw state of every layout.
"""
import os
import sys

import vlib

HERE = os.path.dirname(os.path.abspath(__file__))
sys.path.insert(0, os.path.join(os.path.dirname(HERE), "C01"))
import fscommon  # noqa: E402

LEVEL = "exploration"

# The explorer reports the hash query as ".../query-C14:hash"; fscommon.owner() looks for a last signature component that STARTS
# with "C14:" and would hand these reports to C01.  Only this process is affected by the replacement below.
_fs_owner = fscommon.owner


def _owner(sig):
    if "C14:" in sig.split("/")[-1]:
        return "C14"
    return _fs_owner(sig)


fscommon.owner = _owner
SRC = os.path.join(HERE, "harness.cpp")

# every AddressSanitizer report must reach the harness (the default de-duplicates reports by program counter, which would make
# the attribution of a report to an input depend on what ran before it); the harness limits the volume itself
ASAN_ENV = {"ASAN_OPTIONS": vlib.ASAN_ENV + ":suppress_equal_pcs=0"}

# tag -> compile_cxx keyword arguments
BUILDS = {
    "c14-O1-asan": dict(opt="-O1", san="asan", compiler="g++"),
    "c14-O2-asan": dict(opt="-O2", san="asan", compiler="g++"),
    "c14-O0-asan": dict(opt="-O0", san="asan", compiler="g++"),
    "c14-clang-O1-asan": dict(opt="-O1", san="asan", compiler="clang++"),
    "c14-O2-nosan": dict(opt="-O2", san="none", compiler="g++"),
}


# ALIAS part: the scenario translation unit alias_scen.cpp is compiled once per (compiler, optimisation flags) WITHOUT sanitizer (what a
# client's release build does) and linked with the driver object (alias_main.cpp, always g++ -O0, no xtl header)
ALIAS_SCEN = os.path.join(HERE, "alias_scen.cpp")
ALIAS_MAIN = os.path.join(HERE, "alias_main.cpp")
ALIAS_BUILDS = {}
for _c, _cn in (("g++", "gxx"), ("clang++", "clang")):
    for _o in ("-O0", "-O1", "-O2", "-O3"):
        ALIAS_BUILDS["c14-alias-%s%s" % (_cn, _o)] = dict(compiler=_c, opt=_o, flags=(), tiers=("quick", "thorough"))
    ALIAS_BUILDS["c14-alias-%s-Os" % _cn] = dict(compiler=_c, opt="-Os", flags=(), tiers=("thorough",))
    ALIAS_BUILDS["c14-alias-%s-O2-noinline" % _cn] = dict(compiler=_c, opt="-O2", flags=("-fno-inline",), tiers=("thorough",))
# the scenario table must be exactly this product (alias_scen.cpp): 19 element types, 18 of them with element counts {1,2,3,5,6} and
# long double with one element, x 6 compile-time shapes, + 2 run-time shapes per type, x 3 functions; 8 fixed-string types x 8 lengths
ALIAS_EXPECT = (3 * ((18 * 5 + 1) * 6 + 19 * 2), 8 * 8)
ALIAS_NMAX = {"quick": 12, "thorough": 64}
ALIAS_NLOOPS = {"quick": "4,7", "thorough": "4,7,16"}
HIST_DEPTH = {"quick": 4, "thorough": 5}


def build(tag, expect_fail=False):
    if tag in ALIAS_BUILDS:
        return build_alias(tag)
    kw = BUILDS[tag]
    return vlib.compile_cxx(SRC, tag, std="c++14", expect_fail=expect_fail, **kw)


def build_alias_driver():
    # an object file ("-c"): g++ -O0, no sanitizer; its cache name contains the hash of its preprocessed source
    return vlib.compile_cxx(ALIAS_MAIN, "c14-alias-driver.o", std="c++14", opt="-O0", san="none", compiler="g++", flags=("-c",))


def build_alias(tag, driver=None):
    kw = ALIAS_BUILDS[tag]
    if driver is None:
        driver = build_alias_driver()
    what = " ".join((kw["opt"],) + tuple(kw["flags"]))
    return vlib.compile_cxx(ALIAS_SCEN, tag, std="c++14", opt=kw["opt"], san="none", compiler=kw["compiler"], flags=tuple(kw["flags"]),
                            defines=("C14_ALIAS_OPT=" + what,), libs=(driver,), expect_fail=(kw["compiler"] != "g++"))


def _alias_jobs(tier):
    return [(t, ["--part", "alias", "--nmax", str(ALIAS_NMAX[tier]), "--nloops", ALIAS_NLOOPS[tier], "--expect", str(ALIAS_EXPECT[0]), str(ALIAS_EXPECT[1])], True)
            for t in ALIAS_BUILDS if tier in ALIAS_BUILDS[t]["tiers"]]


def _lens(lmax):
    return ["--lmax", str(lmax)]


# BAND: every length 2^k-8 .. 2^k+16 (every tail residue on both sides of the power of two) with all dimensions of the LONG part
BAND_K = {"quick": (13, 18), "thorough": (15, 22)}   # below these the contiguous LONG range (0..4200 / 0..16500) contains the power of two
BAND_D = (-8, 16)
# HUGE: lengths 2^k + d at the limits of the signed / unsigned 32-bit integer types
HUGE_K = (31, 32)
HUGE_D = {"quick": {31: [13], 32: [0, 13]}, "thorough": {31: list(range(-8, 17)), 32: list(range(-8, 17))}}
HUGE_A = {"quick": [1], "thorough": list(range(8))}


def _band_jobs(tier, tag="c14-O1-asan", primary=True):
    jobs = []
    k0, k1 = BAND_K[tier]
    for k in range(k0, k1 + 1):
        n = 1 if k < 19 else 2 if k < 21 else 2 ** (k - 19)
        for sh in range(n):
            jobs.append((tag, ["--part", "long", "--band", "1", "--lmin", str(2 ** k + BAND_D[0]), "--lmax", str(2 ** k + BAND_D[1]),
                               "--lmain", "39", "--shard", str(sh), str(n)], primary))
    return jobs


def _huge_jobs(tier):
    lens = ["%d:%d" % (k, d) for k in HUGE_K for d in HUGE_D[tier][k]]
    # the lengths are dealt out in ascending order: with (number of lengths + 1) // 2 processes each one gets one length around 2^31 and
    # one around 2^32 (a process pays about 2 s for faulting in the page tables of its two mappings, whatever it evaluates)
    n = (len(lens) + 1) // 2
    common = ["--part", "huge", "--hlens", ",".join(lens), "--aoffs", ",".join(map(str, HUGE_A[tier])), "--two-seeds", "0" if tier == "quick" else "1"]
    return [("c14-O2-nosan", common + ["--shard", str(k), str(n)], True) for k in range(n)]


def plan(tier):
    """list of (build tag, argv, primary): 'primary' jobs define evaluations / distinct_nontrivial, the others re-run a sub-space on
    another build (other optimisation level / compiler) and are counted separately."""
    jobs = _alias_jobs(tier)   # first: on a cold cache each of them starts with a compilation
    if tier == "quick":
        jobs.append(("c14-O1-asan", ["--part", "hist", "--depth", str(HIST_DEPTH[tier])], True))
        n = 4
        for k in range(n):
            jobs.append(("c14-O1-asan", ["--part", "main", "--lmax", "39", "--shard", str(k), str(n)], True))
        n = 8
        for k in range(n):
            jobs.append(("c14-O1-asan", ["--part", "full", "--len", "3", "--two-seeds", "1", "--placements", "R", "--fills", "255",
                                         "--shard", str(k), str(n)], True))
        jobs.append(("c14-O1-asan", ["--part", "guard", "--lmax", "39"], True))
        jobs.append(("c14-O1-asan", ["--part", "fs"], True))
        jobs.append(("c14-O1-asan", ["--part", "fslong"], True))
        jobs.append(("c14-O1-asan", ["--part", "fswide"], True))
        for k in range(2):
            jobs.append(("c14-O1-asan", ["--part", "long", "--lmax", "4200", "--lmain", "39", "--shard", str(k), "2"], True))
        jobs += _huge_jobs(tier)
        jobs += _band_jobs(tier)
        return jobs
    # thorough (most informative parts first: a deadline then cuts the big exhaustive-content sweeps, not the structured part)
    jobs.append(("c14-O1-asan", ["--part", "guard", "--lmax", "71", "--wide-seeds", "1"], True))
    jobs.append(("c14-O1-asan", ["--part", "fs"], True))
    jobs.append(("c14-O1-asan", ["--part", "fslong"], True))
    jobs.append(("c14-O1-asan", ["--part", "fswide"], True))
    n = 9
    for k in range(n):   # sharded by the first operation of the history
        jobs.append(("c14-O1-asan", ["--part", "hist", "--depth", str(HIST_DEPTH[tier]), "--shard", str(k), str(n)], True))
    n = 14
    for k in range(n):
        jobs.append(("c14-O1-asan", ["--part", "long", "--lmax", "16500", "--lmain", "71", "--wide-seeds", "1", "--shard", str(k), str(n)], True))
    jobs += _band_jobs(tier)
    jobs += _huge_jobs(tier)
    n = 28
    for k in range(n):
        jobs.append(("c14-O1-asan", ["--part", "main", "--lmax", "71", "--pairs", "1", "--wide-seeds", "1", "--shard", str(k), str(n)], True))
    n = 14
    for k in range(n):   # all 256^3 three-byte keys with every dimension
        jobs.append(("c14-O1-asan", ["--part", "full", "--len", "3", "--pairs", "1", "--shard", str(k), str(n)], True))
    for tag in ("c14-O2-asan", "c14-O0-asan", "c14-clang-O1-asan"):
        for k in range(2):
            jobs.append((tag, ["--part", "main", "--lmax", "39", "--shard", str(k), "2"], False))
        jobs.append((tag, ["--part", "guard", "--lmax", "39"], False))
        jobs.append((tag, ["--part", "fs"], False))
        jobs.append((tag, ["--part", "fslong"], False))
        jobs.append((tag, ["--part", "fswide"], False))
        jobs.append((tag, ["--part", "hist", "--depth", "4"], False))
        jobs.append((tag, ["--part", "long", "--lmax", "4200"], False))
    for k in range(n):   # all 256^4 four-byte keys, value only (no sanitizer), two seeds, offsets 0 and 1
        jobs.append(("c14-O2-nosan", ["--part", "full", "--len", "4", "--pairs", "1", "--two-seeds", "1", "--placements", "R", "--fills", "255",
                                      "--aligns", "0,1", "--shard", str(k), str(n)], True))
    return jobs


def _sort_key(v):
    a = [str(x) for x in (v.get("args") or [])]
    # the shortest / first case of every signature first (main part before guard pages before other builds), so that the
    # counterexample that gets reported does not depend on scheduling
    head = a[0] if a else ""
    rank = {"--one": 0, "--long-one": 0, "--huge-one": 0, "--guard-one": 1, "--fs-one": 2, "--fs-long-one": 2, "--fsw-one": 2, "--hist-one": 2}.get(head, 3)
    if head == "--alias-one":
        # fewest elements first, then the simplest shape, then value set / seed; the builds in the order g++ -O0 .. -O3, clang++ -O0 .. -O3
        shapes = ["local1", "local", "loop", "static", "heap", "viacall", "param", "loopparam"]
        size = 100 * int(a[4]) + (shapes.index(a[3]) if a[3] in shapes else 99)
        a = [a[7], a[8], a[5], a[6]] + a[:3]
    elif head == "--alias-fs-one":
        size = int(a[2])
    elif head == "--hist-one":
        size = len(a[2].split(","))
    elif head == "--long-one":
        size = 2 * int(a[5])
    elif head == "--huge-one":
        size = 2 * int(a[4])
        a = a[:3] + ["" if a[3] == "G" else "A%02d" % int(a[3][1:])] + a[4:]   # the guard-page placement first, then offsets in numeric order
    elif head == "--fs-long-one":
        size = 2 * int(a[1])
    elif head == "--fsw-one":
        size = 2 * int(a[2])
    elif rank in (0, 2):
        size = len(a[-1].strip("-"))
    else:
        size = int(a[2]) if rank == 1 else 0
    return (v["sig"], 0 if v.get("harness") == "c14-O1-asan" else 1, rank, size, a, _build_order(v.get("harness")))


def _build_order(tag):
    order = sorted(ALIAS_BUILDS, key=lambda t: (ALIAS_BUILDS[t]["compiler"] != "g++", ALIAS_BUILDS[t]["opt"], ALIAS_BUILDS[t]["flags"]))
    return order.index(tag) if tag in order else -1


def run(ctx):
    jobs = plan(ctx.tier)
    tags = sorted(set(j[0] for j in jobs if j[0] not in ALIAS_BUILDS))
    bins = {}
    alias_driver = build_alias_driver()   # once, before the parallel section (0.5 s); the 8 scenario builds are done by their jobs
    have = dict(zip(tags, vlib.parallel([(lambda t=t: build(t, expect_fail=(BUILDS[t]["compiler"] != "g++"))) for t in tags])))
    for t in tags:
        if have[t] is None:
            ctx.note("build %s is not available on this machine (compiler failed); its jobs were dropped" % t)
        else:
            bins[t] = have[t]
    jobs = [j for j in jobs if j[0] in bins or j[0] in ALIAS_BUILDS]
    workers = max(2, min(vlib.NCPU - 2, 14))

    def one(job):
        tag, args, primary = job
        sub = vlib.Ctx(ctx.pid, ctx.tier, ctx.level, ctx.seed)
        left = ctx.time_left() - 45
        if left < 10:
            sub.cap("%s %s: not started, the tier's deadline was reached" % (tag, " ".join(args)))
            return sub
        if tag in ALIAS_BUILDS:
            binary = build_alias(tag, alias_driver)
            if binary is None:
                sub.note("ALIAS build %s is not available on this machine (compiler failed); it was dropped" % tag)
                sub.stat("alias_builds_not_available", 1)
                return sub
            sub.run_harness(binary, args, tag=tag)
            return sub
        sub.run_harness(bins[tag], args + ["--deadline", str(int(left))], env=ASAN_ENV, tag=tag)
        return sub

    def fs_explorer():
        sub = vlib.Ctx(ctx.pid, ctx.tier, ctx.level, ctx.seed)
        # quick tier: keep the whole check inside ~6 minutes even when the four explorer builds start from a cold cache on a busy machine
        sub.deadline = min(ctx.deadline, ctx.t0 + 330) if ctx.tier == "quick" else ctx.deadline
        if os.environ.get("C14_SKIP_EXPLORER"):   # development aid only; the run is then marked as not exhaustive
            sub.cap("fixed-string explorer part skipped because C14_SKIP_EXPLORER is set")
            return sub
        fscommon.run(sub, "C14")
        return sub

    res = vlib.parallel([fs_explorer] + [(lambda j=j: one(j)) for j in jobs], workers=workers)
    fs, subs = res[0], res[1:]

    own_samples = {}
    for (tag, args, primary), sub in zip(jobs, subs):
        for k, v in sub.stats.items():
            if primary or k == "harness_runs":
                ctx.stat(k, v)
            elif k == "evaluations":
                ctx.stat("evaluations_on_other_builds", v)
            elif k != "distinct_nontrivial":   # the same cases again on another build are not distinct cases
                ctx.stat("other_builds_" + k, v)
        if primary:
            for k, v in sub.maxes.items():
                ctx.smax(k, v)
        for n in sub.notes:
            ctx.note(n)
        for c in sub.caps:
            if c not in ctx.caps:
                ctx.cap(c)
        if primary:
            own_samples.setdefault("band" if "--band" in args else args[1], []).extend(sub.samples)
        ctx.viols += sub.viols
    # a few samples of every part
    for part in ("main", "alias", "hist", "long", "band", "huge", "full", "guard", "fs", "fslong", "fswide"):
        for s in own_samples.get(part, [])[:2 if part == "main" else 1]:
            ctx.sample(s)

    # fixed-string explorer (C01 harness): every new raw state answers the hash query once
    for k in ("states", "transitions", "query_evaluations", "harness_runs"):
        if k in fs.stats:
            ctx.stat("fixed_string_explorer_" + k, fs.stats[k])
    ctx.stat("fixed_string_explorer_hash_queries", fs.stats.get("states", 0))
    ctx.stat("evaluations", fs.stats.get("states", 0))
    for k, v in fs.maxes.items():
        ctx.smax("fixed_string_explorer_" + k, v)
    for n in fs.notes:
        ctx.note("fixed-string explorer: " + (n if len(n) <= 400 else n[:400] + " ..."))
    for c in fs.caps:
        ctx.cap("fixed-string explorer: " + c)
    for s in fs.samples[:2]:
        ctx.sample({"fixed_string_explorer_state": s})
    ctx.viols += fs.viols
    ctx.viols.sort(key=_sort_key)

    quick = ctx.tier == "quick"
    ctx.rule = (
        "hash functions hash_bytes, murmur2_x86, murmur2_x64 of the real headers. MAIN: length 0..%d x content family {all bytes = v; one position = v over a 00 and an FF background%s; "
        "01 02 03..; FF FE FD..; ALL 256 one-byte and ALL 65536 two-byte keys} with v in {00,01,7F,80,FF} x seed {0,1,7FFFFFFF,80000000,FFFFFFFF,c70f6907,2^63,2^64-1%s} (truncated to 32 bit and "
        "de-duplicated for murmur2_x86) x placement {key ends at the last byte of an exact-size malloc block; 8 readable bytes behind the key} x start alignment 0..7 (key at offset a of a 16-aligned block) "
        "x fill of all non-key bytes {00,FF}. LONG: EVERY length 0..%d x EVERY offset 0..15 of a 16-aligned exact-size malloc block x seeds {0,c70f6907,all-ones%s} x 4 key patterns "
        "(32-bit word counter (w+1)*2654435761 so that all 4- and 8-byte blocks differ; FF FE FD..; 00..00 80; 00 FF..FF). "
        "BAND: the LONG grid (16 offsets, 4 patterns, seeds {0,c70f6907,all-ones}) for EVERY length 2^k-8 .. 2^k+16, k = %d..%d (every tail residue on both sides of each power of two above the contiguous LONG range). "
        "HUGE (lengths at the limits of the signed / unsigned 32-bit integer types; g++ -O2 build without sanitizer): length 2^k+d, k in {31,32}, d in {%s} x functions x seeds {c70f6907%s} x placements {key ends at an inaccessible page "
        "(start address %% 8 = -length %% 8)%s} in an anonymous MAP_NORESERVE mapping between two inaccessible pages, executed in a forked child (a fault is attributed to the call); key = sparse content "
        "(byte i = top byte of (i+1)*0x9E3779B97F4A7C15 in the 96-byte windows around 0, 2^12, 2^13 .. 2^33, L/2+17 and L, 00 elsewhere; FF in front of / behind the key); hash_bytes and murmur2_x64 (and murmur2_x86 for lengths < 2^31) "
        "are compared with the reference computed over a private second mapping, murmur2_x86 for lengths >= 2^31 (no reference value: MurmurHash2 takes an int length) must return ONE value in all placements and must not fault. "
        "FULL: %s. GUARD: every length x seed x {01 02 03.., FF FF..} with the key ending / starting exactly at an inaccessible page, plus the EMPTY key described by (nullptr, 0) and by (pointer into an inaccessible page, 0) for every seed, in a forked child. "
        "Every call is compared with refs/C14_murmur_ref.hpp (byte-wise little-endian MurmurHash2 / MurmurHash64A; checked against SMHasher's 27864C1E / 1F0D3804 at start) and followed by a "
        "look at AddressSanitizer's error flag. FS: all strings of length <= 3 over {00,'a',80,FF} built 4 ways in 7 fixed-string types (capacity 3,16,55,255,256; packed, size-field, strlen layouts) must "
        "have one std::hash value; FSLONG: equal strings of EVERY length 0..400 in xbasic_fixed_string<char,400,buffer> objects constructed at offsets 0..7 of a byte array "
        "(data() at every address mod 8) and in xbasic_fixed_string<char,400> must have one std::hash value; FSWIDE: equal strings of EVERY length 0..64 of char16_t in capacities {8,15,16,40,255,300} x {packed, size-field} + 65536, "
        "of char32_t and wchar_t in the same capacities (size-field layout; the packed one is ill-formed for 4-byte characters on this tree) and of char in the same capacities x {packed, size-field, strlen}, "
        "each built 2 ways, must have one std::hash value per string. Plus the C01 explorer: std::hash of every reachable raw state (stale bytes included) of 4 layouts == hash of a freshly built equal string. "
        "evaluations = calls of a hash function (+ hash queries of the explorer). distinct_nontrivial = number of DISTINCT (function, seed, key bytes) triples with length >= 1 "
        "(contents are de-duplicated per length; the FULL part skips the contents of the MAIN part; alignments, fills and placements of one triple are NOT counted as distinct; "
        "re-runs on other builds and the explorer states are not counted), plus the non-empty strings of the FS part"
        % (39 if quick else 71,
           "" if quick else "; two positions = (v,w) over both backgrounds",
           "" if quick else ", 2^k and ~2^k for k = 0..63",
           4200 if quick else 16500,
           "" if quick else " and the other 5 base seeds",
           BAND_K[ctx.tier][0], BAND_K[ctx.tier][1],
           "13 for 2^31; 0, 13 for 2^32" if quick else "-8 .. 16",
           "" if quick else ", all-ones",
           "; key at offset 1 of the first page behind an inaccessible page" if quick else "; key at offset 0..7 of the first page behind an inaccessible page",
           "all 2^24 three-byte keys x seeds {c70f6907, all-ones} x alignment 0..7, end-of-block placement, fill FF" if quick else
           "all 2^24 three-byte keys with every MAIN dimension (8 seeds); all 2^32 four-byte keys x seeds {c70f6907, all-ones} x offsets {0,1} on an -O2 build without sanitizer (values only); "
           "MAIN (length <= 39), LONG (length <= 4200), GUARD, FS and FSLONG repeated on g++ -O2, g++ -O0 and clang++ -O1 AddressSanitizer builds"))
    ctx.assumptions += [
        "x86-64 little-endian Linux, sizeof(size_t) == 8: hash_bytes is the MurmurHash64A branch; the 32-bit-platform branches of xhash.hpp are not reachable here",
        "reference = refs/C14_murmur_ref.hpp, trusted after reproducing the published SMHasher verification values of MurmurHash2 and MurmurHash64A",
        "lengths above %d are enumerated only in the bands 2^k-8 .. 2^k+16 (k = %d..%d) and, with one sparse content and %d placements, at 2^31+d and 2^32+d (d in {%s}); no other length above 2^%d+16; "
        "lengths above %d only with the 4 LONG patterns at alignments 0..15 (end-of-block placement); contents outside the stated families are not enumerated for lengths > %d"
        % (4200 if quick else 16500, BAND_K[ctx.tier][0], BAND_K[ctx.tier][1], 1 + len(HUGE_A[ctx.tier]), "13 / 0, 13" if quick else "-8 .. 16", BAND_K[ctx.tier][1],
           39 if quick else 71, 3 if quick else 4),
        "HUGE part: needs a 64-bit Linux that grants two anonymous MAP_NORESERVE mappings of 4 GiB + 2 pages (untouched pages are the shared zero page; about 200 KiB become resident, 16 MiB of page tables); if the mapping is "
        "refused the part ends with a cap (exhaustive: false), not with an error. murmur2_x86 narrows the length to 32 bit (as reference MurmurHash2's int length does); for lengths >= 2^31 only purity and the absence of faults are judged. "
        "Over-reads there are judged by the inaccessible pages only (no AddressSanitizer)",
        "over-reads are judged by AddressSanitizer (g++ instrumentation, recover mode, byte-exact right red zone of malloc blocks; to the left only at offset 0) and by guard pages; "
        "a read of fewer than 8 bytes to the left of a key that starts at offset 1..7 is only visible if it changes the value",
        "the unaligned / type-punned uint32 load of murmur2_x86 (xhash.hpp:60) is not judged (UBSan alignment is off by design)",
        "fixed-string part: std::hash is only required to be a function of size() and the characters (equal strings hash equally); it is not required to equal hash_bytes with a particular seed, "
        "and strings whose value is not the intended one (a C01 matter) are not judged",
    ]


def replay(ctx, rec):
    tag = rec.get("harness")
    if tag in fscommon.INSTS:
        fscommon.replay(ctx, rec, "C14")
        return
    if tag in ALIAS_BUILDS:
        binary = build_alias(tag)
        if binary is None:
            raise vlib.HarnessError("ALIAS build %s cannot be built on this machine" % tag)
        ctx.run_harness(binary, rec["args"], tag=tag)
        return
    if tag not in BUILDS:
        raise vlib.HarnessError("unknown harness tag in replay record: %r" % tag)
    ctx.run_harness(build(tag), rec["args"], env=ASAN_ENV, tag=tag)
