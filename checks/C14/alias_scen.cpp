// C14, ALIAS part, scenario translation unit: the hash functions of the real headers are called on keys whose bytes were LAST
// WRITTEN THROUGH LVALUES OF TYPE T (not through a character type), with the stores and the hash call visible to the optimiser
// together (same translation unit, the hash call inlinable, no volatile / asm barrier between store and call).  The key is a
// const void*: hashing the object representation of an array of uint32_t / uint16_t / float / double / long long / a record is the
// normal use, and "pure function of the bytes" has to hold for it at every optimisation level.  A hash implementation that reads
// the key through a typed lvalue (*(uint32_t*)data, *(const size_t*)data) gives the compiler's type-based alias analysis the
// right to order those loads before the stores of another type: the hash of stale or unwritten bytes is returned.
//
// This file is compiled once per {g++, clang++} x {-O0, -O1, -O2, -O3} (no sanitizer) and linked with alias_main.cpp (always
// g++ -O0, no xtl header), which generates the values, calls the scenarios through the table below and compares every returned
// hash with refs/C14_murmur_ref.hpp evaluated over a byte copy of the values.
#include <xtl/xhash.hpp>
#include <xtl/xbasic_fixed_string.hpp>

#include "alias_iface.hpp"

#include <cstdlib>
#include <functional>
#include <vector>

namespace xtl { namespace detail {
    // size-field storage for any capacity / character type (same device as harness.cpp and the C01 harness)
    template <>
    struct select_storage<64>
    {
        template <class T, std::size_t N>
        using type = fixed_string_storage_impl<T[N + 1]>;
    };
} }

namespace
{
    // ---- the three functions under test; the calls are ordinary, inlinable calls
    template <int FN> struct H;
    template <> struct H<0> { static inline uint64_t go(const void* p, std::size_t n, uint64_t s) { return uint64_t(xtl::hash_bytes(p, n, std::size_t(s))); } };
    template <> struct H<1> { static inline uint64_t go(const void* p, std::size_t n, uint64_t s) { return uint64_t(xtl::murmur2_x86(p, n, uint32_t(s))); } };
    template <> struct H<2> { static inline uint64_t go(const void* p, std::size_t n, uint64_t s) { return uint64_t(xtl::murmur2_x64(p, n, s)); } };
    // the same call behind a function of this translation unit that is not inlined (the compiler's interprocedural summaries still see it)
    template <int FN> __attribute__((noinline)) uint64_t hv(const void* p, std::size_t n, uint64_t s) { return H<FN>::go(p, n, s); }

    template <class T> struct elem
    {
        static const int key_bytes = int(sizeof(T));
        static const int kind = C14_K_INT;
    };
    template <> struct elem<float> { static const int key_bytes = 4; static const int kind = C14_K_FLOAT; };
    template <> struct elem<double> { static const int key_bytes = 8; static const int kind = C14_K_DOUBLE; };
    // x87 extended precision: 10 value bytes + 6 padding bytes; only the value bytes of ONE element are a well-defined key
    template <> struct elem<long double> { static const int key_bytes = 10; static const int kind = C14_K_LDOUBLE; };
    template <> struct elem<c14_mixed> { static const int key_bytes = 16; static const int kind = C14_K_MIXED; };
    static_assert(sizeof(long double) == 16, "x86-64 long double");

    template <class T> inline void put(T& d, const T& s) { d = s; }
    inline void put(c14_mixed& d, const c14_mixed& s) { d.a = s.a; d.b = s.b; d.c = s.c; d.d = s.d; d.e = s.e; }   // member by member

    template <class T> inline std::size_t klen(int n) { return elem<T>::key_bytes == int(sizeof(T)) ? std::size_t(n) * sizeof(T) : std::size_t(elem<T>::key_bytes); }

    // the program (alias_iface.hpp); always inlined into the shape function so that the array, the stores and the hash calls are
    // in ONE function body (this is scaffolding of the check, the calls into the library are not forced either way)
    template <class T, int FN, bool VIA>
    inline __attribute__((always_inline)) void steps(T* a, const T* v, int n, uint64_t seed, uint64_t* out, int nsteps)
    {
        const std::size_t len = klen<T>(n);
        for (int i = 0; i < n; ++i) put(a[i], v[i]);
        out[0] = VIA ? hv<FN>(a, len, seed) : H<FN>::go(a, len, seed);
        if (nsteps == 1) return;
        for (int i = 0; i < n; ++i) put(a[i], v[n + i]);
        out[1] = VIA ? hv<FN>(a, len, seed) : H<FN>::go(a, len, seed);
        put(a[n / 2], v[2 * n]);
        out[2] = VIA ? hv<FN>(a, len, seed) : H<FN>::go(a, len, seed);
        out[3] = VIA ? hv<FN>(a, len, seed) : H<FN>::go(a, len, seed);
    }

    // ---- shapes
    template <class T, int FN, int N> void sh_local1(void*, const void* vals, int, int, uint64_t seed, uint64_t* out)
    {
        T a[N];
        steps<T, FN, false>(a, static_cast<const T*>(vals), N, seed, out, 1);
    }
    template <class T, int FN, int N> void sh_local(void*, const void* vals, int, int, uint64_t seed, uint64_t* out)
    {
        T a[N];
        steps<T, FN, false>(a, static_cast<const T*>(vals), N, seed, out, C14_NSTEPS);
    }
    template <class T, int FN, int N> void sh_static(void*, const void* vals, int, int, uint64_t seed, uint64_t* out)
    {
        static T a[N];
        steps<T, FN, false>(a, static_cast<const T*>(vals), N, seed, out, C14_NSTEPS);
    }
    template <class T, int FN, int N> void sh_heap(void*, const void* vals, int, int, uint64_t seed, uint64_t* out)
    {
        T* a = static_cast<T*>(std::malloc(N * sizeof(T)));
        if (!a) std::abort();
        steps<T, FN, false>(a, static_cast<const T*>(vals), N, seed, out, C14_NSTEPS);
        std::free(a);
    }
    template <class T, int FN, int N> void sh_viacall(void*, const void* vals, int, int, uint64_t seed, uint64_t* out)
    {
        T a[N];
        steps<T, FN, true>(a, static_cast<const T*>(vals), N, seed, out, C14_NSTEPS);
    }
    // the caller's array (malloc'ed by the driver: no declared type), element count known at run time only
    template <class T, int FN> void sh_param(void* buf, const void* vals, int n, int, uint64_t seed, uint64_t* out)
    {
        steps<T, FN, false>(static_cast<T*>(buf), static_cast<const T*>(vals), n, seed, out, C14_NSTEPS);
    }
    // a loop around (store one element; hash): what a container that re-hashes its storage after every update does
    template <class T, int FN>
    inline __attribute__((always_inline)) void loop_steps(T* a, const T* v, int n, int nsteps, uint64_t seed, uint64_t* out)
    {
        const std::size_t len = klen<T>(n);
        for (int i = 0; i < n; ++i) put(a[i], v[nsteps + i]);
        for (int s = 0; s < nsteps; ++s)
        {
            put(a[s % n], v[s]);
            out[s] = H<FN>::go(a, len, seed);
        }
    }
    template <class T, int FN, int N> void sh_loop(void*, const void* vals, int, int, uint64_t seed, uint64_t* out)
    {
        T a[N];
        loop_steps<T, FN>(a, static_cast<const T*>(vals), N, C14_NSTEPS, seed, out);
    }
    template <class T, int FN> void sh_loopparam(void* buf, const void* vals, int n, int nsteps, uint64_t seed, uint64_t* out)
    {
        loop_steps<T, FN>(static_cast<T*>(buf), static_cast<const T*>(vals), n, nsteps, seed, out);
    }

    std::vector<c14_scen>& table() { static std::vector<c14_scen> t; return t; }

    template <class T, int FN, int N> void reg_n(const char* name)
    {
        const int es = int(sizeof(T)), kb = elem<T>::key_bytes, kd = elem<T>::kind;
        table().push_back(c14_scen{name, es, kb, kd, FN, C14_SH_LOCAL1, N, &sh_local1<T, FN, N>});
        table().push_back(c14_scen{name, es, kb, kd, FN, C14_SH_LOCAL, N, &sh_local<T, FN, N>});
        table().push_back(c14_scen{name, es, kb, kd, FN, C14_SH_STATIC, N, &sh_static<T, FN, N>});
        table().push_back(c14_scen{name, es, kb, kd, FN, C14_SH_HEAP, N, &sh_heap<T, FN, N>});
        table().push_back(c14_scen{name, es, kb, kd, FN, C14_SH_VIACALL, N, &sh_viacall<T, FN, N>});
        table().push_back(c14_scen{name, es, kb, kd, FN, C14_SH_LOOP, N, &sh_loop<T, FN, N>});
    }
    template <class T, int FN> void reg_fn(const char* name)
    {
        reg_n<T, FN, 1>(name);
        if (elem<T>::key_bytes == int(sizeof(T)))
        {
            reg_n<T, FN, 2>(name);
            reg_n<T, FN, 3>(name);
            reg_n<T, FN, 5>(name);
            reg_n<T, FN, 6>(name);
        }
        table().push_back(c14_scen{name, int(sizeof(T)), elem<T>::key_bytes, elem<T>::kind, FN, C14_SH_PARAM, 0, &sh_param<T, FN>});
        table().push_back(c14_scen{name, int(sizeof(T)), elem<T>::key_bytes, elem<T>::kind, FN, C14_SH_LOOPPARAM, 0, &sh_loopparam<T, FN>});
    }
    template <class T> void reg(const char* name)
    {
        reg_fn<T, 0>(name);
        reg_fn<T, 1>(name);
        reg_fn<T, 2>(name);
    }

    // ---- fixed strings
    template <class S, int N>
    __attribute__((noinline)) uint64_t fs_canon(const typename S::value_type* v)
    {
        S s(v, N);
        const S* p = &s;
        __asm__ __volatile__("" : "+r"(p) : : "memory");   // every store is done, nothing about *p is known behind this point
        uint64_t h = uint64_t(std::hash<S>()(*p));
        __asm__ __volatile__("" : : "r"(p) : "memory");
        return h;
    }
    template <class S, int N> void fs_scen(const void* vals, uint64_t* out, uint64_t* canon)
    {
        typedef typename S::value_type CT;
        const CT* v = static_cast<const CT*>(vals);
        S s(v, N);
        out[0] = uint64_t(std::hash<S>()(s));
        for (int i = 0; i < N; ++i) s[std::size_t(i)] = v[N + i];
        out[1] = uint64_t(std::hash<S>()(s));
        s.assign(v + 2 * N, N);
        std::hash<S> h;
        out[2] = uint64_t(h(s));
        out[3] = uint64_t(h(s));
        canon[0] = fs_canon<S, N>(v);
        canon[1] = fs_canon<S, N>(v + N);
        canon[2] = canon[3] = fs_canon<S, N>(v + 2 * N);
    }
    std::vector<c14_fs_scen>& fs_table() { static std::vector<c14_fs_scen> t; return t; }
    template <class S, int N> void fs_reg_n(const char* name, const char* ct)
    {
        fs_table().push_back(c14_fs_scen{name, ct, int(sizeof(typename S::value_type)), N, &fs_scen<S, N>});
    }
    template <class S> void fs_reg(const char* name, const char* ct)
    {
        fs_reg_n<S, 1>(name, ct);
        fs_reg_n<S, 2>(name, ct);
        fs_reg_n<S, 3>(name, ct);
        fs_reg_n<S, 4>(name, ct);
        fs_reg_n<S, 5>(name, ct);
        fs_reg_n<S, 8>(name, ct);
        fs_reg_n<S, 12>(name, ct);
        fs_reg_n<S, 15>(name, ct);
    }

    void build_tables()
    {
        if (!table().empty()) return;
        reg<char>("char");
        reg<signed char>("signed char");
        reg<unsigned char>("unsigned char");
        reg<short>("short");
        reg<unsigned short>("unsigned short (uint16_t)");
        reg<char16_t>("char16_t");
        reg<int>("int");
        reg<unsigned>("unsigned (uint32_t)");
        reg<char32_t>("char32_t");
        reg<wchar_t>("wchar_t");
        reg<long>("long");
        reg<unsigned long>("unsigned long (size_t, uint64_t)");
        reg<long long>("long long");
        reg<unsigned long long>("unsigned long long");
        reg<float>("float");
        reg<double>("double");
        reg<long double>("long double");
        reg<void*>("void*");
        reg<c14_mixed>("struct {uint32_t; uint16_t; uint8_t; int8_t; double} (stored member by member)");

        fs_reg<xtl::xbasic_fixed_string<char, 15> >("xbasic_fixed_string<char,15> (packed)", "char");
        fs_reg<xtl::xbasic_fixed_string<char, 300> >("xbasic_fixed_string<char,300> (size field)", "char");
        fs_reg<xtl::xbasic_fixed_string<char, 15, xtl::buffer> >("xbasic_fixed_string<char,15,buffer> (strlen)", "char");
        fs_reg<xtl::xbasic_fixed_string<char16_t, 15> >("xbasic_fixed_string<char16_t,15> (packed)", "char16_t");
        fs_reg<xtl::xbasic_fixed_string<char16_t, 300> >("xbasic_fixed_string<char16_t,300> (packed)", "char16_t");
        fs_reg<xtl::xbasic_fixed_string<char16_t, 15, 64> >("xbasic_fixed_string<char16_t,15> (size field)", "char16_t");
        fs_reg<xtl::xbasic_fixed_string<char32_t, 15, 64> >("xbasic_fixed_string<char32_t,15> (size field)", "char32_t");
        fs_reg<xtl::xbasic_fixed_string<wchar_t, 15, 64> >("xbasic_fixed_string<wchar_t,15> (size field)", "wchar_t");
    }
}

#define C14_STR2(x) #x
#define C14_STR(x) C14_STR2(x)

extern "C" const c14_scen* c14_alias_table(std::size_t* count)
{
    build_tables();
    *count = table().size();
    return table().data();
}
extern "C" const c14_fs_scen* c14_alias_fs_table(std::size_t* count)
{
    build_tables();
    *count = fs_table().size();
    return fs_table().data();
}
extern "C" const char* c14_alias_build()
{
    return
#if defined(__clang__)
        "clang++ " __clang_version__
#else
        "g++ " __VERSION__
#endif
#if defined(__OPTIMIZE__)
        ", __OPTIMIZE__"
#else
        ", not optimising"
#endif
#ifdef C14_ALIAS_OPT
        ", built with " C14_STR(C14_ALIAS_OPT)
#endif
        ;
}
