// C14 (hash-function part): hash_bytes / murmur2_x86 / murmur2_x64 are pure functions of (bytes, length, seed), read only
// [buffer, buffer+length) and equal reference MurmurHash2 / MurmurHash64A.  Engine E3: exhaustive enumeration, see NOTES.md.
//
// parts (selected with --part):
//   main   length 0..Lmax x content families x functions x seeds x placement {end-of-block, mid-block} x alignment 0..7 x fill {00,FF}
//   full   ALL 256^L contents of one length L (--len 3 | 4) with the dimensions given on the command line
//   guard  keys that end / start exactly at an inaccessible page, executed in a forked child (over-read == SIGSEGV)
//   fs     std::hash<xbasic_fixed_string>: equal strings hash equally across storage layouts, capacities and histories
//   long   every length lmin..lmax x every offset 0..15 x 4 patterns (with --band 1: a band of lengths around a power of two)
//   huge   lengths 2^k + d around the limits of the 32-bit integer types (k = 31, 32) in a sparse anonymous mapping, forked child
//   hist   std::hash<xbasic_fixed_string>: all histories up to a depth over two HASHER objects and two string objects (in-place edits,
//          equal-length assignment, re-construction at the same address, hasher copies)
//   (the ALIAS part - keys written through typed lvalues x compiler x optimisation level - is alias_scen.cpp + alias_main.cpp)
//   --one / --guard-one / --fs-one / --long-one / --huge-one : replay of a single case
#include <xtl/xhash.hpp>
#include <xtl/xbasic_fixed_string.hpp>

#include "report.hpp"
#include "C14_murmur_ref.hpp"

namespace xtl { namespace detail {
    // size-field storage for any capacity: the library's own class, selected through an unused flag value (same device as the C01 harness)
    template <>
    struct select_storage<64>
    {
        template <class T, std::size_t N>
        using type = fixed_string_storage_impl<T[N + 1]>;
    };
} }

#include <algorithm>
#include <cerrno>
#include <csignal>
#include <cstdint>
#include <cstdio>
#include <cstdlib>
#include <cstring>
#include <string>
#include <utility>
#include <vector>

#include <sys/mman.h>
#include <sys/wait.h>
#include <time.h>
#include <unistd.h>

#ifdef VERIF_ASAN
#include <sanitizer/asan_interface.h>
#define C14_POISON(p, n) __asan_poison_memory_region((p), (n))
#define C14_UNPOISON(p, n) __asan_unpoison_memory_region((p), (n))
#else
#define C14_POISON(p, n) ((void)0)
#define C14_UNPOISON(p, n) ((void)0)
#endif

static_assert(sizeof(std::size_t) == 8, "this harness judges the 64-bit hash_bytes branch (MurmurHash64A)");

// ------------------------------------------------------------------------------------------------ functions under test
enum { HB = 0, X86 = 1, X64 = 2, NFN = 3 };
static const char* const FN_NAME[NFN] = {"hash_bytes", "murmur2_x86", "murmur2_x64"};
static const char* const REF_NAME[NFN] = {"MurmurHash64A", "MurmurHash2", "MurmurHash64A"};

__attribute__((noinline)) static uint64_t call(int fn, const void* p, std::size_t n, uint64_t seed)
{
    switch (fn)
    {
    case HB: return uint64_t(xtl::hash_bytes(p, n, std::size_t(seed)));
    case X86: return uint64_t(xtl::murmur2_x86(p, n, uint32_t(seed)));
    default: return uint64_t(xtl::murmur2_x64(p, n, seed));
    }
}

static uint64_t ref(int fn, const uint8_t* p, std::size_t n, uint64_t seed)
{
    if (fn == X86) return c14ref::murmur2_32(p, n, uint32_t(seed));
    return c14ref::murmur2_64a(p, n, seed);
}

static int fn_by_name(const std::string& s)
{
    for (int i = 0; i < NFN; ++i) if (s == FN_NAME[i]) return i;
    std::fprintf(stderr, "unknown function %s\n", s.c_str());
    std::exit(2);
}

// ------------------------------------------------------------------------------------------------ small helpers
static std::string hexs(const uint8_t* p, std::size_t n)
{
    if (n == 0) return "-";
    static const char* d = "0123456789abcdef";
    std::string s;
    for (std::size_t i = 0; i < n; ++i) { s += d[p[i] >> 4]; s += d[p[i] & 15]; }
    return s;
}
static std::string hexs(const std::string& b) { return hexs(reinterpret_cast<const uint8_t*>(b.data()), b.size()); }
static std::string unhex(const std::string& h)
{
    std::string s;
    if (h == "-") return s;
    auto v = [](char c) { return c <= '9' ? c - '0' : (c | 32) - 'a' + 10; };
    for (std::size_t i = 0; i + 1 < h.size(); i += 2) s += char(v(h[i]) * 16 + v(h[i + 1]));
    return s;
}
static std::string spaced(const uint8_t* p, std::size_t n)
{
    std::string s = "[";
    char b[4];
    for (std::size_t i = 0; i < n; ++i) { std::snprintf(b, sizeof b, "%02x", p[i]); if (i) s += ' '; s += b; }
    return s + "]";
}
static std::string h64(uint64_t v) { char b[24]; std::snprintf(b, sizeof b, "0x%llx", (unsigned long long)v); return b; }
static std::string num(long long v) { return std::to_string(v); }

static double now_s()
{
    timespec ts;
    clock_gettime(CLOCK_MONOTONIC, &ts);
    return double(ts.tv_sec) + 1e-9 * double(ts.tv_nsec);
}
static double g_t0 = 0, g_deadline = 1e18;   // used only to stop early (reported as a cap), never by an oracle
static bool out_of_time() { return now_s() - g_t0 > g_deadline; }

// length class used in signatures: residue modulo the block size of the function (which tail path runs)
static int blk(int fn) { return fn == X86 ? 4 : 8; }
static int cls_index(int fn, std::size_t L) { return int(L % std::size_t(blk(fn))); }
static std::string cls_name(int fn, std::size_t L) { return "len%" + num(blk(fn)) + "=" + num((long long)(L % std::size_t(blk(fn)))); }

static std::vector<uint64_t> seeds_for(int fn, bool wide)
{
    std::vector<uint64_t> s = {0, 1, 0x7FFFFFFFull, 0x80000000ull, 0xFFFFFFFFull, 0xc70f6907ull, 1ull << 63, ~0ull};
    if (wide)
        for (int k = 0; k < 64; ++k) { s.push_back(1ull << k); s.push_back(~(1ull << k)); }
    std::vector<uint64_t> out;
    for (uint64_t x : s)
    {
        if (fn == X86) x &= 0xffffffffull;   // murmur2_x86 takes a uint32_t seed
        if (std::find(out.begin(), out.end(), x) == out.end()) out.push_back(x);
    }
    return out;
}

// ------------------------------------------------------------------------------------------------ exact-size heap blocks
struct Block
{
    unsigned char* base = nullptr;
    std::size_t total = 0;
};
static Block make_block(std::size_t total)
{
    Block b;
    b.total = total;
    // a zero-byte key at offset 0: no byte at all may be read -> a block that is poisoned completely
    b.base = static_cast<unsigned char*>(std::malloc(total ? total : 8));
    if (!b.base || (reinterpret_cast<uintptr_t>(b.base) & 7) != 0) { std::fprintf(stderr, "malloc gave an unusable block\n"); std::exit(2); }
    if (total == 0) C14_POISON(b.base, 8);
    return b;
}
static void free_block(Block& b)
{
    if (b.base && b.total == 0) C14_UNPOISON(b.base, 8);
    std::free(b.base);
    b.base = nullptr;
}

static const std::size_t MID_PAD = 8;   // readable bytes to the right of the key in the mid-block placement
static std::size_t block_total(char placement, int align, std::size_t L) { return std::size_t(align) + L + (placement == 'M' ? MID_PAD : 0); }
static void place(Block& b, int align, std::size_t L, int fill, const uint8_t* content)
{
    if (b.total) std::memset(b.base, fill, b.total);
    if (L) std::memcpy(b.base + align, content, L);
}
static std::string placement_text(char placement, int align, int fill)
{
    char f[8];
    std::snprintf(f, sizeof f, "%02X", fill);
    std::string s = "key at offset " + num(align) + " (address % 8 == " + num(align) + ") of ";
    s += placement == 'R' ? "a malloc block that ends exactly at the last key byte" : "a malloc block with 8 more bytes behind the key";
    s += std::string(", all other bytes of the block = 0x") + f;
    return s;
}

// ------------------------------------------------------------------------------------------------ judging one evaluation
static long long g_evals = 0, g_distinct = 0, g_skipped = 0, g_asan_reports = 0;

// LONG part: keys are one of a few named patterns of a given length; they are described, not written out
static int g_long_kind = -1;
static const char* const LONG_NAME[4] = {"word counter (32-bit word w = (w+1)*2654435761, little-endian: all 4- and 8-byte blocks distinct)",
                                         "FF FE FD .. (period 256)", "00 .. 00 80", "00 FF .. FF"};
static std::string long_content(int kind, std::size_t L)
{
    std::string s(L, '\0');
    for (std::size_t i = 0; i < L; ++i)
    {
        switch (kind)
        {
        case 0: s[i] = char((uint32_t((i / 4 + 1)) * 2654435761u) >> (8 * (i % 4))); break;
        case 1: s[i] = char(0xff - (i & 0xff)); break;
        case 2: s[i] = char(i + 1 == L ? 0x80 : 0x00); break;
        default: s[i] = char(i == 0 ? 0x00 : 0xff); break;
        }
    }
    return s;
}
static std::string key_text(const uint8_t* c, std::size_t L)
{
    if (g_long_kind < 0) return "key bytes " + spaced(c, L);
    return std::string("key = pattern '") + LONG_NAME[g_long_kind] + "' of length " + num((long long)L) + " (first bytes " + spaced(c, std::min<std::size_t>(L, 12)) + ")";
}

static std::vector<std::string> replay_args(int fn, uint64_t seed, int align, int fill, char placement, const uint8_t* c, std::size_t L)
{
    if (g_long_kind >= 0) return {"--long-one", FN_NAME[fn], h64(seed), num(align), num(g_long_kind), num((long long)L)};
    return {"--one", FN_NAME[fn], h64(seed), num(align), num(fill), std::string(1, placement), hexs(c, L)};
}

// occurrences per (function, length class, failure kind); only the first one of a process is written out in full (building the
// text for millions of failing cases of one defect would dominate the run), the others are counted
enum { K_WRONG = 0, K_PLACEMENT = 1, K_ASAN_READ = 2, K_ASAN_WRITE = 3, NKIND = 4 };
static const char* const KIND_NAME[NKIND] = {"wrong-value", "depends-on-placement", "asan-out-of-range-read", "asan-write"};
static long long g_occ[NFN][8][NKIND];

static void report_value(int fn, uint64_t seed, int align, int fill, char placement, const uint8_t* c, std::size_t L,
                         uint64_t got, uint64_t exp, bool canon_known, uint64_t canon)
{
    bool canonical = placement == 'R' && align == 0;
    const int k = (canonical || !canon_known || canon != exp) ? K_WRONG : K_PLACEMENT;
    if (g_occ[fn][cls_index(fn, L)][k]++ > 0) return;
    const char* kind = KIND_NAME[k];
    std::string sig = std::string("C14/") + FN_NAME[fn] + "/" + cls_name(fn, L) + "/" + kind;
    std::string msg = std::string(FN_NAME[fn]) + "(key, " + num((long long)L) + ", seed " + h64(seed) + ") with " + key_text(c, L) + ", " +
                      placement_text(placement, align, fill) + ": returned " + h64(got) + ", reference " + REF_NAME[fn] + " gives " + h64(exp);
    if (!canonical && canon_known) msg += "; the same key at offset 0 of an exact-size block returned " + h64(canon);
    vf::violation(sig, msg, replay_args(fn, seed, align, fill, placement, c, L));
}

#ifdef VERIF_ASAN
// the callback runs inside AddressSanitizer's report path: copy into a static buffer, allocate nothing there
static char g_asan_buf[640];
static void asan_report_cb(const char* text)
{
    std::size_t n = text ? std::min<std::size_t>(std::strlen(text), sizeof g_asan_buf - 1) : 0;
    if (n) std::memcpy(g_asan_buf, text, n);
    g_asan_buf[n] = 0;
}
#endif

static void report_asan(int fn, uint64_t seed, int align, int fill, char placement, const uint8_t* c, std::size_t L, const unsigned char* key)
{
    ++g_asan_reports;
    std::string what = "AddressSanitizer report";
    int k = K_ASAN_READ;
#ifdef VERIF_ASAN
    {
        // first lines of the report text: "ERROR: AddressSanitizer: <kind> on address 0x... at pc ..." and "READ|WRITE of size N at 0x..."
        const std::string t(g_asan_buf);
        std::string d = "?";
        std::size_t p = t.find("AddressSanitizer: ");
        if (p != std::string::npos) { p += 18; std::size_t q = t.find(' ', p); if (q != std::string::npos) d = t.substr(p, q - p); }
        unsigned long long addr = 0;
        p = t.find("on address 0x");
        if (p != std::string::npos) addr = std::strtoull(t.c_str() + p + 11, nullptr, 16);
        bool wr = t.find("WRITE of size") != std::string::npos;
        long long size = 0;
        p = t.find(" of size ");
        if (p != std::string::npos) size = std::atoll(t.c_str() + p + 9);
        if (wr) k = K_ASAN_WRITE;
        what = "AddressSanitizer: " + d + ", " + (wr ? "WRITE" : "READ") + " of size " + num(size);
        if (addr) { long long off = (long long)(addr - reinterpret_cast<uintptr_t>(key)); what += std::string(" at key") + (off >= 0 ? "+" : "") + num(off); }
        g_asan_buf[0] = 0;
    }
#else
    (void)key;
#endif
    if (g_occ[fn][cls_index(fn, L)][k]++ > 0) return;
    const char* kind = KIND_NAME[k];
    std::string sig = std::string("C14/") + FN_NAME[fn] + "/" + cls_name(fn, L) + "/" + kind;
    std::string msg = std::string(FN_NAME[fn]) + "(key, " + num((long long)L) + ", seed " + h64(seed) + ") with " + key_text(c, L) + ", " +
                      placement_text(placement, align, fill) + ": " + what + " - only [key, key+" + num((long long)L) + ") may be accessed";
    vf::violation(sig, msg, replay_args(fn, seed, align, fill, placement, c, L));
}

// ------------------------------------------------------------------------------------------------ the enumeration engine
struct Dims
{
    std::vector<char> placements;   // 'R' end-of-block (exact), 'M' mid-block
    std::vector<int> aligns;        // 0..7
    std::vector<int> fills;         // byte value of everything in the block that is not the key
};

struct Engine
{
    Dims d;
    std::vector<uint64_t> seeds[NFN];
    std::size_t L = 0;
    std::vector<Block> blocks;      // [placement index][align index]
    bool skip[NFN][8][2];
    bool sampled[4] = {false, false, false, false};

    Engine() { std::memset(skip, 0, sizeof skip); }
    ~Engine() { for (Block& b : blocks) free_block(b); }

    void set_len(std::size_t len)
    {
        for (Block& b : blocks) free_block(b);
        blocks.clear();
        L = len;
        for (char p : d.placements)
            for (int a : d.aligns) blocks.push_back(make_block(block_total(p, a, L)));
    }

    void eval(const uint8_t* c, bool want_sample = false)
    {
        uint64_t exp[NFN][160], canon[NFN][160];
        bool canon_known[NFN];
        for (int fn = 0; fn < NFN; ++fn)
        {
            canon_known[fn] = false;
            for (std::size_t si = 0; si < seeds[fn].size(); ++si) exp[fn][si] = ref(fn, c, L, seeds[fn][si]);
            if (L >= 1) g_distinct += (long long)seeds[fn].size();
        }
        std::size_t bi = 0;
        for (std::size_t pi = 0; pi < d.placements.size(); ++pi)
        {
            const char pl = d.placements[pi];
            for (int a : d.aligns)
            {
                Block& b = blocks[bi++];
                const unsigned char* key = b.base + a;
                for (int fill : d.fills)
                {
                    place(b, a, L, fill, c);
                    const bool canonical = pl == 'R' && a == 0;
                    for (int fn = 0; fn < NFN; ++fn)
                    {
                        const int ci = cls_index(fn, L);
                        if (skip[fn][ci][pl == 'R' ? 0 : 1]) { g_skipped += (long long)seeds[fn].size(); continue; }
                        for (std::size_t si = 0; si < seeds[fn].size(); ++si)
                        {
                            const uint64_t seed = seeds[fn][si];
                            const uint64_t got = call(fn, key, L, seed);
                            const bool as = vf::take_asan();
                            ++g_evals;
                            if (canonical && !canon_known[fn]) canon[fn][si] = got;
                            if (got != exp[fn][si]) report_value(fn, seed, a, fill, pl, c, L, got, exp[fn][si], canon_known[fn] || canonical, canon[fn][si]);
                            if (as)
                            {
                                report_asan(fn, seed, a, fill, pl, c, L, key);
                                skip[fn][ci][pl == 'R' ? 0 : 1] = true;   // one report per (function, length class, placement); see NOTES.md
                                break;
                            }
                            if (want_sample && a == 3 && fill == d.fills.back() && si == seeds[fn].size() - 1 && !sampled[fn])
                            {
                                sampled[fn] = true;
                                vf::sample(std::string(FN_NAME[fn]) + "(key " + spaced(c, L) + ", " + num((long long)L) + ", seed " + h64(seed) + "), " +
                                           placement_text(pl, a, fill) + " -> " + h64(got) + " == reference " + REF_NAME[fn], 12);
                            }
                        }
                        if (canonical) canon_known[fn] = true;
                    }
                }
            }
        }
    }
};

// ------------------------------------------------------------------------------------------------ content families
static std::string counting_asc(std::size_t L) { std::string s(L, '\0'); for (std::size_t i = 0; i < L; ++i) s[i] = char((i + 1) & 0xff); return s; }
static std::string counting_desc(std::size_t L) { std::string s(L, '\0'); for (std::size_t i = 0; i < L; ++i) s[i] = char(0xff - (i & 0xff)); return s; }

static std::vector<std::string> gen_contents(std::size_t L, bool pairs, bool full12)
{
    std::vector<std::string> v;
    if (L == 0) { v.push_back(std::string()); return v; }
    const unsigned char V[5] = {0x00, 0x01, 0x7f, 0x80, 0xff};
    const unsigned char BG[2] = {0x00, 0xff};
    for (unsigned char x : V) v.push_back(std::string(L, char(x)));
    for (unsigned char bg : BG)
        for (std::size_t p = 0; p < L; ++p)
            for (unsigned char x : V) { std::string s(L, char(bg)); s[p] = char(x); v.push_back(s); }
    v.push_back(counting_asc(L));
    v.push_back(counting_desc(L));
    if (pairs)
        for (unsigned char bg : BG)
            for (std::size_t p = 0; p < L; ++p)
                for (std::size_t q = p + 1; q < L; ++q)
                    for (unsigned char x : V)
                        for (unsigned char y : V) { std::string s(L, char(bg)); s[p] = char(x); s[q] = char(y); v.push_back(s); }
    if (full12 && L == 1) for (int a = 0; a < 256; ++a) v.push_back(std::string(1, char(a)));
    if (full12 && L == 2) for (int a = 0; a < 65536; ++a) { std::string s(2, '\0'); s[0] = char(a & 0xff); s[1] = char(a >> 8); v.push_back(s); }
    std::sort(v.begin(), v.end());
    v.erase(std::unique(v.begin(), v.end()), v.end());
    return v;
}

// ------------------------------------------------------------------------------------------------ part: main
static void part_main(std::size_t lmin, std::size_t lmax, bool pairs, bool wide, int shard, int nshard, const Dims& d)
{
    Engine e;
    e.d = d;
    for (int fn = 0; fn < NFN; ++fn) e.seeds[fn] = seeds_for(fn, wide);
    long long unit = 0, contents = 0;
    bool stopped = false;
    for (std::size_t L = lmin; L <= lmax && !stopped; ++L)
    {
        std::vector<std::string> cs = gen_contents(L, pairs, true);
        e.set_len(L);
        const std::string asc = counting_asc(L);
        for (std::size_t i = 0; i < cs.size(); ++i, ++unit)
        {
            if (unit % nshard != shard) continue;
            if ((contents & 1023) == 0 && out_of_time())
            {
                vf::cap("main part shard " + num(shard) + "/" + num(nshard) + " stopped by its deadline at length " + num((long long)L) + ", content #" + num((long long)i));
                stopped = true;
                break;
            }
            ++contents;
            e.eval(reinterpret_cast<const uint8_t*>(cs[i].data()), L >= 3 && cs[i] == asc && (L % 5 == 3));
        }
        if (!stopped) vf::smax("max_length_completed", (long long)L);
    }
    vf::stat("main_contents", contents);
}

// ------------------------------------------------------------------------------------------------ part: full (all 256^L contents, L = 3 or 4)
static void part_full(std::size_t L, bool pairs, bool two_seeds, int shard, int nshard, const Dims& d)
{
    Engine e;
    e.d = d;
    for (int fn = 0; fn < NFN; ++fn)
    {
        e.seeds[fn] = seeds_for(fn, false);
        if (two_seeds) e.seeds[fn] = {0xc70f6907ull, fn == X86 ? 0xFFFFFFFFull : ~0ull};
    }
    e.set_len(L);
    // contents that the main part already evaluates (with all dimensions) are left to it, so the two parts partition the space
    std::vector<std::string> fam = gen_contents(L, pairs, true);
    const uint64_t total = 1ull << (8 * L);
    long long contents = 0, left_to_main = 0;
    uint8_t c[8] = {0, 0, 0, 0, 0, 0, 0, 0};
    bool stopped = false;
    for (uint64_t v = uint64_t(shard); v < total; v += uint64_t(nshard))
    {
        if ((contents & 0xffff) == 0 && out_of_time())
        {
            vf::cap("full-length-" + num((long long)L) + " part shard " + num(shard) + "/" + num(nshard) + " stopped by its deadline at content value " + h64(v) + " of " + h64(total));
            stopped = true;
            break;
        }
        for (std::size_t i = 0; i < L; ++i) c[i] = uint8_t(v >> (8 * i));
        std::string s(reinterpret_cast<const char*>(c), L);
        if (std::binary_search(fam.begin(), fam.end(), s)) { ++left_to_main; continue; }
        ++contents;
        e.eval(c, false);
    }
    vf::stat("full" + num((long long)L) + "_contents", contents);
    vf::stat("full" + num((long long)L) + "_contents_left_to_main_part", left_to_main);
    if (!stopped) vf::stat("full" + num((long long)L) + "_shards_completed", 1);
}

// ------------------------------------------------------------------------------------------------ replay of one case
static void part_one(int fn, uint64_t seed, int align, int fill, char placement, const std::string& content)
{
    const std::size_t L = content.size();
    const uint8_t* c = reinterpret_cast<const uint8_t*>(content.data());
    const uint64_t exp = ref(fn, c, L, seed);
    uint64_t canon;
    {
        Block b = make_block(block_total('R', 0, L));
        place(b, 0, L, 0, c);
        canon = call(fn, b.base, L, seed);
        bool as = vf::take_asan();
        if (placement == 'R' && align == 0)
        {
            ++g_evals;
            if (canon != exp) report_value(fn, seed, 0, fill, 'R', c, L, canon, exp, true, canon);
            if (as) report_asan(fn, seed, 0, fill, 'R', c, L, b.base);
            std::printf("%s: returned %s, reference %s, asan=%d\n", FN_NAME[fn], h64(canon).c_str(), h64(exp).c_str(), int(as));
            free_block(b);
            return;
        }
        free_block(b);
    }
    Block b = make_block(block_total(placement, align, L));
    place(b, align, L, fill, c);
    uint64_t got = call(fn, b.base + align, L, seed);
    bool as = vf::take_asan();
    ++g_evals;
    if (got != exp) report_value(fn, seed, align, fill, placement, c, L, got, exp, true, canon);
    if (as) report_asan(fn, seed, align, fill, placement, c, L, b.base + align);
    std::printf("%s: returned %s, reference %s, at offset 0: %s, asan=%d\n", FN_NAME[fn], h64(got).c_str(), h64(exp).c_str(), h64(canon).c_str(), int(as));
    free_block(b);
}

// ------------------------------------------------------------------------------------------------ part: guard pages (forked child)
struct GCase
{
    int fn;
    std::size_t L;
    int side;        // 0: key ends at the last byte before an inaccessible page; 1: key starts at the first byte after one;
                     // length 0 only: 2: key pointer == nullptr; 3: key pointer in the middle of an inaccessible page (odd address)
    uint64_t seed;
    int ck;          // 0 counting pattern 01 02 03 .., 1 all FF
};
struct Shared
{
    volatile long idx;
    volatile uint64_t res[1];
};

static std::string gcls(const GCase& g)
{
    if (g.side == 2) return "len=0,null-pointer";
    if (g.side == 3) return "len=0,inaccessible-address";
    return cls_name(g.fn, g.L);
}
static std::string gwhere(const GCase& g, std::size_t PG)
{
    switch (g.side)
    {
    case 0: return ", last key byte = last byte of a page, next page inaccessible (key address % 8 == " + num((long long)((PG - g.L) % 8)) + ")";
    case 1: return ", first key byte = first byte of a page, previous page inaccessible (key address % 8 == 0)";
    case 2: return ", EMPTY key described by (nullptr, 0)";
    default: return ", EMPTY key described by (pointer into an inaccessible page, 0)";
    }
}
static std::string gcontent(const GCase& g) { return g.ck == 0 ? counting_asc(g.L) : std::string(g.L, char(0xff)); }
static std::vector<std::string> greplay(const GCase& g)
{
    return {"--guard-one", FN_NAME[g.fn], num((long long)g.L), num(g.side), h64(g.seed), num(g.ck)};
}

static void run_guard(const std::vector<GCase>& cases)
{
    const std::size_t PG = std::size_t(sysconf(_SC_PAGESIZE));
    unsigned char* area = static_cast<unsigned char*>(mmap(nullptr, 3 * PG, PROT_READ | PROT_WRITE, MAP_PRIVATE | MAP_ANONYMOUS, -1, 0));
    std::size_t shbytes = sizeof(Shared) + cases.size() * sizeof(uint64_t);
    Shared* sh = static_cast<Shared*>(mmap(nullptr, shbytes, PROT_READ | PROT_WRITE, MAP_SHARED | MAP_ANONYMOUS, -1, 0));
    if (area == MAP_FAILED || sh == MAP_FAILED) { std::fprintf(stderr, "mmap failed\n"); std::exit(2); }
    if (mprotect(area, PG, PROT_NONE) != 0 || mprotect(area + 2 * PG, PG, PROT_NONE) != 0) { std::fprintf(stderr, "mprotect failed\n"); std::exit(2); }
    unsigned char* page = area + PG;
    std::size_t start = 0;
    while (start < cases.size())
    {
        std::fflush(stdout);
        std::fflush(stderr);
        sh->idx = -1;
        pid_t pid = fork();
        if (pid < 0) { std::fprintf(stderr, "fork failed\n"); std::exit(2); }
        if (pid == 0)
        {
            int sigs[] = {SIGSEGV, SIGBUS};
            for (int s : sigs) std::signal(s, SIG_DFL);
            for (std::size_t i = start; i < cases.size(); ++i)
            {
                const GCase& g = cases[i];
                std::string c = gcontent(g);
                std::memset(page, 0xEE, PG);
                unsigned char* key = g.side == 0 ? page + PG - g.L : g.side == 1 ? page : g.side == 2 ? nullptr : area + 2 * PG + 1237;
                if (g.L) std::memcpy(key, c.data(), g.L);
                sh->idx = long(i);
                sh->res[i] = call(g.fn, key, g.L, g.seed);
            }
            sh->idx = long(cases.size());
            _exit(0);
        }
        int st = 0;
        if (waitpid(pid, &st, 0) != pid) { std::fprintf(stderr, "waitpid failed\n"); std::exit(2); }
        long reached = sh->idx;
        std::size_t ok_end;   // cases [start, ok_end) returned a value
        if (WIFEXITED(st) && WEXITSTATUS(st) == 0 && reached == long(cases.size())) ok_end = cases.size();
        else if ((WIFSIGNALED(st) || (WIFEXITED(st) && WEXITSTATUS(st) != 0)) && reached >= long(start) && reached < long(cases.size())) ok_end = std::size_t(reached);
        else { std::fprintf(stderr, "guard child ended unexpectedly (status %d, reached %ld)\n", st, reached); std::exit(2); }
        for (std::size_t i = start; i < ok_end; ++i)
        {
            const GCase& g = cases[i];
            std::string c = gcontent(g);
            const uint8_t* cp = reinterpret_cast<const uint8_t*>(c.data());
            uint64_t exp = ref(g.fn, cp, g.L, g.seed);
            ++g_evals;
            if (sh->res[i] != exp)
                vf::violation(std::string("C14/") + FN_NAME[g.fn] + "/" + gcls(g) + "/wrong-value",
                              std::string(FN_NAME[g.fn]) + "(key, " + num((long long)g.L) + ", seed " + h64(g.seed) + ") with key bytes " + spaced(cp, g.L) + gwhere(g, PG) +
                                  ": returned " + h64(sh->res[i]) + ", reference " + REF_NAME[g.fn] + " gives " + h64(exp) +
                                  (g.side >= 2 ? " (which is also what the function returns for the empty key at every other address that was tried)" : ""),
                              greplay(g));
        }
        if (ok_end < cases.size())
        {
            const GCase& g = cases[ok_end];
            std::string c = gcontent(g);
            ++g_evals;
            vf::violation(std::string("C14/") + FN_NAME[g.fn] + "/" + gcls(g) + "/guard-page-fault",
                          std::string(FN_NAME[g.fn]) + "(key, " + num((long long)g.L) + ", seed " + h64(g.seed) + ") with key bytes " +
                              spaced(reinterpret_cast<const uint8_t*>(c.data()), g.L) + gwhere(g, PG) +
                              (WIFSIGNALED(st) ? ": the call was killed by signal " + num(WTERMSIG(st)) : ": the call ended the process with status " + num(WEXITSTATUS(st)) + " (sanitizer abort)") +
                              " - it accessed memory outside [key, key+" + num((long long)g.L) + ")",
                          greplay(g));
            start = ok_end + 1;
        }
        else start = cases.size();
    }
    munmap(area, 3 * PG);
    munmap(sh, shbytes);
}

static void part_guard(std::size_t lmax, bool wide)
{
    std::vector<GCase> cases;
    for (int fn = 0; fn < NFN; ++fn)
    {
        std::vector<uint64_t> seeds = seeds_for(fn, wide);
        for (std::size_t L = 0; L <= lmax; ++L)
            for (int side = 0; side < 2; ++side)
                for (uint64_t s : seeds)
                    for (int ck = 0; ck < 2; ++ck) cases.push_back(GCase{fn, L, side, s, ck});
        // the empty key at addresses that cannot be dereferenced at all
        for (int side = 2; side < 4; ++side)
            for (uint64_t s : seeds) { cases.push_back(GCase{fn, 0, side, s, 0}); vf::stat("empty_key_null_or_inaccessible_cases", 1); }
    }
    run_guard(cases);
    vf::stat("guard_page_cases", (long long)cases.size());
    // every guard case has length >= 1 and distinct (function, seed, bytes) only once per side; the main part already counts those
    // contents, so nothing is added to distinct_nontrivial here
    const GCase& g = cases[cases.size() / 2];
    vf::sample(std::string("guard page: ") + FN_NAME[g.fn] + "(key of length " + num((long long)g.L) + (g.side == 0 ? " ending" : " starting") +
               " exactly at an inaccessible page, seed " + h64(g.seed) + ") in a forked child -> returned normally, value == reference", 12);
}

// ------------------------------------------------------------------------------------------------ part: fs (hash of equal fixed strings across layouts)
typedef xtl::xbasic_fixed_string<char, 3> FS_P3;                    // packed size in the last buffer byte
typedef xtl::xbasic_fixed_string<char, 16> FS_P16;
typedef xtl::xbasic_fixed_string<char, 55> FS_P55;                  // the library's default capacity
typedef xtl::xbasic_fixed_string<char, 255> FS_P255;                // largest packed capacity
typedef xtl::xbasic_fixed_string<char, 256> FS_F256;                // separate size field
typedef xtl::xbasic_fixed_string<char, 3, xtl::buffer> FS_S3;       // strlen-sized
typedef xtl::xbasic_fixed_string<char, 16, xtl::buffer> FS_S16;

struct FsObs { std::string type, history; bool valid; uint64_t h; };

template <class S>
static void fs_type(const char* tname, bool strlen_layout, const std::string& c, std::vector<FsObs>& out)
{
    if (strlen_layout && c.find('\0') != std::string::npos) return;   // not representable in that layout
    const std::size_t cap = S().max_size();
    std::string z(std::min<std::size_t>(cap, 9), 'Z');
    for (int h = 0; h < 4; ++h)
    {
        S s;
        const char* hn = "";
        switch (h)
        {
        case 0: hn = "S(ptr,len)"; s = S(c.data(), c.size()); break;
        case 1: hn = "S(\"ZZ..\").assign(ptr,len)"; s = S(z.data(), z.size()); s.assign(c.data(), c.size()); break;
        case 2: hn = "S().push_back(each)"; for (char ch : c) s.push_back(ch); break;
        default: hn = "S(\"ZZ..\").clear().append(ptr,len)"; s = S(z.data(), z.size()); s.clear(); s.append(c.data(), c.size()); break;
        }
        FsObs o;
        o.type = tname;
        o.history = hn;
        // whether the string has the intended value is C01's business; C14 only speaks about strings that ARE equal
        o.valid = s.size() == c.size() && std::memcmp(s.data(), c.data(), c.size()) == 0;
        o.h = uint64_t(std::hash<S>()(s));
        out.push_back(o);
    }
}

static long long g_fs_skipped = 0;
static void fs_content(const std::string& c, bool verbose)
{
    std::vector<FsObs> o;
    fs_type<FS_P3>("xbasic_fixed_string<char,3>", false, c, o);
    fs_type<FS_P16>("xbasic_fixed_string<char,16>", false, c, o);
    fs_type<FS_P55>("xbasic_fixed_string<char,55>", false, c, o);
    fs_type<FS_P255>("xbasic_fixed_string<char,255>", false, c, o);
    fs_type<FS_F256>("xbasic_fixed_string<char,256>", false, c, o);
    fs_type<FS_S3>("xbasic_fixed_string<char,3,buffer>", true, c, o);
    fs_type<FS_S16>("xbasic_fixed_string<char,16,buffer>", true, c, o);
    const FsObs* first = nullptr;
    for (const FsObs& x : o)
    {
        if (!x.valid) { ++g_fs_skipped; continue; }
        ++g_evals;
        if (verbose) std::printf("%s %s -> %s\n", x.type.c_str(), x.history.c_str(), h64(x.h).c_str());
        if (!first) { first = &x; continue; }
        if (x.h != first->h)
            vf::violation("C14/std::hash<fixed_string>/" + x.type + "/differs-for-equal-strings",
                          "the string with bytes " + spaced(reinterpret_cast<const uint8_t*>(c.data()), c.size()) + " hashes to " + h64(x.h) + " as " + x.type + " built by " +
                              x.history + " but to " + h64(first->h) + " as " + first->type + " built by " + first->history + " (both compare equal to the intended bytes)",
                          {"--fs-one", hexs(c)});
    }
    if (c.size() >= 1) ++g_distinct;
}

static void part_fs()
{
    const char A[4] = {'\0', 'a', char(0x80), char(0xff)};
    std::vector<std::string> all(1, std::string());
    for (std::size_t i = 0; i < all.size(); ++i)
        if (all[i].size() < 3)
            for (char ch : A) all.push_back(all[i] + ch);
    for (const std::string& c : all) fs_content(c, false);
    vf::stat("fs_layout_contents", (long long)all.size());
    vf::stat("fs_layout_skipped_string_not_as_intended", g_fs_skipped);
    vf::sample("std::hash of the string [61 80 ff] built 4 ways in 7 fixed-string types (capacities 3,16,55,255,256; packed, size-field and strlen layouts) -> one value", 12);
}

// ------------------------------------------------------------------------------------------------ part: long (alignment x length grid)
// every length lmin..lmax x every offset 0..naligns-1 of a 16-aligned exact-size malloc block x seeds x the LONG_NAME patterns:
// reaches any buffering / chunking / unrolling by up to lmax bytes, at every alignment relative to 16
static void long_one(int fn, uint64_t seed, int align, int kind, std::size_t L, bool verbose)
{
    g_long_kind = kind;
    std::string content = long_content(kind, L);
    const uint8_t* c = reinterpret_cast<const uint8_t*>(content.data());
    const uint64_t exp = ref(fn, c, L, seed);
    Block b0 = make_block(block_total('R', 0, L));
    place(b0, 0, L, 0xff, c);
    uint64_t canon = call(fn, b0.base, L, seed);
    bool as0 = vf::take_asan();
    Block b = make_block(block_total('R', align, L));
    place(b, align, L, 0xff, c);
    uint64_t got = call(fn, b.base + align, L, seed);
    bool as = vf::take_asan();
    ++g_evals;
    if (align == 0) { got = canon; as = as0; }
    if (got != exp) report_value(fn, seed, align, 0xff, 'R', c, L, got, exp, true, canon);
    if (as) report_asan(fn, seed, align, 0xff, 'R', c, L, b.base + align);
    if (verbose) std::printf("%s: returned %s, reference %s, at offset 0: %s, asan=%d\n", FN_NAME[fn], h64(got).c_str(), h64(exp).c_str(), h64(canon).c_str(), int(as));
    free_block(b0);
    free_block(b);
    g_long_kind = -1;
}

static void part_long(std::size_t lmin, std::size_t lmax, std::size_t lmain, int naligns, bool wide, int shard, int nshard, bool band)
{
    std::vector<uint64_t> seeds[NFN];
    for (int fn = 0; fn < NFN; ++fn)
    {
        if (wide) seeds[fn] = seeds_for(fn, false);
        else seeds[fn] = {0, 0xc70f6907ull, fn == X86 ? 0xFFFFFFFFull : ~0ull};
    }
    bool skip[NFN][8];
    std::memset(skip, 0, sizeof skip);
    long long lengths = 0;
    bool stopped = false;
    for (std::size_t L = lmin; L <= lmax; ++L)
    {
        if (int(L % std::size_t(nshard)) != shard) continue;
        if (out_of_time())
        {
            vf::cap("long part shard " + num(shard) + "/" + num(nshard) + " stopped by its deadline at length " + num((long long)L) + " of " + num((long long)lmax));
            stopped = true;
            break;
        }
        std::vector<Block> blocks;
        for (int a = 0; a < naligns; ++a)
        {
            blocks.push_back(make_block(block_total('R', a, L)));
            if (naligns > 8 && (reinterpret_cast<uintptr_t>(blocks.back().base) & 15) != 0) { std::fprintf(stderr, "malloc block not 16-aligned\n"); std::exit(2); }
        }
        for (int kind = 0; kind < 4; ++kind)
        {
            if (L == 0 && kind > 0) continue;
            g_long_kind = kind;
            std::string content = long_content(kind, L);
            const uint8_t* c = reinterpret_cast<const uint8_t*>(content.data());
            uint64_t canon[NFN][8], expv[NFN][8];
            for (int fn = 0; fn < NFN; ++fn)
                for (std::size_t si = 0; si < seeds[fn].size(); ++si) expv[fn][si] = ref(fn, c, L, seeds[fn][si]);
            for (int a = 0; a < naligns; ++a)
            {
                Block& b = blocks[std::size_t(a)];
                place(b, a, L, 0xff, c);
                const unsigned char* key = b.base + a;
                for (int fn = 0; fn < NFN; ++fn)
                {
                    const int ci = cls_index(fn, L);
                    if (skip[fn][ci]) { g_skipped += (long long)seeds[fn].size(); continue; }
                    for (std::size_t si = 0; si < seeds[fn].size(); ++si)
                    {
                        const uint64_t seed = seeds[fn][si];
                        const uint64_t exp = expv[fn][si];
                        const uint64_t got = call(fn, key, L, seed);
                        const bool as = vf::take_asan();
                        ++g_evals;
                        if (a == 0) { canon[fn][si] = got; if (L > lmain) ++g_distinct; }   // lengths <= lmain: these keys and seeds are already counted by the MAIN part
                        if (got != exp) report_value(fn, seed, a, 0xff, 'R', c, L, got, exp, true, canon[fn][si]);
                        if (as) { report_asan(fn, seed, a, 0xff, 'R', c, L, key); skip[fn][ci] = true; break; }
                    }
                }
            }
        }
        g_long_kind = -1;
        for (Block& b : blocks) free_block(b);
        ++lengths;
    }
    if (band)
    {
        // a band of lengths around a power of two (limits of narrower integer types / chunk sizes), far above the contiguous range
        vf::stat("boundary_band_lengths", lengths);
        if (!stopped) { vf::stat("boundary_band_shards_completed", 1); vf::smax("boundary_band_max_length_completed", (long long)lmax); }
        if (shard == 0 && lmax >= 65536 && lmax < 65536 + 64)
            vf::sample("length band: hash_bytes / murmur2_x86 / murmur2_x64 of the 4 LONG patterns of EVERY length " + num((long long)lmin) + ".." + num((long long)lmax) +
                       " (2^16-8 .. 2^16+16) at offsets 0.." + num(naligns - 1) + " of a 16-aligned exact-size malloc block -> one value each == reference", 12);
        return;
    }
    vf::stat("long_lengths", lengths);
    if (!stopped) vf::smax("long_max_length_completed", (long long)lmax);
    if (shard == 0)
        vf::sample("long grid: hash_bytes / murmur2_x86 / murmur2_x64 (key = 32-bit word counter pattern, length " + num((long long)lmax) + ", seed 0xc70f6907) at offsets 0.." +
                   num(naligns - 1) + " of a 16-aligned exact-size malloc block -> one value each == reference", 12);
}

// ------------------------------------------------------------------------------------------------ part: huge (lengths around 2^31 and 2^32)
// "for every input" includes keys whose length does not fit in a 32-bit (or signed 32-bit) integer: length arithmetic that is
// narrower than std::size_t anywhere in a 64-bit hash (block-end mask, block count, tail offset, loop counter, the length mixed
// into the seed) is invisible below 2^31 / 2^32.  Lengths 2^k + d, k in {31, 32}, are hashed in an anonymous MAP_NORESERVE mapping:
// untouched pages read as the shared zero page, so a key of 4 GiB costs page tables (8 MiB) and a few dozen resident pages.
// The key is SPARSE: bytes inside 96-byte windows around offsets 0, 2^12 .. 2^33, L/2+17 and L are huge_byte(i), everything else
// is 00 (a run of n zero blocks still multiplies the state by M^n, so skipped / repeated blocks change the value).
// Placements: 'G' the key's last byte is the last byte before an inaccessible page (over-read == SIGSEGV; the start address is
// then fixed by the length: address % 8 == (-L) % 8), 64 bytes FF in front of it; 'A<a>' the key starts at offset a of the first
// page behind an inaccessible page (a == 0: a read in front of the key faults), a bytes FF in front, 64 bytes FF behind it.
// All calls run in a forked child (a fault is attributed to the case that was executing and the sweep resumes behind it); the
// reference is computed by the parent on a PRIVATE second mapping with the same content at offset 0.
// murmur2_x86: reference MurmurHash2 takes an `int` length, so it has no value for lengths >= 2^31; there the function is only
// required to return ONE value in every placement and to stay inside the key (it narrows the length to 32 bit on this tree).
static inline uint8_t huge_byte(uint64_t i) { return uint8_t(((i + 1) * 0x9E3779B97F4A7C15ull) >> 56); }
static const char* const HUGE_CONTENT = "sparse key: byte i = top byte of (i+1)*0x9E3779B97F4A7C15 inside the windows [c-48, c+48) for c in {0, 2^12, 2^13, .., 2^33, L/2+17, L}, 00 elsewhere";

typedef std::vector<std::pair<uint64_t, uint64_t> > HWindows;
static HWindows huge_windows(uint64_t L)
{
    HWindows w;
    auto add = [&](uint64_t c) {
        uint64_t b = c > 48 ? c - 48 : 0, e = std::min<uint64_t>(c + 48, L);
        if (b < e) w.push_back(std::make_pair(b, e));
    };
    add(0);
    for (int j = 12; j <= 33; ++j) add(1ull << j);
    add(L / 2 + 17);
    add(L);
    return w;   // windows may overlap: the byte is a function of its index only
}
static void huge_write(unsigned char* key, uint64_t L, bool content)
{
    for (const auto& r : huge_windows(L))
        for (uint64_t i = r.first; i < r.second; ++i) key[i] = content ? huge_byte(i) : 0;
}

struct HCase
{
    int fn;
    uint64_t L;
    int k;           // the power of two the length belongs to (signature class)
    int pl;          // -1: 'G' key ends at an inaccessible page; 0..15: 'A<a>' key at offset a behind an inaccessible page
    uint64_t seed;
};
struct HShared
{
    volatile long idx;
    volatile long stopped;
    volatile uint64_t res[1];
};
static std::string hpl_name(int pl) { return pl < 0 ? std::string("G") : "A" + num(pl); }
static std::string hlen_text(uint64_t L, int k)
{
    long long d = (long long)(L - (1ull << k));
    return num((long long)L) + " (= 2^" + num(k) + (d < 0 ? "" : "+") + num(d) + ")";
}
static std::string hwhere(const HCase& c)
{
    if (c.pl < 0)
        return "last key byte = last byte before an inaccessible page (key address % 8 == " + num((long long)((0 - c.L) % 8)) + "), 64 bytes 0xFF in front of the key";
    return "key at offset " + num(c.pl) + " of the first page behind an inaccessible page (key address % 8 == " + num(c.pl % 8) + "), " + num(c.pl) +
           " bytes 0xFF in front of it and 64 bytes 0xFF behind it";
}
static std::vector<std::string> hreplay(const HCase& c) { return {"--huge-one", FN_NAME[c.fn], h64(c.seed), hpl_name(c.pl), num((long long)c.L)}; }
static bool huge_has_ref(const HCase& c) { return c.fn != X86 || c.L < (1ull << 31); }

struct HugeArea
{
    unsigned char* map = nullptr;    // [PG inaccessible][data_len readable+writable][PG inaccessible]
    std::size_t map_len = 0, data_len = 0, PG = 0;
    unsigned char* data = nullptr;
    unsigned char* refmap = nullptr; // private copy for the reference
    std::size_t ref_len = 0;
    bool ok = false;
    std::string why;
};
static HugeArea huge_map(uint64_t lmax)
{
    HugeArea a;
    a.PG = std::size_t(sysconf(_SC_PAGESIZE));
    a.data_len = ((std::size_t(lmax) + 64 + 16 + a.PG - 1) / a.PG + 1) * a.PG;
    a.map_len = a.data_len + 2 * a.PG;
    a.ref_len = ((std::size_t(lmax) + a.PG - 1) / a.PG + 1) * a.PG;
    void* m = mmap(nullptr, a.map_len, PROT_NONE, MAP_PRIVATE | MAP_ANONYMOUS | MAP_NORESERVE, -1, 0);
    if (m == MAP_FAILED) { a.why = std::string("mmap of ") + num((long long)a.map_len) + " bytes failed: " + std::strerror(errno); return a; }
    a.map = static_cast<unsigned char*>(m);
    a.data = a.map + a.PG;
    if (mprotect(a.data, a.data_len, PROT_READ | PROT_WRITE) != 0)
    {
        a.why = std::string("mprotect of ") + num((long long)a.data_len) + " bytes failed: " + std::strerror(errno);
        munmap(a.map, a.map_len);
        a.map = nullptr;
        return a;
    }
    void* r = mmap(nullptr, a.ref_len, PROT_READ | PROT_WRITE, MAP_PRIVATE | MAP_ANONYMOUS | MAP_NORESERVE, -1, 0);
    if (r == MAP_FAILED)
    {
        a.why = std::string("mmap of ") + num((long long)a.ref_len) + " bytes (reference copy) failed: " + std::strerror(errno);
        munmap(a.map, a.map_len);
        a.map = nullptr;
        return a;
    }
    a.refmap = static_cast<unsigned char*>(r);
    // untouched pages must stay the shared 4 KiB zero page whatever the transparent-huge-page policy of the machine is
    madvise(a.data, a.data_len, MADV_NOHUGEPAGE);
    madvise(a.refmap, a.ref_len, MADV_NOHUGEPAGE);
    a.ok = true;
    return a;
}
static void huge_unmap(HugeArea& a)
{
    if (a.map) munmap(a.map, a.map_len);
    if (a.refmap) munmap(a.refmap, a.ref_len);
    a.map = a.refmap = nullptr;
}
static unsigned char* huge_key(const HugeArea& a, const HCase& c) { return c.pl < 0 ? a.data + a.data_len - c.L : a.data + c.pl; }
static void huge_place(const HugeArea& a, const HCase& c, bool on)
{
    unsigned char* key = huge_key(a, c);
    const int f = on ? 0xff : 0x00;
    if (c.pl < 0) std::memset(key - 64, f, 64);
    else { std::memset(a.data, f, std::size_t(c.pl)); std::memset(key + c.L, f, 64); }
    huge_write(key, c.L, on);
}

struct HRef { uint64_t L, seed; bool have32; uint64_t r64, r32; };

// cases must be grouped by (L, pl); returns the number of cases that were executed or attributed
static void run_huge(const HugeArea& a, const std::vector<HCase>& cases_in, bool verbose)
{
    std::vector<HCase> cases = cases_in;
    // ---- references (parent, private mapping)
    std::vector<HRef> refs;
    auto find_ref = [&](uint64_t L, uint64_t seed) -> const HRef* {
        for (const HRef& r : refs) if (r.L == L && r.seed == seed) return &r;
        return nullptr;
    };
    long long ref_evals = 0;
    for (std::size_t i = 0; i < cases.size(); ++i)
    {
        const HCase& c = cases[i];
        if (find_ref(c.L, c.seed)) continue;
        if (out_of_time())
        {
            vf::cap("huge part stopped by its deadline before the reference values of length " + hlen_text(c.L, c.k) + " were computed; that length and the following ones were not evaluated");
            cases.resize(i);
            break;
        }
        // all cases of one length are adjacent: write the content once per length
        if (i == 0 || cases[i - 1].L != c.L)
        {
            if (i > 0) huge_write(a.refmap, cases[i - 1].L, false);
            huge_write(a.refmap, c.L, true);
        }
        HRef r;
        r.L = c.L;
        r.seed = c.seed;
        r.r64 = r.r32 = 0;
        r.have32 = c.L < (1ull << 31);
        bool need64 = false, need32 = false;
        for (const HCase& d : cases)
            if (d.L == c.L && d.seed == c.seed) { if (d.fn == X86) need32 = r.have32; else need64 = true; }
        if (need64) { r.r64 = c14ref::murmur2_64a(a.refmap, std::size_t(c.L), c.seed); ++ref_evals; }
        if (need32) { r.r32 = c14ref::murmur2_32(a.refmap, std::size_t(c.L), uint32_t(c.seed)); ++ref_evals; }
        refs.push_back(r);
    }
    if (!cases.empty()) huge_write(a.refmap, cases.back().L, false);
    vf::stat("huge_reference_evaluations", ref_evals);

    // ---- implementation (forked child)
    std::size_t shbytes = sizeof(HShared) + cases.size() * sizeof(uint64_t);
    HShared* sh = static_cast<HShared*>(mmap(nullptr, shbytes, PROT_READ | PROT_WRITE, MAP_SHARED | MAP_ANONYMOUS, -1, 0));
    if (sh == MAP_FAILED) { std::fprintf(stderr, "mmap failed\n"); std::exit(2); }
    std::vector<char> state(cases.size(), 0);   // 0 not executed, 1 returned a value, 2 killed
    std::vector<std::string> death(cases.size());
    std::size_t start = 0;
    bool stopped = false;
    while (start < cases.size() && !stopped)
    {
        std::fflush(stdout);
        std::fflush(stderr);
        sh->idx = -1;
        sh->stopped = 0;
        pid_t pid = fork();
        if (pid < 0) { std::fprintf(stderr, "fork failed\n"); std::exit(2); }
        if (pid == 0)
        {
            int sigs[] = {SIGSEGV, SIGBUS};
            for (int s : sigs) std::signal(s, SIG_DFL);
            bool placed = false;
            std::size_t i = start;
            for (; i < cases.size(); ++i)
            {
                const HCase& c = cases[i];
                if (out_of_time()) { sh->stopped = 1; break; }
                if (!placed || cases[i - 1].L != c.L || cases[i - 1].pl != c.pl)
                {
                    if (placed) huge_place(a, cases[i - 1], false);
                    huge_place(a, c, true);
                    placed = true;
                }
                sh->idx = long(i);
                sh->res[i] = call(c.fn, huge_key(a, c), std::size_t(c.L), c.seed);
            }
            sh->idx = long(i);
            _exit(0);
        }
        int st = 0;
        if (waitpid(pid, &st, 0) != pid) { std::fprintf(stderr, "waitpid failed\n"); std::exit(2); }
        long reached = sh->idx;
        if (WIFEXITED(st) && WEXITSTATUS(st) == 0 && reached >= long(start) && reached <= long(cases.size()))
        {
            for (std::size_t i = start; i < std::size_t(reached); ++i) state[i] = 1;
            if (sh->stopped) stopped = true;
            start = std::size_t(reached);
            if (!stopped && start != cases.size()) { std::fprintf(stderr, "huge child ended early (reached %ld)\n", reached); std::exit(2); }
        }
        else if ((WIFSIGNALED(st) || (WIFEXITED(st) && WEXITSTATUS(st) != 0)) && reached >= long(start) && reached < long(cases.size()))
        {
            for (std::size_t i = start; i < std::size_t(reached); ++i) state[i] = 1;
            state[std::size_t(reached)] = 2;
            death[std::size_t(reached)] = WIFSIGNALED(st) ? "the call was killed by signal " + num(WTERMSIG(st)) : "the call ended the process with status " + num(WEXITSTATUS(st));
            start = std::size_t(reached) + 1;
        }
        else { std::fprintf(stderr, "huge child ended unexpectedly (status %d, reached %ld)\n", st, reached); std::exit(2); }
    }
    if (stopped)
        vf::cap("huge part stopped by its deadline at case " + num((long long)start) + " of " + num((long long)cases.size()) + " (" + FN_NAME[cases[start].fn] + ", length " +
                hlen_text(cases[start].L, cases[start].k) + ", placement " + hpl_name(cases[start].pl) + ")");

    // ---- judge
    for (std::size_t i = 0; i < cases.size(); ++i)
    {
        const HCase& c = cases[i];
        if (state[i] == 0) continue;
        ++g_evals;
        vf::stat("huge_cases", 1);
        const std::string head = std::string(FN_NAME[c.fn]) + "(key, " + hlen_text(c.L, c.k) + ", seed " + h64(c.seed) + ") with " + HUGE_CONTENT + ", " + hwhere(c);
        const std::string sigbase = std::string("C14/") + FN_NAME[c.fn] + "/len~2^" + num(c.k) + "/";
        if (state[i] == 2)
        {
            vf::violation(sigbase + "guard-page-fault", head + ": " + death[i] + " - it accessed memory outside [key, key+" + num((long long)c.L) + ")", hreplay(c));
            continue;
        }
        const uint64_t got = sh->res[i];
        // canonical placement of the same (function, length, seed): the first executed case of the group
        bool canon_known = false;
        uint64_t canon = 0;
        std::size_t ci = 0;
        for (std::size_t j = 0; j < i; ++j)
            if (state[j] == 1 && cases[j].fn == c.fn && cases[j].L == c.L && cases[j].seed == c.seed) { canon_known = true; canon = sh->res[j]; ci = j; break; }
        const HRef* r = find_ref(c.L, c.seed);
        if (verbose)
            std::printf("%s placement %s: returned %s, reference %s%s\n", FN_NAME[c.fn], hpl_name(c.pl).c_str(), h64(got).c_str(),
                        huge_has_ref(c) && r ? h64(c.fn == X86 ? r->r32 : r->r64).c_str() : "(none: MurmurHash2 has no value for lengths >= 2^31)",
                        canon_known ? (", first placement returned " + h64(canon)).c_str() : "");
        if (huge_has_ref(c) && r)
        {
            const uint64_t exp = c.fn == X86 ? r->r32 : r->r64;
            if (got != exp)
            {
                const bool placement = canon_known && canon == exp;
                std::string msg = head + ": returned " + h64(got) + ", reference " + REF_NAME[c.fn] + " gives " + h64(exp);
                if (canon_known) msg += "; the same key in placement " + hpl_name(cases[ci].pl) + " returned " + h64(canon);
                vf::violation(sigbase + (placement ? "depends-on-placement" : "wrong-value"), msg, hreplay(c));
            }
            if (!canon_known) ++g_distinct;
        }
        else if (canon_known && got != canon)
        {
            vf::violation(sigbase + "depends-on-placement",
                          head + ": returned " + h64(got) + " but the same key (equal bytes, length and seed) in placement " + hpl_name(cases[ci].pl) + " returned " + h64(canon) +
                              " (reference MurmurHash2 takes an int length, so only purity is judged for lengths >= 2^31)",
                          hreplay(c));
        }
    }
    munmap(sh, shbytes);
}

static std::vector<uint64_t> huge_seeds(int fn, bool two)
{
    std::vector<uint64_t> s(1, 0xc70f6907ull);
    if (two) s.push_back(fn == X86 ? 0xFFFFFFFFull : ~0ull);
    return s;
}
static void huge_cases_for(std::vector<HCase>& cases, uint64_t L, int k, const std::vector<int>& aoffs, bool two_seeds, int only_fn = -1)
{
    std::vector<int> pls(1, -1);
    for (int a : aoffs) pls.push_back(a);
    for (int pl : pls)
        for (int fn = 0; fn < NFN; ++fn)
        {
            if (only_fn >= 0 && fn != only_fn) continue;
            for (uint64_t s : huge_seeds(fn, two_seeds)) cases.push_back(HCase{fn, L, k, pl, s});
        }
}
static int huge_k_of(uint64_t L)
{
    int best = 31;
    uint64_t bd = ~0ull;
    for (int k = 20; k <= 33; ++k)
    {
        uint64_t p = 1ull << k, d = L > p ? L - p : p - L;
        if (d < bd) { bd = d; best = k; }
    }
    return best;
}

// kd: explicit list of (k, d) pairs; if empty the product ks x ds
static void part_huge(const std::vector<std::pair<int, int> >& kd_in, const std::vector<int>& ks, const std::vector<int>& ds, const std::vector<int>& aoffs, bool two_seeds, int shard, int nshard)
{
    std::vector<std::pair<int, int> > kd = kd_in;
    if (kd.empty())
        for (int k : ks)
            for (int d : ds) kd.push_back(std::make_pair(k, d));
    std::vector<std::pair<uint64_t, int> > lens;
    for (const auto& x : kd) lens.push_back(std::make_pair(uint64_t((long long)(1ull << x.first) + x.second), x.first));
    std::sort(lens.begin(), lens.end());
    lens.erase(std::unique(lens.begin(), lens.end()), lens.end());
    std::vector<HCase> cases;
    uint64_t lmax = 0;
    long long nl = 0;
    for (std::size_t i = 0; i < lens.size(); ++i)
    {
        if (int(i % std::size_t(nshard)) != shard) continue;
        huge_cases_for(cases, lens[i].first, lens[i].second, aoffs, two_seeds);
        lmax = std::max(lmax, lens[i].first);
        ++nl;
    }
    if (cases.empty()) return;
    HugeArea a = huge_map(lmax);
    if (!a.ok)
    {
        vf::cap("huge part shard " + num(shard) + "/" + num(nshard) + ": the sparse mapping for keys of up to " + num((long long)lmax) + " bytes cannot be created on this machine (" + a.why +
                "); lengths around 2^31 / 2^32 were NOT evaluated");
        return;
    }
    const long long before = g_evals;
    run_huge(a, cases, false);
    huge_unmap(a);
    vf::stat("huge_lengths", nl);
    if (g_evals - before == (long long)cases.size()) vf::smax("huge_max_length_completed", (long long)lmax);
    if (shard == 0)
        vf::sample(std::string("huge key: hash_bytes / murmur2_x64 (") + HUGE_CONTENT + ", length " + hlen_text(cases[0].L, cases[0].k) +
                   ", seed 0xc70f6907) ending at an inaccessible page and at offsets " + (aoffs.empty() ? std::string("-") : num(aoffs.front()) + ".." + num(aoffs.back())) +
                   " behind one, in a forked child -> one value == reference MurmurHash64A computed on a private copy", 12);
}

static void huge_one(int fn, uint64_t seed, const std::string& plname, uint64_t L)
{
    int pl = plname == "G" ? -1 : std::atoi(plname.c_str() + 1);
    if (pl < -1 || pl > 15 || L < 64 || L > (1ull << 34)) { std::fprintf(stderr, "bad --huge-one arguments\n"); std::exit(2); }
    const int k = huge_k_of(L);
    std::vector<HCase> cases;
    cases.push_back(HCase{fn, L, k, -1, seed});
    if (pl >= 0) cases.push_back(HCase{fn, L, k, pl, seed});
    HugeArea a = huge_map(L);
    if (!a.ok) { vf::cap("the sparse mapping for a key of " + num((long long)L) + " bytes cannot be created (" + a.why + ")"); return; }
    run_huge(a, cases, true);
    huge_unmap(a);
}

// ------------------------------------------------------------------------------------------------ part: fslong (long strlen-layout fixed strings at odd addresses)
typedef xtl::xbasic_fixed_string<char, 400, xtl::buffer> FS_S400;   // characters only, alignment 1: data() can have any address
typedef xtl::xbasic_fixed_string<char, 400> FS_F400;                // size field + buffer
static void fs_long_len(std::size_t L, bool verbose)
{
    std::string c = long_content(0, L);
    for (char& ch : c) if (ch == 0) ch = 1;   // strlen layout: no NUL inside
    alignas(16) static unsigned char arena[sizeof(FS_S400) + 32];
    bool have = false;
    uint64_t first = 0;
    std::string first_where;
    {
        FS_F400 f(c.data(), c.size());
        if (f.size() == L && std::memcmp(f.data(), c.data(), L) == 0) { have = true; first = uint64_t(std::hash<FS_F400>()(f)); first_where = "xbasic_fixed_string<char,400>"; ++g_evals; }
        else ++g_fs_skipped;
    }
    for (std::size_t off = 0; off < 8; ++off)
    {
        if (off % alignof(FS_S400) != 0) continue;
        std::memset(arena, 0xA5, sizeof arena);
        FS_S400* s = new (arena + off) FS_S400(c.data(), c.size());
        bool valid = s->size() == L && std::memcmp(s->data(), c.data(), L) == 0;
        uint64_t h = uint64_t(std::hash<FS_S400>()(*s));
        unsigned dalign = unsigned(reinterpret_cast<uintptr_t>(s->data()) & 7);
        s->~FS_S400();
        if (!valid) { ++g_fs_skipped; continue; }
        ++g_evals;
        std::string where = "xbasic_fixed_string<char,400,buffer> constructed at offset " + num((long long)off) + " of a 16-aligned byte array (data() % 8 == " + num(dalign) + ")";
        if (verbose) std::printf("%s -> %s\n", where.c_str(), h64(h).c_str());
        if (!have) { have = true; first = h; first_where = where; continue; }
        if (h != first)
            vf::violation("C14/std::hash<fixed_string>/xbasic_fixed_string<char,400,buffer>/differs-for-equal-strings",
                          "the " + num((long long)L) + "-character string (word counter pattern, first bytes " + spaced(reinterpret_cast<const uint8_t*>(c.data()), std::min<std::size_t>(L, 12)) +
                              ") hashes to " + h64(h) + " as " + where + " but to " + h64(first) + " as " + first_where + " (both compare equal to the intended characters)",
                          {"--fs-long-one", num((long long)L)});
    }
    if (L >= 1) ++g_distinct;
}
static void part_fslong()
{
    for (std::size_t L = 0; L <= 400; ++L) fs_long_len(L, false);
    vf::stat("fs_long_lengths", 401);
    vf::stat("fs_layout_skipped_string_not_as_intended", g_fs_skipped);
    vf::sample("std::hash of equal strings of every length 0..400 in xbasic_fixed_string<char,400,buffer> objects constructed at offsets 0..7 of a byte array and in xbasic_fixed_string<char,400> -> one value per string", 12);
}

// ------------------------------------------------------------------------------------------------ part: fswide (character types x capacities x layouts)
// equal strings must hash equally in every (capacity, layout): the hash may depend on size() and the characters only
template <class CT> struct ct_name;
template <> struct ct_name<char> { static const char* get() { return "char"; } };
template <> struct ct_name<char16_t> { static const char* get() { return "char16_t"; } };
template <> struct ct_name<char32_t> { static const char* get() { return "char32_t"; } };
template <> struct ct_name<wchar_t> { static const char* get() { return "wchar_t"; } };

template <class CT>
static std::basic_string<CT> wide_content(std::size_t L)
{
    std::basic_string<CT> s(L, CT(1));
    for (std::size_t i = 0; i < L; ++i)
    {
        CT v = CT((uint32_t(i + 1) * 2654435761u) >> 8);   // all characters of a string differ in their low bytes, high bytes are used
        s[i] = v == CT(0) ? CT(1) : v;
    }
    return s;
}

struct WObs { std::string layout, where; uint64_t h; };

template <class CT, std::size_t N, int ST>
static void fsw_type(const char* layout, const std::basic_string<CT>& c, std::vector<WObs>& out)
{
    if (c.size() > N) return;
    typedef xtl::xbasic_fixed_string<CT, N, ST> S;
    for (int h = 0; h < 2; ++h)
    {
        S* s = new S();
        const char* hn;
        if (h == 0) { hn = "S(ptr,len)"; *s = S(c.data(), c.size()); }
        else
        {
            hn = "S(\"ZZ..\").assign(ptr,len)";
            std::basic_string<CT> z(std::min<std::size_t>(N, 70), CT('Z'));
            *s = S(z.data(), z.size());
            s->assign(c.data(), c.size());
        }
        bool valid = s->size() == c.size() && std::equal(c.begin(), c.end(), s->data());
        if (valid)
        {
            WObs o;
            o.layout = layout;
            o.where = std::string("xbasic_fixed_string<") + ct_name<CT>::get() + "," + num((long long)N) + "> (" + layout + " layout) built by " + hn;
            o.h = uint64_t(std::hash<S>()(*s));
            out.push_back(o);
        }
        else ++g_fs_skipped;
        delete s;
    }
}

enum { ST_PACKED = xtl::buffer | xtl::store_size, ST_FIELD = 64, ST_STRLEN = xtl::buffer };

template <class CT>
static void fsw_judge(const std::basic_string<CT>& c, const std::vector<WObs>& o, bool verbose)
{
    for (std::size_t i = 0; i < o.size(); ++i)
    {
        ++g_evals;
        if (verbose) std::printf("%s -> %s\n", o[i].where.c_str(), h64(o[i].h).c_str());
        if (i > 0 && o[i].h != o[0].h)
        {
            std::string first;
            for (std::size_t k = 0; k < std::min<std::size_t>(c.size(), 6); ++k) first += (k ? " " : "") + h64(uint64_t(typename std::make_unsigned<CT>::type(c[k])));
            vf::violation(std::string("C14/std::hash<fixed_string>/") + ct_name<CT>::get() + "," + o[i].layout + "/differs-for-equal-strings",
                          std::string("the ") + num((long long)c.size()) + "-character " + ct_name<CT>::get() + " string (characters " + first + " ..) hashes to " + h64(o[i].h) + " as " +
                              o[i].where + " but to " + h64(o[0].h) + " as " + o[0].where + " (both compare equal to the intended characters)",
                          {"--fsw-one", ct_name<CT>::get(), num((long long)c.size())});
        }
    }
    if (c.size() >= 1) ++g_distinct;
}

// character types of more than one byte: packed layout (size in the last element) and size-field layout
template <class CT>
static void fsw_len16(std::size_t L, bool verbose)
{
    std::basic_string<CT> c = wide_content<CT>(L);
    std::vector<WObs> o;
    fsw_type<CT, 300, ST_FIELD>("size-field", c, o);
    fsw_type<CT, 300, ST_PACKED>("packed", c, o);
    fsw_type<CT, 255, ST_PACKED>("packed", c, o);
    fsw_type<CT, 255, ST_FIELD>("size-field", c, o);
    fsw_type<CT, 40, ST_PACKED>("packed", c, o);
    fsw_type<CT, 40, ST_FIELD>("size-field", c, o);
    fsw_type<CT, 16, ST_PACKED>("packed", c, o);
    fsw_type<CT, 16, ST_FIELD>("size-field", c, o);
    fsw_type<CT, 15, ST_PACKED>("packed", c, o);
    fsw_type<CT, 15, ST_FIELD>("size-field", c, o);
    fsw_type<CT, 8, ST_PACKED>("packed", c, o);
    fsw_type<CT, 8, ST_FIELD>("size-field", c, o);
    fsw_type<CT, 65536, ST_PACKED>("size-field (the library's own choice for N >= 65536)", c, o);
    fsw_judge<CT>(c, o, verbose);
}
// 4-byte character types: only the size-field layout is well-formed on this tree (the packed one needs 1u << 32)
template <class CT>
static void fsw_len32(std::size_t L, bool verbose)
{
    std::basic_string<CT> c = wide_content<CT>(L);
    std::vector<WObs> o;
    fsw_type<CT, 300, ST_FIELD>("size-field", c, o);
    fsw_type<CT, 255, ST_FIELD>("size-field", c, o);
    fsw_type<CT, 40, ST_FIELD>("size-field", c, o);
    fsw_type<CT, 16, ST_FIELD>("size-field", c, o);
    fsw_type<CT, 15, ST_FIELD>("size-field", c, o);
    fsw_type<CT, 8, ST_FIELD>("size-field", c, o);
    fsw_judge<CT>(c, o, verbose);
}
static void fsw_len8(std::size_t L, bool verbose)
{
    std::basic_string<char> c = wide_content<char>(L);
    std::vector<WObs> o;
    fsw_type<char, 300, ST_PACKED>("size-field (the library's own choice for N >= 256)", c, o);
    fsw_type<char, 300, ST_STRLEN>("strlen", c, o);
    fsw_type<char, 255, ST_PACKED>("packed", c, o);
    fsw_type<char, 255, ST_FIELD>("size-field", c, o);
    fsw_type<char, 255, ST_STRLEN>("strlen", c, o);
    fsw_type<char, 40, ST_PACKED>("packed", c, o);
    fsw_type<char, 40, ST_FIELD>("size-field", c, o);
    fsw_type<char, 40, ST_STRLEN>("strlen", c, o);
    fsw_type<char, 16, ST_PACKED>("packed", c, o);
    fsw_type<char, 16, ST_FIELD>("size-field", c, o);
    fsw_type<char, 16, ST_STRLEN>("strlen", c, o);
    fsw_type<char, 15, ST_PACKED>("packed", c, o);
    fsw_type<char, 15, ST_FIELD>("size-field", c, o);
    fsw_type<char, 15, ST_STRLEN>("strlen", c, o);
    fsw_type<char, 8, ST_PACKED>("packed", c, o);
    fsw_type<char, 8, ST_FIELD>("size-field", c, o);
    fsw_type<char, 8, ST_STRLEN>("strlen", c, o);
    fsw_judge<char>(c, o, verbose);
}
static void fsw_one(const std::string& ct, std::size_t L, bool verbose)
{
    if (ct == "char") fsw_len8(L, verbose);
    else if (ct == "char16_t") fsw_len16<char16_t>(L, verbose);
    else if (ct == "char32_t") fsw_len32<char32_t>(L, verbose);
    else if (ct == "wchar_t") fsw_len32<wchar_t>(L, verbose);
    else { std::fprintf(stderr, "unknown character type %s\n", ct.c_str()); std::exit(2); }
}
static void part_fswide()
{
    const char* cts[4] = {"char", "char16_t", "char32_t", "wchar_t"};
    for (const char* ct : cts)
        for (std::size_t L = 0; L <= 64; ++L) fsw_one(ct, L, false);
    vf::stat("fs_wide_strings", 4 * 65);
    vf::stat("fs_layout_skipped_string_not_as_intended", g_fs_skipped);
    vf::sample("std::hash of the equal char16_t strings of every length 0..64 in capacities 8,15,16,40,255,300,65536 x {packed, size-field} layouts, built 2 ways -> one value per string "
               "(same for char incl. the strlen layout, and for char32_t / wchar_t in the size-field layout)", 12);
}

static std::vector<int> parse_list(const std::string& s);

// ------------------------------------------------------------------------------------------------ part: hist (history of the HASHER object)
// "std::hash of xbasic_fixed_string depends only on size() and the characters": not on what the same std::hash object was asked
// before, not on which object at which address held which characters earlier.  Every other part hashes each string once with a
// fresh std::hash<S>() temporary, so the hasher object never had a history.  Here ALL operation sequences up to a depth bound over
// two hasher objects h0, h1 and two string objects s0, s1 (living at two fixed addresses) are executed; the value of every hash
// call must equal the value a fresh hasher gives for a freshly constructed equal string.
enum { HO_HASH = 0, HO_SET, HO_ASSIGN, HO_COPY, HO_SWAP, HO_PUSH, HO_POP, HO_RECON, HO_HCOPY, HO_HFRESH };
struct HistOp { int kind, a, b, c; };
static const int HIST_L = 3;                                                   // model bound on the string length
static const char* const HIST_CONTENT[5] = {"", "a", "b", "ab", "bb"};         // letters; 'b' stands for a character with the high bit(s) set
static const char* const HIST_INIT = "ab";                                     // both strings start as S("ab")

static const std::vector<HistOp>& hist_alphabet()
{
    static std::vector<HistOp> al;
    if (!al.empty()) return al;
    for (int i = 0; i < 2; ++i) for (int j = 0; j < 2; ++j) al.push_back(HistOp{HO_HASH, i, j, 0});                                     // h_i(s_j)
    for (int j = 0; j < 2; ++j) for (int p = 0; p < 2; ++p) for (int c = 0; c < 2; ++c) al.push_back(HistOp{HO_SET, j, p, c});          // s_j[p] = c   (in place, size kept)
    for (int j = 0; j < 2; ++j) for (int k = 0; k < 5; ++k) al.push_back(HistOp{HO_ASSIGN, j, k, 0});                                   // s_j.assign(content k)
    for (int j = 0; j < 2; ++j) al.push_back(HistOp{HO_COPY, j, 0, 0});                                                                 // s_j = s_(1-j)
    al.push_back(HistOp{HO_SWAP, 0, 0, 0});                                                                                              // s_0.swap(s_1)
    for (int j = 0; j < 2; ++j) for (int c = 0; c < 2; ++c) al.push_back(HistOp{HO_PUSH, j, c, 0});                                     // s_j.push_back(c)
    for (int j = 0; j < 2; ++j) al.push_back(HistOp{HO_POP, j, 0, 0});                                                                  // s_j.pop_back()
    for (int j = 0; j < 2; ++j) for (int k = 0; k < 5; ++k) al.push_back(HistOp{HO_RECON, j, k, 0});                                    // destroy s_j, construct S(content k) at the same address
    for (int i = 0; i < 2; ++i) al.push_back(HistOp{HO_HCOPY, i, 0, 0});                                                                // h_i = h_(1-i)
    for (int i = 0; i < 2; ++i) al.push_back(HistOp{HO_HFRESH, i, 0, 0});                                                               // h_i = std::hash<S>()
    return al;
}
static std::string hist_op_text(const HistOp& o)
{
    const std::string s = "s" + num(o.a), q = "'";
    const char letter[2] = {'a', 'b'};
    switch (o.kind)
    {
    case HO_HASH: return "h" + num(o.a) + "(s" + num(o.b) + ")";
    case HO_SET: return s + "[" + num(o.b) + "] = " + q + letter[o.c] + q;
    case HO_ASSIGN: return s + ".assign(\"" + HIST_CONTENT[o.b] + "\", " + num((long long)std::strlen(HIST_CONTENT[o.b])) + ")";
    case HO_COPY: return s + " = s" + num(1 - o.a);
    case HO_SWAP: return "s0.swap(s1)";
    case HO_PUSH: return s + ".push_back(" + q + letter[o.b] + q + ")";
    case HO_POP: return s + ".pop_back()";
    case HO_RECON: return s + ".~S(); new (&" + s + ") S(\"" + HIST_CONTENT[o.b] + "\", " + num((long long)std::strlen(HIST_CONTENT[o.b])) + ")";
    case HO_HCOPY: return "h" + num(o.a) + " = h" + num(1 - o.a);
    default: return "h" + num(o.a) + " = std::hash<S>()";
    }
}
// the operation on the model (strings of letters); false: not enabled in this state
static bool hist_model(const HistOp& o, std::string m[2])
{
    const char letter[2] = {'a', 'b'};
    switch (o.kind)
    {
    case HO_SET: if (std::size_t(o.b) >= m[o.a].size()) return false; m[o.a][std::size_t(o.b)] = letter[o.c]; return true;
    case HO_ASSIGN: case HO_RECON: m[o.a] = HIST_CONTENT[o.b]; return true;
    case HO_COPY: m[o.a] = m[1 - o.a]; return true;
    case HO_SWAP: std::swap(m[0], m[1]); return true;
    case HO_PUSH: if (m[o.a].size() >= std::size_t(HIST_L)) return false; m[o.a] += letter[o.b]; return true;
    case HO_POP: if (m[o.a].empty()) return false; m[o.a].erase(m[o.a].size() - 1); return true;
    default: return true;
    }
}
template <class CT> static CT hist_b();
template <> char hist_b<char>() { return char(0x80); }
template <> char16_t hist_b<char16_t>() { return char16_t(0x8081); }
template <> char32_t hist_b<char32_t>() { return char32_t(0x80818283u); }
template <> wchar_t hist_b<wchar_t>() { return wchar_t(0x80818283u); }

static long long g_hist_histories = 0, g_hist_invalid = 0;

template <class S>
struct HistRun
{
    typedef typename S::value_type CT;
    static std::basic_string<CT> conv(const std::string& m)
    {
        std::basic_string<CT> r;
        for (char l : m) r += l == 'a' ? CT('a') : hist_b<CT>();
        return r;
    }
    static uint64_t canon(const std::string& m)
    {
        static std::vector<std::pair<std::string, uint64_t> > cache;
        for (const auto& x : cache) if (x.first == m) return x.second;
        const std::basic_string<CT> c = conv(m);
        S* t = new S(c.data(), c.size());
        const uint64_t h = uint64_t(std::hash<S>()(*t));
        delete t;
        cache.push_back(std::make_pair(m, h));
        return h;
    }
    // executes the history on two strings at two fixed addresses and two hasher objects; the last operation must be a hash call
    static uint64_t exec(const int* seq, int n, bool& valid, std::string* observed_model, bool verbose)
    {
        const std::vector<HistOp>& al = hist_alphabet();
        alignas(16) static unsigned char slot[2][sizeof(S)];
        const std::basic_string<CT> init = conv(HIST_INIT);
        S* s[2] = {new (slot[0]) S(init.data(), init.size()), new (slot[1]) S(init.data(), init.size())};
        std::hash<S> h[2];
        std::string m[2] = {HIST_INIT, HIST_INIT};
        uint64_t last = 0;
        for (int k = 0; k < n; ++k)
        {
            const HistOp& o = al[std::size_t(seq[k])];
            hist_model(o, m);
            switch (o.kind)
            {
            case HO_HASH:
                last = uint64_t(h[o.a](*s[o.b]));
                if (verbose) std::printf("  %s -> %s (string \"%s\"; fresh hasher on a fresh equal string: %s)\n", hist_op_text(o).c_str(), h64(last).c_str(), m[o.b].c_str(), h64(canon(m[o.b])).c_str());
                break;
            case HO_SET: (*s[o.a])[std::size_t(o.b)] = o.c == 0 ? CT('a') : hist_b<CT>(); break;
            case HO_ASSIGN: { const std::basic_string<CT> c = conv(HIST_CONTENT[o.b]); s[o.a]->assign(c.data(), c.size()); break; }
            case HO_COPY: *s[o.a] = *s[1 - o.a]; break;
            case HO_SWAP: s[0]->swap(*s[1]); break;
            case HO_PUSH: s[o.a]->push_back(o.b == 0 ? CT('a') : hist_b<CT>()); break;
            case HO_POP: s[o.a]->pop_back(); break;
            case HO_RECON: { const std::basic_string<CT> c = conv(HIST_CONTENT[o.b]); s[o.a]->~S(); s[o.a] = new (slot[o.a]) S(c.data(), c.size()); break; }
            case HO_HCOPY: h[o.a] = h[1 - o.a]; break;
            default: h[o.a] = std::hash<S>(); break;
            }
        }
        const HistOp& lo = al[std::size_t(seq[n - 1])];
        const std::basic_string<CT> want = conv(m[lo.b]);
        // whether the string has the intended value is C01's business; C14 only speaks about strings that ARE equal
        valid = s[lo.b]->size() == want.size() && std::equal(want.begin(), want.end(), s[lo.b]->data());
        *observed_model = m[lo.b];
        s[0]->~S();
        s[1]->~S();
        return last;
    }
    static void judge(const char* tname, const int* seq, int n, bool verbose)
    {
        const std::vector<HistOp>& al = hist_alphabet();
        bool valid = false;
        std::string m;
        const uint64_t got = exec(seq, n, valid, &m, verbose);
        ++g_hist_histories;
        if (!valid) { ++g_hist_invalid; return; }
        ++g_evals;
        const uint64_t exp = canon(m);
        if (got == exp) return;
        std::string hist, code;
        for (int k = 0; k < n; ++k) { hist += (k ? "; " : "") + hist_op_text(al[std::size_t(seq[k])]); code += (k ? "," : "") + num(seq[k]); }
        const std::basic_string<CT> c = conv(m);
        vf::violation(std::string("C14/std::hash<fixed_string>/") + tname + "/depends-on-hasher-history",
                      std::string("S = ") + tname + "; S s0(\"ab\", 2), s1(\"ab\", 2); std::hash<S> h0, h1; ('b' = the character " + h64(uint64_t(typename std::make_unsigned<CT>::type(hist_b<CT>()))) +
                          ") history: " + hist + " -> the last call returned " + h64(got) + " for the string \"" + m + "\" (" + num((long long)m.size()) + " characters, bytes " +
                          spaced(reinterpret_cast<const uint8_t*>(c.data()), c.size() * sizeof(CT)) + "), but std::hash<S>() of a freshly constructed equal string gives " + h64(exp),
                      {"--hist-one", tname, code});
    }
    // all histories of exactly `depth` operations whose last one is a hash call (shorter ones are the histories of smaller depth)
    static void dfs(const char* tname, int* seq, int pos, int depth, const std::string m[2], int shard, int nshard)
    {
        const std::vector<HistOp>& al = hist_alphabet();
        for (std::size_t i = 0; i < al.size(); ++i)
        {
            if (pos == 0 && int(i % std::size_t(nshard)) != shard) continue;
            if (pos == depth - 1 && al[i].kind != HO_HASH) continue;
            std::string m2[2] = {m[0], m[1]};
            if (!hist_model(al[i], m2)) continue;
            seq[pos] = int(i);
            if (pos == depth - 1) judge(tname, seq, depth, false);
            else dfs(tname, seq, pos + 1, depth, m2, shard, nshard);
        }
    }
    static void run(const char* tname, int maxdepth, int shard, int nshard)
    {
        int seq[16];
        const std::string m[2] = {HIST_INIT, HIST_INIT};
        for (int d = 1; d <= maxdepth && !out_of_time(); ++d) dfs(tname, seq, 0, d, m, shard, nshard);
    }
};

typedef xtl::xbasic_fixed_string<char16_t, 3> FS_W16P3;
typedef xtl::xbasic_fixed_string<char16_t, 3, 64> FS_W16F3;
typedef xtl::xbasic_fixed_string<char32_t, 3, 64> FS_W32F3;
static const char* const HIST_TYPES[6] = {"xbasic_fixed_string<char,3>", "xbasic_fixed_string<char,256>", "xbasic_fixed_string<char,3,buffer>",
                                          "xbasic_fixed_string<char16_t,3>", "xbasic_fixed_string<char16_t,3,size-field>", "xbasic_fixed_string<char32_t,3,size-field>"};
static void hist_dispatch(int t, int maxdepth, int shard, int nshard, const int* one, int none, bool verbose)
{
    switch (t)
    {
    case 0: if (one) HistRun<FS_P3>::judge(HIST_TYPES[t], one, none, verbose); else HistRun<FS_P3>::run(HIST_TYPES[t], maxdepth, shard, nshard); break;
    case 1: if (one) HistRun<FS_F256>::judge(HIST_TYPES[t], one, none, verbose); else HistRun<FS_F256>::run(HIST_TYPES[t], maxdepth, shard, nshard); break;
    case 2: if (one) HistRun<FS_S3>::judge(HIST_TYPES[t], one, none, verbose); else HistRun<FS_S3>::run(HIST_TYPES[t], maxdepth, shard, nshard); break;
    case 3: if (one) HistRun<FS_W16P3>::judge(HIST_TYPES[t], one, none, verbose); else HistRun<FS_W16P3>::run(HIST_TYPES[t], maxdepth, shard, nshard); break;
    case 4: if (one) HistRun<FS_W16F3>::judge(HIST_TYPES[t], one, none, verbose); else HistRun<FS_W16F3>::run(HIST_TYPES[t], maxdepth, shard, nshard); break;
    default: if (one) HistRun<FS_W32F3>::judge(HIST_TYPES[t], one, none, verbose); else HistRun<FS_W32F3>::run(HIST_TYPES[t], maxdepth, shard, nshard); break;
    }
}
static void part_hist(int maxdepth, int shard, int nshard)
{
    if (maxdepth < 1 || maxdepth > 8) { std::fprintf(stderr, "bounds out of range\n"); std::exit(2); }
    for (int t = 0; t < 6; ++t) hist_dispatch(t, maxdepth, shard, nshard, nullptr, 0, false);
    if (out_of_time()) vf::cap("hasher-history part shard " + num(shard) + "/" + num(nshard) + " stopped by its deadline");
    else vf::stat("hist_shards_completed", 1);
    vf::stat("hist_histories", g_hist_histories);
    vf::stat("hist_skipped_string_not_as_intended", g_hist_invalid);
    vf::smax("hist_max_depth", maxdepth);
    vf::smax("hist_alphabet_size", (long long)hist_alphabet().size());
    vf::smax("hist_string_types", 6);
    if (shard == 0)
        vf::sample("hasher history: S s0(\"ab\"), s1(\"ab\"); std::hash<S> h0, h1; h0(s0); s0[0] = 'b'; h0(s0) -> the second call returns what a fresh std::hash<S>() gives for a fresh S(\"bb\") "
                   "(one of all histories of <= " + num(maxdepth) + " operations over " + num((long long)hist_alphabet().size()) + " operations, 6 string types)", 12);
}
static void hist_one(const std::string& tname, const std::string& code)
{
    std::vector<int> seq = parse_list(code);
    int t = -1;
    for (int k = 0; k < 6; ++k) if (tname == HIST_TYPES[k]) t = k;
    const std::vector<HistOp>& al = hist_alphabet();
    bool ok = t >= 0 && !seq.empty() && seq.size() <= 16;
    std::string m[2] = {HIST_INIT, HIST_INIT};
    for (std::size_t k = 0; ok && k < seq.size(); ++k) ok = seq[k] >= 0 && std::size_t(seq[k]) < al.size() && hist_model(al[std::size_t(seq[k])], m);
    if (!ok || al[std::size_t(seq.back())].kind != HO_HASH) { std::fprintf(stderr, "bad --hist-one arguments\n"); std::exit(2); }
    hist_dispatch(t, 0, 0, 1, seq.data(), int(seq.size()), true);
}

// ------------------------------------------------------------------------------------------------ reference self-test
static uint64_t ref32_as_f(const uint8_t* p, std::size_t n, uint64_t s) { return c14ref::murmur2_32(p, n, uint32_t(s)); }
static uint64_t ref64_as_f(const uint8_t* p, std::size_t n, uint64_t s) { return c14ref::murmur2_64a(p, n, s); }
static void selftest()
{
    uint32_t a = c14ref::smhasher_verification(ref32_as_f, 4), b = c14ref::smhasher_verification(ref64_as_f, 8);
    if (a != 0x27864C1Eu || b != 0x1F0D3804u)
    {
        std::fprintf(stderr, "reference self-test failed: SMHasher verification values %08x %08x (expected 27864c1e 1f0d3804)\n", a, b);
        std::exit(2);
    }
}

static std::vector<int> parse_list(const std::string& s)
{
    std::vector<int> v;
    std::size_t i = 0;
    while (i < s.size())
    {
        std::size_t j = s.find(',', i);
        if (j == std::string::npos) j = s.size();
        v.push_back(std::atoi(s.substr(i, j - i).c_str()));
        i = j + 1;
    }
    return v;
}

int main(int argc, char** argv)
{
    g_t0 = now_s();
#ifdef VERIF_ASAN
    __asan_set_error_report_callback(asan_report_cb);
#endif
    selftest();
    std::string part = "main";
    std::size_t lmin = 0, lmax = 39, len = 3, lmain = 0;
    bool pairs = false, wide = false, two_seeds = false;
    int shard = 0, nshard = 1, naligns = 16, depth = 4;
    bool band = false;
    std::vector<int> ks = {31, 32}, ds = {0, 13}, aoffs = {1};
    std::vector<std::pair<int, int> > hlens;
    Dims d;
    d.placements = {'R', 'M'};
    d.aligns = {0, 1, 2, 3, 4, 5, 6, 7};
    d.fills = {0x00, 0xff};
    for (int i = 1; i < argc; ++i)
    {
        std::string a = argv[i];
        if (a == "--part") part = argv[++i];
        else if (a == "--lmin") lmin = std::size_t(std::atoi(argv[++i]));
        else if (a == "--lmax") lmax = std::size_t(std::atoi(argv[++i]));
        else if (a == "--len") len = std::size_t(std::atoi(argv[++i]));
        else if (a == "--pairs") pairs = std::atoi(argv[++i]) != 0;
        else if (a == "--wide-seeds") wide = std::atoi(argv[++i]) != 0;
        else if (a == "--two-seeds") two_seeds = std::atoi(argv[++i]) != 0;
        else if (a == "--shard") { shard = std::atoi(argv[i + 1]); nshard = std::atoi(argv[i + 2]); i += 2; }
        else if (a == "--deadline") g_deadline = std::atof(argv[++i]);
        else if (a == "--placements") { std::string s = argv[++i]; d.placements.assign(s.begin(), s.end()); }
        else if (a == "--aligns") d.aligns = parse_list(argv[++i]);
        else if (a == "--fills") d.fills = parse_list(argv[++i]);
        else if (a == "--one")
        {
            part_one(fn_by_name(argv[i + 1]), std::strtoull(argv[i + 2], nullptr, 0), std::atoi(argv[i + 3]), std::atoi(argv[i + 4]), argv[i + 5][0], unhex(argv[i + 6]));
            part = "";
            i += 6;
        }
        else if (a == "--guard-one")
        {
            GCase g{fn_by_name(argv[i + 1]), std::size_t(std::atoi(argv[i + 2])), std::atoi(argv[i + 3]), std::strtoull(argv[i + 4], nullptr, 0), std::atoi(argv[i + 5])};
            run_guard(std::vector<GCase>(1, g));
            part = "";
            i += 5;
        }
        else if (a == "--fs-one") { fs_content(unhex(argv[++i]), true); part = ""; }
        else if (a == "--fsw-one") { fsw_one(argv[i + 1], std::size_t(std::atoi(argv[i + 2])), true); part = ""; i += 2; }
        else if (a == "--fs-long-one") { fs_long_len(std::size_t(std::atoi(argv[++i])), true); part = ""; }
        else if (a == "--depth") depth = std::atoi(argv[++i]);
        else if (a == "--hist-one") { hist_one(argv[i + 1], argv[i + 2]); part = ""; i += 2; }
        else if (a == "--naligns") naligns = std::atoi(argv[++i]);
        else if (a == "--band") band = std::atoi(argv[++i]) != 0;
        else if (a == "--ks") ks = parse_list(argv[++i]);
        else if (a == "--ds") ds = parse_list(argv[++i]);
        else if (a == "--aoffs") aoffs = parse_list(argv[++i]);
        else if (a == "--hlens")   // k:d,k:d,.. = the lengths 2^k + d
        {
            std::string l = argv[++i];
            std::size_t p = 0;
            while (p < l.size())
            {
                std::size_t q = l.find(',', p);
                if (q == std::string::npos) q = l.size();
                std::string e = l.substr(p, q - p);
                std::size_t c = e.find(':');
                if (c == std::string::npos) { std::fprintf(stderr, "bad --hlens entry %s\n", e.c_str()); return 2; }
                hlens.push_back(std::make_pair(std::atoi(e.substr(0, c).c_str()), std::atoi(e.substr(c + 1).c_str())));
                p = q + 1;
            }
        }
        else if (a == "--huge-one")
        {
            huge_one(fn_by_name(argv[i + 1]), std::strtoull(argv[i + 2], nullptr, 0), argv[i + 3], std::strtoull(argv[i + 4], nullptr, 0));
            part = "";
            i += 4;
        }
        else if (a == "--lmain") lmain = std::size_t(std::atoi(argv[++i]));
        else if (a == "--long-one")
        {
            long_one(fn_by_name(argv[i + 1]), std::strtoull(argv[i + 2], nullptr, 0), std::atoi(argv[i + 3]), std::atoi(argv[i + 4]), std::size_t(std::atoi(argv[i + 5])), true);
            part = "";
            i += 5;
        }
        else { std::fprintf(stderr, "unknown argument %s\n", a.c_str()); return 2; }
    }
    if ((part != "long" && lmax > 120) || lmax > (band ? (1u << 26) : 100000u) || naligns < 1 || naligns > 16 || (part == "full" && (len < 1 || len > 4))) { std::fprintf(stderr, "bounds out of range\n"); return 2; }
    if (part == "main") part_main(lmin, lmax, pairs, wide, shard, nshard, d);
    else if (part == "full") part_full(len, pairs, two_seeds, shard, nshard, d);
    else if (part == "guard") part_guard(lmax, wide);
    else if (part == "fs") part_fs();
    else if (part == "long") part_long(lmin, lmax, lmain, naligns, wide, shard, nshard, band);
    else if (part == "huge")
    {
        for (int k : ks) if (k < 20 || k > 33) { std::fprintf(stderr, "bounds out of range\n"); return 2; }
        for (int d : ds) if (d < -64 || d > 64) { std::fprintf(stderr, "bounds out of range\n"); return 2; }
        for (int o : aoffs) if (o < 0 || o > 15) { std::fprintf(stderr, "bounds out of range\n"); return 2; }
        for (const auto& x : hlens) if (x.first < 20 || x.first > 33 || x.second < -64 || x.second > 64) { std::fprintf(stderr, "bounds out of range\n"); return 2; }
        part_huge(hlens, ks, ds, aoffs, two_seeds, shard, nshard);
    }
    else if (part == "fslong") part_fslong();
    else if (part == "fswide") part_fswide();
    else if (part == "hist") part_hist(depth, shard, nshard);
    else if (part != "") { std::fprintf(stderr, "unknown part %s\n", part.c_str()); return 2; }
    for (int fn = 0; fn < NFN; ++fn)
        for (int c = 0; c < 8; ++c)
            for (int k = 0; k < NKIND; ++k)
                if (g_occ[fn][c][k] > 1)
                    vf::note(std::string("C14/") + FN_NAME[fn] + "/" + cls_name(fn, std::size_t(c)) + "/" + KIND_NAME[k] + ": " + num(g_occ[fn][c][k]) + " failing evaluations in one harness process");
    vf::stat("evaluations", g_evals);
    vf::stat("distinct_nontrivial", g_distinct);
    if (g_skipped)
    {
        vf::stat("evaluations_skipped_after_asan_report_in_same_class", g_skipped);
        vf::cap("after an AddressSanitizer report the remaining evaluations of the same (function, length class, placement) were skipped in this process");
    }
    if (g_asan_reports) vf::stat("asan_reports", g_asan_reports);
    vf::done();
    return 0;
}
