// C14, ALIAS part, driver translation unit (always g++ -O0, no sanitizer, NO xtl header - see alias_iface.hpp).
// Enumerates  element type T (the lvalue type through which the key bytes were last written)  x  function  x  shape (where the
// array lives / how the call is made)  x  element count  x  value set  x  seed, calls the scenario of alias_scen.cpp (compiled by
// the compiler / optimisation level under test) and compares every returned hash with refs/C14_murmur_ref.hpp evaluated here,
// byte by byte, over a byte copy of the values (memcpy) - so what the optimiser did to the scenario cannot reach the oracle.
#include "alias_iface.hpp"
#include "report.hpp"
#include "C14_murmur_ref.hpp"

#include <algorithm>
#include <cmath>
#include <cstdint>
#include <cstdio>
#include <cstdlib>
#include <cstring>
#include <string>
#include <vector>

static const char* const FN_NAME[3] = {"hash_bytes", "murmur2_x86", "murmur2_x64"};
static const char* const REF_NAME[3] = {"MurmurHash64A", "MurmurHash2", "MurmurHash64A"};
static const char* const SHAPE_NAME[C14_NSHAPE] = {"local1", "local", "static", "heap", "viacall", "param", "loop", "loopparam"};
static const char* const SHAPE_TEXT[C14_NSHAPE] = {
    "T a[n] is a local array of the calling function, which runs step 0 only",
    "T a[n] is a local array of the calling function",
    "T a[n] is a function-local static array",
    "a = (T*)malloc(n * sizeof(T)) in the calling function",
    "T a[n] is a local array, the hash function is called through a non-inlined function of the same translation unit",
    "a points to the caller's malloc'ed array, n is a run-time value",
    "T a[n] is a local array of the calling function, which runs a loop around (store one element; hash)",
    "a points to the caller's malloc'ed array, n and the trip count of the loop around (store one element; hash) are run-time values"};
static bool is_loop(int shape) { return shape == C14_SH_LOOP || shape == C14_SH_LOOPPARAM; }
static bool is_param(int shape) { return shape == C14_SH_PARAM || shape == C14_SH_LOOPPARAM; }
static const int NVS = 3;

static std::string h64(uint64_t v) { char b[24]; std::snprintf(b, sizeof b, "0x%llx", (unsigned long long)v); return b; }
static std::string num(long long v) { return std::to_string(v); }
static std::string spaced(const uint8_t* p, std::size_t n)
{
    std::string s = "[";
    char b[4];
    for (std::size_t i = 0; i < n; ++i) { std::snprintf(b, sizeof b, "%02x", p[i]); if (i) s += ' '; s += b; }
    return s + "]";
}
static std::string short_type(const char* t)
{
    std::string s(t);
    std::size_t p = s.find(" (");
    if (p != std::string::npos) s = s.substr(0, p);
    p = s.find(" {");
    if (p != std::string::npos) s = s.substr(0, p);
    return s;
}

static uint64_t ref(int fn, const uint8_t* p, std::size_t n, uint64_t seed)
{
    if (fn == 1) return c14ref::murmur2_32(p, n, uint32_t(seed));
    return c14ref::murmur2_64a(p, n, seed);
}
static uint64_t ref32_as_f(const uint8_t* p, std::size_t n, uint64_t s) { return c14ref::murmur2_32(p, n, uint32_t(s)); }
static uint64_t ref64_as_f(const uint8_t* p, std::size_t n, uint64_t s) { return c14ref::murmur2_64a(p, n, s); }

// ------------------------------------------------------------------------------------------------ values
// count values of the element type, as bytes (element stride = elem_size); integer kinds: any bit pattern is a value
static uint8_t pat_byte(int vs, std::size_t j)
{
    switch (vs)
    {
    case 0: return uint8_t((uint32_t(j / 4 + 1) * 2654435761u) >> (8 * (j % 4)));   // 32-bit word counter: all 4- and 8-byte blocks differ
    case 1: return uint8_t(0xff - (j & 0xff));
    default: return uint8_t((uint64_t(j + 1) * 0x9E3779B97F4A7C15ull) >> 56);
    }
}
static double real_value(int vs, std::size_t j)
{
    const double sign = (j % 2) ? -1.0 : 1.0;
    switch (vs)
    {
    case 0: return sign * 1.25 * double(j + 1);
    case 1: return sign * std::ldexp(1.0 + double(j % 61) / 64.0, int((j * 7) % 60) - 30);
    default: return 1.0 / double(j + 3);
    }
}
static std::vector<uint8_t> gen_values(int kind, int elem_size, int vs, std::size_t count)
{
    std::vector<uint8_t> v(count * std::size_t(elem_size), 0);
    for (std::size_t j = 0; j < count; ++j)
    {
        uint8_t* e = v.data() + j * std::size_t(elem_size);
        switch (kind)
        {
        case C14_K_INT:
            for (int b = 0; b < elem_size; ++b) e[b] = pat_byte(vs, j * std::size_t(elem_size) + std::size_t(b));
            break;
        case C14_K_FLOAT: { float x = float(real_value(vs, j)); std::memcpy(e, &x, 4); break; }
        case C14_K_DOUBLE: { double x = real_value(vs, j); std::memcpy(e, &x, 8); break; }
        case C14_K_LDOUBLE: { long double x = (long double)real_value(vs, j) * 1.0000000000000000001L + 1e-19L; std::memcpy(e, &x, 10); break; }   // padding bytes stay 0
        default:
        {
            c14_mixed m;
            std::memset(&m, 0, sizeof m);
            uint8_t raw[8];
            for (int b = 0; b < 8; ++b) raw[b] = pat_byte(vs, j * 8 + std::size_t(b));
            std::memcpy(&m.a, raw, 4);
            std::memcpy(&m.b, raw + 4, 2);
            m.c = raw[6];
            m.d = int8_t(raw[7]);
            m.e = real_value(vs, j);
            std::memcpy(e, &m, sizeof m);
            break;
        }
        }
    }
    return v;
}

// ------------------------------------------------------------------------------------------------ one scenario
static long long g_evals = 0, g_distinct = 0, g_scen = 0, g_stale = 0;
static const c14_scen* g_tab = nullptr;
static std::size_t g_ntab = 0;
static const c14_fs_scen* g_fstab = nullptr;
static std::size_t g_nfstab = 0;
static std::string g_build;

static std::vector<uint64_t> seeds_for(int fn)
{
    std::vector<uint64_t> s = {0, 0xc70f6907ull, fn == 1 ? 0xFFFFFFFFull : ~0ull};
    return s;
}

static const char* const STEP_TEXT[C14_NSTEPS] = {"step 0 (a[i] = v[i] for all i; hash)", "step 1 (a[i] = v[n+i] for all i; hash again)",
                                                  "step 2 (a[n/2] = v[2n]; hash again)", "step 3 (no store; hash again)"};
static std::string step_text(int shape, int s, int n)
{
    if (!is_loop(shape)) return STEP_TEXT[s];
    return "a[i] = init[i] for all i, then iteration " + num(s) + " of the loop { a[s % n] = v[s]; hash } (this iteration stores a[" + num(s % n) + "])";
}
static long long g_fail_by_shape[C14_NSHAPE];

// returns the number of failing steps
static int run_scen(const c14_scen& e, int n, int off, int nloop, int vs, uint64_t seed, bool verbose)
{
    const std::size_t es = std::size_t(e.elem_size);
    const std::size_t klen = e.key_elem_bytes == e.elem_size ? std::size_t(n) * es : std::size_t(e.key_elem_bytes);
    const bool loop = is_loop(e.shape);
    if (e.shape == C14_SH_LOOP) nloop = C14_NSTEPS;
    const std::vector<uint8_t> vals = gen_values(e.kind, e.elem_size, vs, loop ? std::size_t(nloop + n) : std::size_t(2 * n + 1));
    // the scenario reads the values through const T*: give it a malloc'ed, suitably aligned copy
    void* vmem = std::malloc(vals.size() + 16);
    std::memcpy(vmem, vals.data(), vals.size());
    unsigned char* base = nullptr;
    void* buf = nullptr;
    if (is_param(e.shape))
    {
        base = static_cast<unsigned char*>(std::malloc((std::size_t(n) + std::size_t(off)) * es + 16));
        std::memset(base, 0xA5, (std::size_t(n) + std::size_t(off)) * es + 16);
        buf = base + std::size_t(off) * es;
    }
    uint64_t out[C14_MAXSTEPS];
    for (int s = 0; s < C14_MAXSTEPS; ++s) out[s] = 0x5555aaaa5555aaaaull;
    e.f(buf, vmem, n, nloop, seed, out);
    ++g_scen;
    // expected key bytes after every step: a byte copy of the values
    std::vector<uint8_t> key(std::size_t(n) * es, 0), prev;
    const int nsteps = e.shape == C14_SH_LOCAL1 ? 1 : loop ? nloop : C14_NSTEPS;
    if (loop) std::memcpy(key.data(), vals.data() + std::size_t(nloop) * es, std::size_t(n) * es);
    int bad = 0;
    for (int s = 0; s < nsteps; ++s)
    {
        prev = key;
        if (loop) std::memcpy(key.data() + std::size_t(s % n) * es, vals.data() + std::size_t(s) * es, es);
        else if (s == 0) std::memcpy(key.data(), vals.data(), std::size_t(n) * es);
        else if (s == 1) std::memcpy(key.data(), vals.data() + std::size_t(n) * es, std::size_t(n) * es);
        else if (s == 2) std::memcpy(key.data() + std::size_t(n / 2) * es, vals.data() + std::size_t(2 * n) * es, es);
        const uint64_t exp = ref(e.fn, key.data(), klen, seed);
        ++g_evals;
        if (verbose) std::printf("%s: returned %s, reference %s\n", step_text(e.shape, s, n).c_str(), h64(out[s]).c_str(), h64(exp).c_str());
        if (out[s] == exp) continue;
        ++bad;
        const bool stale = (s > 0 || loop) && out[s] == ref(e.fn, prev.data(), klen, seed);
        if (stale) ++g_stale;
        const std::string ty = short_type(e.type);
        std::string sig = std::string("C14/") + FN_NAME[e.fn] + "/key-stored-as:" + ty + "/" + (stale ? "stale-value" : "wrong-value");
        std::string msg = std::string(FN_NAME[e.fn]) + "(a, " + num((long long)klen) + ", seed " + h64(seed) + ") of an array a of " + num(n) + " element(s) of type T = " + e.type +
                          " whose elements were last written through lvalues of type T (no barrier between the stores and the call; scenario compiled by " + g_build + "): " + SHAPE_TEXT[e.shape] +
                          (is_param(e.shape) ? " (a starts " + num((long long)(std::size_t(off) * es)) + " bytes into a 16-aligned block)" : std::string()) +
                          "; " + step_text(e.shape, s, n) + ": the key bytes are " + spaced(key.data(), klen) + ", returned " + h64(out[s]) + ", reference " + REF_NAME[e.fn] +
                          " over a byte copy of the same values gives " + h64(exp) +
                          (stale ? " - the returned value is the hash of the PREVIOUS contents " + spaced(prev.data(), klen) : std::string());
        vf::violation(sig, msg, {"--alias-one", ty, FN_NAME[e.fn], SHAPE_NAME[e.shape], num(n), num(off), num(nloop), num(vs), h64(seed)});
    }
    if (bad) ++g_fail_by_shape[e.shape];
    std::free(vmem);
    std::free(base);
    return bad;
}

// ------------------------------------------------------------------------------------------------ fixed strings
static std::vector<uint8_t> gen_chars(int ct_size, int vs, std::size_t count)
{
    std::vector<uint8_t> v(count * std::size_t(ct_size), 0);
    for (std::size_t j = 0; j < count; ++j)
    {
        uint8_t* e = v.data() + j * std::size_t(ct_size);
        bool zero = true;
        for (int b = 0; b < ct_size; ++b) { e[b] = pat_byte(vs, j * std::size_t(ct_size) + std::size_t(b) + 1); zero = zero && e[b] == 0; }
        if (zero) e[0] = 1;   // no NUL character (strlen layout)
        if (ct_size == 1 && e[0] == 0) e[0] = 1;
    }
    return v;
}
static const char* const FS_STEP_TEXT[C14_NSTEPS] = {"step 0 (S s(v, n); std::hash<S>()(s))", "step 1 (s[i] = v[n+i] for all i; std::hash<S>()(s))",
                                                     "step 2 (s.assign(v+2n, n); std::hash<S> h; h(s))", "step 3 (h(s) again)"};
static int run_fs(const c14_fs_scen& e, int vs, bool verbose)
{
    const std::vector<uint8_t> vals = gen_chars(e.ct_size, vs, std::size_t(3 * e.n));
    void* vmem = std::malloc(vals.size() + 16);
    std::memcpy(vmem, vals.data(), vals.size());
    uint64_t out[C14_NSTEPS], canon[C14_NSTEPS];
    for (int s = 0; s < C14_NSTEPS; ++s) { out[s] = 0x5555aaaa5555aaaaull; canon[s] = 0x3333cccc3333ccccull; }
    e.f(vmem, out, canon);
    ++g_scen;
    int bad = 0;
    for (int s = 0; s < C14_NSTEPS; ++s)
    {
        ++g_evals;
        if (verbose) std::printf("%s: returned %s, equal string built and hashed behind a compiler barrier %s\n", FS_STEP_TEXT[s], h64(out[s]).c_str(), h64(canon[s]).c_str());
        if (out[s] == canon[s]) continue;
        ++bad;
        const std::size_t bytes = std::size_t(e.n) * std::size_t(e.ct_size);
        const uint8_t* cur = vals.data() + std::size_t(s < 2 ? s : 2) * bytes;
        vf::violation(std::string("C14/std::hash<fixed_string>/chars-stored-as:") + e.ct + "/differs-for-equal-strings",
                      std::string("std::hash of S = ") + e.type + " holding " + num(e.n) + " characters of type " + e.ct + " that were last written through the string's own interface "
                          "(no barrier between the stores and the hash call; scenario compiled by " + g_build + "); " + FS_STEP_TEXT[s] + ": the characters are (bytes) " + spaced(cur, bytes) +
                          ", returned " + h64(out[s]) + ", but an equal string constructed from the same characters and hashed behind a compiler barrier hashes to " + h64(canon[s]),
                      {"--alias-fs-one", e.type, num(e.n), num(vs)});
    }
    std::free(vmem);
    return bad;
}

// ------------------------------------------------------------------------------------------------ main
int main(int argc, char** argv)
{
    {
        uint32_t a = c14ref::smhasher_verification(ref32_as_f, 4), b = c14ref::smhasher_verification(ref64_as_f, 8);
        if (a != 0x27864C1Eu || b != 0x1F0D3804u) { std::fprintf(stderr, "reference self-test failed: %08x %08x\n", a, b); return 2; }
    }
    g_tab = c14_alias_table(&g_ntab);
    g_fstab = c14_alias_fs_table(&g_nfstab);
    g_build = c14_alias_build();
    int nmax = 12;
    std::vector<int> nloops = {4, 7};
    long long expect_entries = -1, expect_fs = -1;
    std::string part = "alias";
    for (int i = 1; i < argc; ++i)
    {
        std::string a = argv[i];
        if (a == "--part") part = argv[++i];
        else if (a == "--nmax") nmax = std::atoi(argv[++i]);
        else if (a == "--nloops") { nloops.clear(); for (const char* q = argv[++i]; *q;) { nloops.push_back(std::atoi(q)); while (*q && *q != ',') ++q; if (*q) ++q; } }
        else if (a == "--deadline") ++i;
        else if (a == "--expect") { expect_entries = std::atoll(argv[i + 1]); expect_fs = std::atoll(argv[i + 2]); i += 2; }
        else if (a == "--alias-one")
        {
            const std::string ty = argv[i + 1], fn = argv[i + 2], sh = argv[i + 3];
            const int n = std::atoi(argv[i + 4]), off = std::atoi(argv[i + 5]), nloop = std::atoi(argv[i + 6]), vs = std::atoi(argv[i + 7]);
            const uint64_t seed = std::strtoull(argv[i + 8], nullptr, 0);
            i += 8;
            part = "";
            bool found = false;
            for (std::size_t k = 0; k < g_ntab; ++k)
            {
                const c14_scen& e = g_tab[k];
                if (short_type(e.type) != ty || fn != FN_NAME[e.fn] || sh != SHAPE_NAME[e.shape]) continue;
                if (!is_param(e.shape) && e.n != n) continue;
                if (n < 1 || n > 4096 || off < 0 || off > 8 || vs < 0 || vs >= NVS || nloop < 1 || nloop > C14_MAXSTEPS) break;
                found = true;
                std::printf("scenario compiled by %s: T = %s, %s, n = %d, %s\n", g_build.c_str(), e.type, FN_NAME[e.fn], n, SHAPE_TEXT[e.shape]);
                run_scen(e, n, off, nloop, vs, seed, true);
                break;
            }
            if (!found) { std::fprintf(stderr, "no such scenario\n"); return 2; }
        }
        else if (a == "--alias-fs-one")
        {
            const std::string ty = argv[i + 1];
            const int n = std::atoi(argv[i + 2]), vs = std::atoi(argv[i + 3]);
            i += 3;
            part = "";
            bool found = false;
            for (std::size_t k = 0; k < g_nfstab; ++k)
                if (ty == g_fstab[k].type && n == g_fstab[k].n && vs >= 0 && vs < NVS) { found = true; run_fs(g_fstab[k], vs, true); break; }
            if (!found) { std::fprintf(stderr, "no such scenario\n"); return 2; }
        }
        else { std::fprintf(stderr, "unknown argument %s\n", a.c_str()); return 2; }
    }
    if (part == "alias")
    {
        if (nmax < 1 || nmax > 4096) { std::fprintf(stderr, "bounds out of range\n"); return 2; }
        for (int l : nloops) if (l < 1 || l > C14_MAXSTEPS) { std::fprintf(stderr, "bounds out of range\n"); return 2; }
        // the table of the scenario translation unit must be the complete product (a scenario that silently did not get compiled is an error)
        if ((expect_entries >= 0 && expect_entries != (long long)g_ntab) || (expect_fs >= 0 && expect_fs != (long long)g_nfstab))
        {
            std::fprintf(stderr, "scenario table has %zu + %zu entries, expected %lld + %lld\n", g_ntab, g_nfstab, expect_entries, expect_fs);
            return 2;
        }
        std::vector<std::string> types;
        long long failing = 0;
        for (std::size_t k = 0; k < g_ntab; ++k)
        {
            const c14_scen& e = g_tab[k];
            if (std::find(types.begin(), types.end(), std::string(e.type)) == types.end()) types.push_back(e.type);
            std::vector<int> ns(1, e.n), offs(1, 0), loops(1, C14_NSTEPS);
            if (e.shape == C14_SH_LOOPPARAM) loops = nloops;
            if (is_param(e.shape))
            {
                ns.clear();
                const int top = e.key_elem_bytes == e.elem_size ? nmax : 1;
                for (int n = 1; n <= top; ++n) ns.push_back(n);
                offs.push_back(1);
            }
            for (int n : ns)
                for (int off : offs)
                    for (int nloop : loops)
                        for (int vs = 0; vs < NVS; ++vs)
                            for (uint64_t seed : seeds_for(e.fn)) failing += run_scen(e, n, off, nloop, vs, seed, false) ? 1 : 0;
        }
        vf::stat("alias_scenario_functions", (long long)g_ntab);
        vf::stat("alias_element_types", (long long)types.size());
        for (std::size_t k = 0; k < g_nfstab; ++k)
            for (int vs = 0; vs < NVS; ++vs) failing += run_fs(g_fstab[k], vs, false) ? 1 : 0;
        vf::stat("alias_fixed_string_scenario_functions", (long long)g_nfstab);
        vf::stat("alias_scenario_runs", g_scen);
        vf::stat("alias_hash_calls", g_evals);
        vf::stat("alias_builds", 1);
        if (failing)
        {
            std::string by;
            for (int k = 0; k < C14_NSHAPE; ++k) by += std::string(k ? ", " : "") + SHAPE_NAME[k] + " " + num(g_fail_by_shape[k]);
            vf::note("ALIAS part, scenario build " + g_build + ": " + num(failing) + " of " + num(g_scen) + " scenario runs returned a value that differs from the reference (" + num(g_stale) +
                     " steps returned the hash of the previous contents); failing runs by shape: " + by);
        }
        vf::sample("ALIAS (" + g_build + "): murmur2_x86 / hash_bytes / murmur2_x64 of double a[5], float a[5], uint16_t a[6], long long a[3], ... whose elements were just stored through their own type, "
                   "store - hash - store - hash - poke - hash - hash in one function -> every value == reference over a byte copy", 12);
    }
    vf::stat("evaluations", g_evals);
    vf::stat("distinct_nontrivial", g_distinct);
    vf::done();
    return 0;
}
