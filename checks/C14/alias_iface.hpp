// C14, ALIAS part: interface between the scenario translation unit (alias_scen.cpp: includes the xtl headers, compiled once per
// compiler x optimisation level) and the driver translation unit (alias_main.cpp: always g++ -O0, does NOT include any xtl header,
// so that no second - unoptimised - copy of an inline xtl function can be picked by the linker).  Plain C types only.
#ifndef VERIF_C14_ALIAS_IFACE_HPP
#define VERIF_C14_ALIAS_IFACE_HPP

#include <cstddef>
#include <cstdint>

// a record of mixed members without padding (4 + 2 + 1 + 1 + 8 = 16 bytes): every byte of the object belongs to a member
struct c14_mixed
{
    uint32_t a;
    uint16_t b;
    uint8_t c;
    int8_t d;
    double e;
};
static_assert(sizeof(c14_mixed) == 16, "c14_mixed must not have padding");

// value kinds: how the driver may generate values of the element type
enum { C14_K_INT = 0, C14_K_FLOAT = 1, C14_K_DOUBLE = 2, C14_K_LDOUBLE = 3, C14_K_MIXED = 4 };

// shapes (what the optimiser sees together with the hash call), see alias_scen.cpp
enum { C14_SH_LOCAL1 = 0, C14_SH_LOCAL = 1, C14_SH_STATIC = 2, C14_SH_HEAP = 3, C14_SH_VIACALL = 4, C14_SH_PARAM = 5, C14_SH_LOOP = 6, C14_SH_LOOPPARAM = 7, C14_NSHAPE = 8 };

// the program every shape runs on its array a[0..n) with the values v[0..2n]  (LOCAL1: step 0 only):
//   step 0: a[i] = v[i] for all i;      out[0] = hash(a, n * sizeof(T), seed)
//   step 1: a[i] = v[n + i] for all i;  out[1] = hash(..)
//   step 2: a[n / 2] = v[2 * n];        out[2] = hash(..)
//   step 3: (no store)                  out[3] = hash(..)
enum { C14_NSTEPS = 4 };
// the LOOP / LOOPPARAM shapes run another program, a loop around (store one element; hash), with the values v[0..steps+n):
//   a[i] = v[steps + i] for all i;   for (s = 0; s < steps; ++s) { a[s % n] = v[s]; out[s] = hash(a, n * sizeof(T), seed); }
// (LOOP: steps == C14_NSTEPS at compile time; LOOPPARAM: steps is a run-time value <= C14_MAXSTEPS)
enum { C14_MAXSTEPS = 16 };

// buf: the caller's array (PARAM / LOOPPARAM shapes only, otherwise ignored); n: element count and steps: trip count (same shapes
// only, otherwise fixed by the entry)
typedef void (*c14_scen_fn)(void* buf, const void* vals, int n, int steps, uint64_t seed, uint64_t* out);

struct c14_scen
{
    const char* type;     // spelling of the element type T
    int elem_size;        // sizeof(T)
    int key_elem_bytes;   // bytes of one element that belong to the key (== sizeof(T), except long double: 10 value bytes)
    int kind;             // C14_K_*
    int fn;               // 0 hash_bytes, 1 murmur2_x86, 2 murmur2_x64
    int shape;            // C14_SH_*
    int n;                // element count fixed at compile time; 0: given at run time (PARAM / LOOPPARAM shapes)
    c14_scen_fn f;
};

// fixed strings: std::hash of a string whose characters were stored through CT lvalues (constructor, operator[], assign)
//   step 0: S s(v, n);                  out[0] = std::hash<S>()(s)
//   step 1: s[i] = v[n + i] for all i;  out[1] = ..
//   step 2: s.assign(v + 2 * n, n);     out[2] = ..
//   step 3: one hasher object h;        out[3] = h(s) again (no store)
// canon[k]: the same string contents built from scratch for every step in a function of its own, with a compiler barrier between
// the last store and the hash call (the optimiser cannot move a load of the hash across it)
typedef void (*c14_fs_fn)(const void* vals, uint64_t* out, uint64_t* canon);
struct c14_fs_scen
{
    const char* type;     // spelling of the string type
    const char* ct;       // character type
    int ct_size;
    int n;                // string length (fixed at compile time)
    c14_fs_fn f;
};

extern "C" const c14_scen* c14_alias_table(std::size_t* count);
extern "C" const c14_fs_scen* c14_alias_fs_table(std::size_t* count);
extern "C" const char* c14_alias_build();   // compiler version and optimisation macros as seen by the scenario translation unit

#endif
