// C01 / C02 (+ fixed-string part of C14): xbasic_fixed_string against std::basic_string — explicit-state BFS (engine E1).
//
// One instantiation per translation unit, selected by macros:
//   CFG_NAME "P3c-t"   CFG_CT char   CFG_N 3   CFG_ST (xtl::buffer|xtl::store_size) | xtl::buffer | 64 (size-field storage with small N)
//   CFG_THROW 0|1      CFG_LARGE 0|1 (boundary position alphabet instead of 0..N+2)
//
// Every operation is written ONCE as a generic lambda and applied to the real fixed string and to the
// std::basic_string model; both report what they returned (or which exception they threw) as text.
// Error kinds starting with "C02:" belong to property C02 (error transitions, guards), "C14:" to C14, the rest to C01.
#include <xtl/xbasic_fixed_string.hpp>

#include "explorer.hpp"

#include <cstring>
#include <list>
#include <memory>
#include <sstream>
#include <string>
#include <vector>

#ifndef CFG_LARGE
#define CFG_LARGE 0
#endif
// second character of the alphabet: 'b' by default, a byte >= 0x80 for the "h" instantiations (sign of plain char in
// comparisons, searches and the packed length byte)
#ifndef CFG_CH2
#define CFG_CH2 'b'
#endif

namespace xtl { namespace detail {
    // size-field storage for a small capacity: the library's own class, selected through an unused flag value
    template <>
    struct select_storage<64>
    {
        template <class T, std::size_t N>
        using type = fixed_string_storage_impl<T[N + 1]>;
    };
} }

using vf::Errs;
using vf::str;

typedef CFG_CT CT;
static const std::size_t N = CFG_N;
#if CFG_THROW
typedef xtl::xbasic_fixed_string<CT, CFG_N, CFG_ST, xtl::string_policy::throwing_error> F;
#else
typedef xtl::xbasic_fixed_string<CT, CFG_N, CFG_ST, xtl::string_policy::silent_error> F;
#endif
typedef std::basic_string<CT> M;
static const bool THROWING = CFG_THROW != 0;
static const bool STRLEN = (CFG_ST) == int(xtl::buffer);
static const bool IS_CHAR = std::is_same<CT, char>::value;
static const std::size_t npos = M::npos;

static_assert(std::is_trivially_copyable<F>::value, "worlds are copied bytewise");

template <class C>
static std::string txt(const C* p, std::size_t n)
{
    std::string o;
    for (std::size_t i = 0; i < n; ++i)
    {
        unsigned long c = (unsigned long)(typename std::make_unsigned<C>::type)p[i];
        if (c == 0) o += "\\0";
        else if (c == ' ') o += '_';
        else if (c > 32 && c < 127 && c != '\\' && c != ';' && c != '"') o += char(c);
        else { char b[16]; std::snprintf(b, sizeof b, "\\x%lx", c); o += b; }
    }
    return o;
}
static std::string txt(const M& m) { return txt(m.data(), m.size()); }

// ---- description helpers used inside the generic operation lambdas ----
template <class S> struct is_model : std::is_same<S, M> {};
template <class S> std::string self(const S& s, const S& r) { return &s == &r ? "self" : "NOT-SELF"; }
template <class S, class It> std::string iter(S& s, It it) { return "it+" + str(static_cast<long>(it - s.begin())); }
static std::string num(std::size_t v) { return v == npos ? std::string("npos") : str(v); }
static std::string sgn(int v) { return v < 0 ? "neg" : (v > 0 ? "pos" : "zero"); }
template <class S> std::string val(const S& v) { return "\"" + txt(v.data(), v.size()) + "\""; }
static std::string boolean(bool b) { return b ? "true" : "false"; }
static const char* NA = "N/A";

template <class S> S mk(const M& t) { return S(t.data(), t.size()); }

// A temporary with deterministic content behind its terminator: the library's constructors leave the unused part of
// the buffer untouched, so a plain local would carry whatever the stack held into the explored state (and make raw
// states path-dependent garbage). Poisoned placement keeps executions reproducible.
template <class S>
struct Tmp
{
    alignas(16) unsigned char b[sizeof(S)];
    S* p;
    template <class... A>
    explicit Tmp(A&&... a) { std::memset(b, 0xA5, sizeof b); p = new (b) S(std::forward<A>(a)...); }
    ~Tmp() { p->~S(); }
    Tmp(const Tmp&) = delete;
    S& operator*() { return *p; }
};

struct Src
{
    M text;
    std::shared_ptr<CT> z;     // exact-size heap copy WITH terminator (c-string overloads)
    std::shared_ptr<CT> raw;   // exact-size heap copy WITHOUT terminator (counted overloads): over-read => ASan report
    bool has_nul;
    std::string name;
    explicit Src(const M& t) : text(t)
    {
        z.reset(new CT[t.size() + 1], std::default_delete<CT[]>());
        std::copy(t.begin(), t.end(), z.get());
        z.get()[t.size()] = CT(0);
        raw.reset(new CT[t.size() ? t.size() : 1], std::default_delete<CT[]>());
        std::copy(t.begin(), t.end(), raw.get());
        has_nul = t.find(CT(0)) != npos;
        name = "\"" + txt(t) + "\"";
    }
    const CT* c() const { return z.get(); }
    const CT* r() const { return raw.get(); }
    std::size_t len() const { return text.size(); }
};

static std::string pn(std::size_t v) { return num(v); }
static std::string cn(CT c) { CT b[1] = {c}; return "'" + txt(b, 1) + "'"; }

template <class S, class Fn>
std::string run(S& s, Fn& fn)
{
    try { return fn(s); }
    catch (const std::out_of_range&) { return "EXC:out_of_range"; }
    catch (const std::length_error&) { return "EXC:length_error"; }
    catch (const std::exception& e) { return std::string("EXC:other:") + e.what(); }
}

// -------------------------------------------------------------------------------------------------------
// World: [32 guard bytes][F neighbour][F under test][F neighbour][32 guard bytes] in one exact-size heap block
// -------------------------------------------------------------------------------------------------------
struct World
{
    static const std::size_t G = 32;
    static constexpr std::size_t total() { return 2 * G + 3 * sizeof(F); }
    struct Mem
    {
        alignas(16) unsigned char b[2 * 32 + 3 * sizeof(F)];
        unsigned char* data() { return b; }
        const unsigned char* data() const { return b; }
        std::size_t size() const { return sizeof b; }
        unsigned char& operator[](std::size_t i) { return b[i]; }
        const unsigned char& operator[](std::size_t i) const { return b[i]; }
        void assign(std::size_t, unsigned char v) { std::memset(b, v, sizeof b); }
    };
    Mem mem;
    M model;
    F& f() { return *reinterpret_cast<F*>(mem.data() + G + sizeof(F)); }
    const F& f() const { return *reinterpret_cast<const F*>(mem.data() + G + sizeof(F)); }
    std::string key() const
    {
        // size() and the raw character buffer including everything behind the terminator (hidden state)
        static const char* hx = "0123456789abcdef";
        std::string k = str(f().size());
        k += ':';
        const CT* p = f().data();
        for (std::size_t i = 0; i <= N; ++i)
        {
            unsigned long c = (unsigned long)(typename std::make_unsigned<CT>::type)p[i];
            if (c > 32 && c < 127 && c != ';' && c != '\\' && c != '"') k += char(c);
            else { k += '\\'; if (sizeof(CT) > 1) { k += hx[(c >> 12) & 15]; k += hx[(c >> 8) & 15]; } k += hx[(c >> 4) & 15]; k += hx[c & 15]; }
        }
        return k;
    }
    static World make(unsigned char fill)
    {
        World w;
        w.mem.assign(total(), fill);
        for (std::size_t i = 0; i < G; ++i) { w.mem[i] = (unsigned char)(0xE0 + (i & 7)); w.mem[total() - 1 - i] = (unsigned char)(0xD0 + (i & 7)); }
        new (w.mem.data() + G) F();                       // value-initialising form
        new (w.mem.data() + G + sizeof(F)) F;             // default-initialising form: the object under test
        new (w.mem.data() + G + 2 * sizeof(F)) F();
        F* a = reinterpret_cast<F*>(w.mem.data() + G);
        a[0].assign(std::size_t(N > 2 ? 2 : N), CT('x'));
        a[2].assign(std::size_t(N), CT('y'));
        return w;
    }
};

static World::Mem g_frame[2];   // reference bytes of everything around the object under test, per init

static bool frame_ok(const World& w, int which)
{
    const std::size_t lo = World::G + sizeof(F), hi = lo + sizeof(F);
    const World::Mem& ref = g_frame[which];
    for (std::size_t i = 0; i < w.mem.size(); ++i)
    {
        if (i >= lo && i < hi) continue;
        if (w.mem[i] != ref[i]) return false;
    }
    return true;
}

static bool same(const F& f, const M& m, std::string& why)
{
    if (f.size() != m.size()) { why = "size()=" + str(f.size()) + " model " + str(m.size()) + " (\"" + txt(m) + "\"), buffer " + txt(f.data(), N + 1); return false; }
    for (std::size_t i = 0; i < m.size(); ++i)
        if (f.data()[i] != m[i]) { why = "contents \"" + txt(f.data(), f.size()) + "\" model \"" + txt(m) + "\""; return false; }
    if (f.data()[f.size()] != CT(0)) { why = "data()[size()] is not NUL: buffer " + txt(f.data(), N + 1) + " size " + str(f.size()); return false; }
    return true;
}

typedef vf::Explorer<World> Ex;

struct Op2
{
    std::function<std::string(F&)> fi;
    std::function<std::string(M&)> fm;
};
template <class G> Op2 both(G g) { return Op2{std::function<std::string(F&)>(g), std::function<std::string(M&)>(g)}; }

struct Q2
{
    std::string kind, name;
    std::function<std::string(const F&)> fi;
    std::function<std::string(const M&)> fm;
    bool nul_free_only;
    bool nul_arg;   // the argument (needle / character set / character) contains NUL
};
static std::vector<Q2> g_queries;

#define GEN(...) [=](auto& s) -> std::string { typedef typename std::decay<decltype(s)>::type S; (void)sizeof(S); __VA_ARGS__ }

static long long g_expected_len = 0, g_expected_oor = 0;
static long long g_term_alias_ops = 0, g_term_alias_transitions = 0;   // sources that are a range of the string's own buffer INCLUDING its terminator
static bool is_term_alias(const std::string& kind) { const std::string t = "[alias+term]"; return kind.size() > t.size() && kind.compare(kind.size() - t.size(), t.size(), t) == 0; }

static void add_op(Ex& ex, const std::string& kind, const std::string& name, Op2 op)
{
    const bool term_alias = is_term_alias(kind);
    if (term_alias) ++g_term_alias_ops;
    ex.add_op(kind, name, [op, kind, term_alias](World& w, Errs& e) -> bool {
        M m2 = w.model;
        std::string rm = run(m2, op.fm);
        if (rm == NA) return false;
        enum { OK, OOR, LEN } expect = OK;
        if (rm == "EXC:out_of_range") expect = OOR;
        else if (rm == "EXC:length_error" || (rm.compare(0, 4, "EXC:") != 0 && m2.size() > N)) expect = LEN;
        else if (rm.compare(0, 4, "EXC:") == 0) { e.add("harness", "model threw " + rm); return true; }
        if (!THROWING && expect != OK) return false;   // silent policy: capacity and positions are caller preconditions
        if (term_alias) ++g_term_alias_transitions;
        std::string ri = run(w.f(), op.fi);
        // C02: nothing outside the object's own buffer may change, whatever happened
        if (!frame_ok(w, 0) && !frame_ok(w, 1)) { e.add("C02:neighbour-modified", "memory outside the string object (neighbouring strings / guard bytes) was modified"); return true; }
        std::string why;
        if (expect == OK)
        {
            if (ri.compare(0, 4, "EXC:") == 0) { e.add("unexpected-exception", "threw " + ri.substr(4) + " but std::basic_string succeeds giving \"" + txt(m2) + "\" (was \"" + txt(w.model) + "\")"); return true; }
            if (ri != rm) e.add("return", "returned " + ri + ", std::basic_string returned " + rm + " (state was \"" + txt(w.model) + "\")");
            std::string before = txt(w.model);
            w.model = m2;
            if (!same(w.f(), w.model, why)) e.add("state", why + " (was \"" + before + "\")");
            return true;
        }
        const char* want = expect == OOR ? "EXC:out_of_range" : "EXC:length_error";
        if (expect == OOR) ++g_expected_oor; else ++g_expected_len;
        if (ri != want)
        {
            e.add(std::string("C02:") + (ri.compare(0, 4, "EXC:") == 0 ? "wrong-exception" : "no-exception"),
                  std::string("expected ") + (want + 4) + (expect == LEN ? " (result length " + str(m2.size()) + " > N=" + str(N) + ")" : " (position beyond the relevant length)") +
                  " but got " + (ri.compare(0, 4, "EXC:") == 0 ? ri.substr(4) : "normal return " + ri) + "; state was \"" + txt(w.model) + "\"");
            return true;
        }
        if (!same(w.f(), w.model, why)) e.add("C02:state-changed-by-failed-op", "after " + std::string(want + 4) + ": " + why);
        return true;
    });
}

static void add_q(const std::string& kind, const std::string& name, std::function<std::string(const F&)> fi, std::function<std::string(const M&)> fm, bool nul_free_only = false)
{
    g_queries.push_back(Q2{kind, name, fi, fm, nul_free_only, false});
}
#define QUERY(kind, name, nulfree, ...) { auto g_ = [=](const auto& s) -> std::string { typedef typename std::decay<decltype(s)>::type S; (void)sizeof(S); __VA_ARGS__ }; add_q(kind, name, g_, g_, nulfree); }
// a query whose argument contains NUL (counted separately in the evidence)
#define QUERYN(kind, name, ...) { QUERY(kind, name, false, __VA_ARGS__) g_queries.back().nul_arg = true; }

static long long g_query_evals = 0, g_nul_query_evals = 0;
static std::map<std::string, std::set<std::string>>* g_outcomes = nullptr;

static void check_state(const World& w, Errs& e)
{
    std::string why;
    if (!same(w.f(), w.model, why)) { e.add("state", why); return; }
    const bool has_nul = w.model.find(CT(0)) != npos;
    for (auto& q : g_queries)
    {
        if (q.nul_free_only && has_nul) continue;
        std::string rm = run(w.model, q.fm);
        if (rm == NA) continue;
        bool mexc = rm.compare(0, 4, "EXC:") == 0;
        if (mexc && !THROWING) continue;
        std::string ri = run(w.f(), q.fi);
        ++g_query_evals;
        if (q.nul_arg) ++g_nul_query_evals;
        if (ri != rm)
        {
            if (mexc) e.add("C02:query-" + q.kind + "-exception", q.name + ": expected " + rm.substr(4) + ", got " + ri + " on \"" + txt(w.model) + "\"");
            else if (q.kind.compare(0, 4, "C14:") == 0) e.add(q.kind, q.name + " of this string is " + ri + " but an equal string built afresh hashes to " + rm + " (\"" + txt(w.model) + "\")");
            else e.add("query-" + q.kind, q.name + " = " + ri + ", std::basic_string gives " + rm + " on \"" + txt(w.model) + "\"");
            if (e.v.size() >= 6) return;
        }
    }
    if (!frame_ok(w, 0) && !frame_ok(w, 1)) e.add("C02:neighbour-modified", "a query modified memory outside the object");
}

// -------------------------------------------------------------------------------------------------------
// alphabets
// -------------------------------------------------------------------------------------------------------
static std::vector<std::size_t> P;    // positions (into the target)
static std::vector<std::size_t> CNT;  // pure counts (how many characters to write)
static std::vector<std::size_t> CE;   // counts meaning "up to the end" (npos allowed)
static std::vector<Src> SRC;          // NUL-free source operands
static std::vector<Src> SRCN;         // sources with embedded NUL (counted overloads only, not for the strlen layout)
static std::vector<CT> CH;
static std::vector<Src> QN;           // search arguments containing NUL (every layout: a search does not modify the string)

static std::vector<std::size_t> sub_pos(std::size_t len)
{
    std::vector<std::size_t> v;
    if (!CFG_LARGE) { for (std::size_t i = 0; i <= len + 1; ++i) v.push_back(i); }
    else { v = {0, 1}; if (len > 1) v.push_back(len); v.push_back(len + 1); }
    return v;
}
static std::vector<std::size_t> sub_cnt(std::size_t len)
{
    std::vector<std::size_t> v;
    if (!CFG_LARGE) { for (std::size_t i = 0; i <= len + 1; ++i) v.push_back(i); }
    else { v = {0, 1}; if (len > 1) v.push_back(len); }
    v.push_back(npos);
    return v;
}

static void setup_alphabets()
{
    if (!CFG_LARGE)
    {
        for (std::size_t i = 0; i <= N + 1; ++i) { P.push_back(i); CNT.push_back(i); CE.push_back(i); }
        P.push_back(N + 2 + 40);   // one far-out position
    }
    else
    {
        P = {0, 1, 2, N - 2, N - 1, N, N + 1, N + 2};
        CNT = {0, 1, 2, N - 1, N, N + 1};
        CE = {0, 1, 2, N - 1, N, N + 1};
    }
    P.push_back(npos);
    CE.push_back(npos);
    CH = {CT('a'), CT(CFG_CH2)};
    const CT B2 = CT(CFG_CH2);
    std::vector<M> t = {M(), M(1, 'a'), M(1, B2), M{CT('a'), CT('a')}, M{CT('a'), B2}, M{B2, CT('a')}, M{B2, B2}};
    if (CFG_LARGE) t = {M(), M(1, 'a'), M{B2, CT('a')}};
    M full, over;
    for (std::size_t i = 0; i < N + 1; ++i) { if (i < N) full += (i % 2 ? B2 : CT('a')); over += (i % 2 ? B2 : CT('a')); }
    if (N > 2) t.push_back(full);
    t.push_back(over);
    if (CFG_LARGE) { M almost(full); almost.pop_back(); t.push_back(almost); }
    for (auto& x : t) SRC.emplace_back(x);
    {
        // every string over {a, CH2, NUL} of length <= 2 with at least one NUL (capacities 200/256: one of each shape)
        const CT Z = CT(0);
        std::vector<M> qn = {M(1, Z), M{CT('a'), Z}, M{B2, Z}, M{Z, CT('a')}, M{Z, B2}, M{Z, Z}};
        if (CFG_LARGE) qn = {M(1, Z), M{CT('a'), Z}, M{Z, B2}};
        for (auto& x : qn) QN.emplace_back(x);
    }
    if (!STRLEN)
    {
        SRCN.emplace_back(M(1, CT(0)));
        SRCN.emplace_back(M{CT('a'), CT(0)});
        if (!CFG_LARGE) SRCN.emplace_back(M{CT(0), CT(CFG_CH2)});
    }
}

template <class S> void do_resize_blank(S& s, std::size_t n, std::true_type) { s.resize(n, CT(' ')); }   // model: documented blank fill
template <class S> void do_resize_blank(S& s, std::size_t n, std::false_type) { s.resize(n); }

// =========================================================================================================
// Arguments that alias the string itself: the string as its own operand, sub-ranges of its own buffer given by pointer,
// by (self, pos, n) and by its own iterators. std::basic_string defines all of these calls (the source is read as it was
// before the call); the same calls are made on the model.
static void build_alias_ops(Ex& ex)
{
    const std::vector<std::size_t> sp = CFG_LARGE ? std::vector<std::size_t>{0, 1, 2, N / 2, N - 1, N} : sub_pos(N);
    std::vector<std::size_t> sc = CFG_LARGE ? std::vector<std::size_t>{0, 1, 2, N / 2, N} : sub_pos(N);
    std::vector<std::size_t> scn(sc); scn.push_back(npos);
    const std::vector<std::size_t> ip = CFG_LARGE ? std::vector<std::size_t>{0, 1, N / 2, N} : sub_pos(N);
    add_op(ex, "op=(self)[alias]", "s=s", both(GEN(S& r = s; return self(s, s = r);)));
    add_op(ex, "assign(self)[alias]", "assign(s)", both(GEN(return self(s, s.assign(s));)));
    add_op(ex, "append(self)[alias]", "append(s)", both(GEN(return self(s, s.append(s));)));
    add_op(ex, "+=(self)[alias]", "s+=s", both(GEN(return self(s, s += s);)));
    add_op(ex, "swap(self)[alias]", "swap(s)", both(GEN(s.swap(s); return "ok";)));
    for (std::size_t p : sp)
    {
        add_op(ex, "assign(self,pos)[alias]", "assign(s," + pn(p) + ")", both(GEN(return self(s, s.assign(s, p));)));
        add_op(ex, "append(self,pos)[alias]", "append(s," + pn(p) + ")", both(GEN(return self(s, s.append(s, p));)));
        add_op(ex, "assign(ptr)[alias]", "assign(c_str+" + pn(p) + ")", both(GEN(if (p > s.size()) return NA; return self(s, s.assign(s.c_str() + p));)));
        add_op(ex, "op=(ptr)[alias]", "s=c_str+" + pn(p), both(GEN(if (p > s.size()) return NA; return self(s, s = s.c_str() + p);)));
        add_op(ex, "append(ptr)[alias]", "append(c_str+" + pn(p) + ")", both(GEN(if (p > s.size()) return NA; return self(s, s.append(s.c_str() + p));)));
        add_op(ex, "+=(ptr)[alias]", "s+=c_str+" + pn(p), both(GEN(if (p > s.size()) return NA; return self(s, s += s.c_str() + p);)));
        for (std::size_t c : scn)
        {
            add_op(ex, "assign(self,pos,n)[alias]", "assign(s," + pn(p) + "," + pn(c) + ")", both(GEN(return self(s, s.assign(s, p, c));)));
            add_op(ex, "append(self,pos,n)[alias]", "append(s," + pn(p) + "," + pn(c) + ")", both(GEN(return self(s, s.append(s, p, c));)));
            if (c == npos) continue;
            add_op(ex, "assign(ptr,n)[alias]", "assign(data+" + pn(p) + "," + pn(c) + ")", both(GEN(if (p > s.size() || c > s.size() - p) return NA; return self(s, s.assign(s.data() + p, c));)));
            add_op(ex, "append(ptr,n)[alias]", "append(data+" + pn(p) + "," + pn(c) + ")", both(GEN(if (p > s.size() || c > s.size() - p) return NA; return self(s, s.append(s.data() + p, c));)));
        }
        for (std::size_t q : sp)
        {
            if (q < p) continue;
            add_op(ex, "assign(first,last)[alias]", "assign(begin+" + pn(p) + ",begin+" + pn(q) + ")", both(GEN(if (q > s.size()) return NA; return self(s, s.assign(s.begin() + std::ptrdiff_t(p), s.begin() + std::ptrdiff_t(q)));)));
            add_op(ex, "append(first,last)[alias]", "append(begin+" + pn(p) + ",begin+" + pn(q) + ")", both(GEN(if (q > s.size()) return NA; return self(s, s.append(s.begin() + std::ptrdiff_t(p), s.begin() + std::ptrdiff_t(q)));)));
        }
    }
    for (std::size_t i : ip)
    {
        add_op(ex, "insert(idx,self)[alias]", "insert(" + pn(i) + ",s)", both(GEN(return self(s, s.insert(i, s));)));
        for (std::size_t p : sp)
        {
            add_op(ex, "insert(idx,ptr)[alias]", "insert(" + pn(i) + ",c_str+" + pn(p) + ")", both(GEN(if (p > s.size()) return NA; return self(s, s.insert(i, s.c_str() + p));)));
            for (std::size_t c : scn)
            {
                add_op(ex, "insert(idx,self,pos,n)[alias]", "insert(" + pn(i) + ",s," + pn(p) + "," + pn(c) + ")", both(GEN(return self(s, s.insert(i, s, p, c));)));
                if (c == npos) continue;
                add_op(ex, "insert(idx,ptr,n)[alias]", "insert(" + pn(i) + ",data+" + pn(p) + "," + pn(c) + ")", both(GEN(if (p > s.size() || c > s.size() - p) return NA; return self(s, s.insert(i, s.data() + p, c));)));
            }
            for (std::size_t q : sp)
            {
                if (q < p) continue;
                add_op(ex, "insert(it,first,last)[alias]", "insert(begin+" + pn(i) + ",begin+" + pn(p) + ",begin+" + pn(q) + ")",
                       both(GEN(if (i > s.size() || q > s.size()) return NA; return iter(s, s.insert(s.begin() + std::ptrdiff_t(i), s.begin() + std::ptrdiff_t(p), s.begin() + std::ptrdiff_t(q)));)));
            }
        }
        for (std::size_t n : scn)
        {
            if (CFG_LARGE && !(n <= 1 || n == npos)) continue;
            if (!(n <= 1 || n == N || n == npos)) continue;   // erased counts: none, one, everything, "to the end"
            add_op(ex, "replace(pos,n,self)[alias]", "replace(" + pn(i) + "," + pn(n) + ",s)", both(GEN(return self(s, s.replace(i, n, s));)));
            for (std::size_t p : sp)
            {
                add_op(ex, "replace(pos,n,ptr)[alias]", "replace(" + pn(i) + "," + pn(n) + ",c_str+" + pn(p) + ")", both(GEN(if (p > s.size()) return NA; return self(s, s.replace(i, n, s.c_str() + p));)));
                for (std::size_t c : scn)
                {
                    if (CFG_LARGE && !(c <= 1 || c == npos || c == N / 2)) continue;
                    add_op(ex, "replace(pos,n,self,pos2,n2)[alias]", "replace(" + pn(i) + "," + pn(n) + ",s," + pn(p) + "," + pn(c) + ")", both(GEN(return self(s, s.replace(i, n, s, p, c));)));
                    if (c == npos) continue;
                    add_op(ex, "replace(pos,n,ptr,n2)[alias]", "replace(" + pn(i) + "," + pn(n) + ",data+" + pn(p) + "," + pn(c) + ")", both(GEN(if (p > s.size() || c > s.size() - p) return NA; return self(s, s.replace(i, n, s.data() + p, c));)));
                }
            }
        }
        for (std::size_t j : ip)
        {
            if (j < i) continue;
            add_op(ex, "replace(it,it,self)[alias]", "replace(begin+" + pn(i) + ",begin+" + pn(j) + ",s)", both(GEN(if (j > s.size()) return NA; return self(s, s.replace(s.begin() + std::ptrdiff_t(i), s.begin() + std::ptrdiff_t(j), s));)));
            for (std::size_t p : sp) for (std::size_t q : sp)
            {
                if (q < p) continue;
                if (CFG_LARGE && !(q - p <= 1 || q == N || q - p == N / 2)) continue;
                add_op(ex, "replace(it,it,first,last)[alias]", "replace(begin+" + pn(i) + ",begin+" + pn(j) + ",begin+" + pn(p) + ",begin+" + pn(q) + ")",
                       both(GEN(if (j > s.size() || q > s.size()) return NA; return self(s, s.replace(s.begin() + std::ptrdiff_t(i), s.begin() + std::ptrdiff_t(j), s.begin() + std::ptrdiff_t(p), s.begin() + std::ptrdiff_t(q)));)));
            }
        }
    }
}

// =========================================================================================================
// Aliasing sources that INCLUDE THE TERMINATOR. data()[size()] is a readable element of the string's own array (it is NUL), so
// [data()+p, data()+p+c) with p + c == size() + 1 is a legal explicitly counted source that ends ON (c == 1: consists of) the
// string's own terminator; c == 0 is the empty range one past it. build_alias_ops above stops at p + c <= size(); this part adds
// the remaining ranges, parametrised by their length c (source = the last c-1 characters followed by the terminator), for every
// counted overload (pointer+count, iterator pair given as pointers) of assign / append / insert / replace.
// Oracle: the same call on std::basic_string with a DISJOINT copy of the source range taken before the call (libstdc++ itself
// copies an aliased source with traits_type::copy in its no-reallocation paths, so the aliased call on the model is not used).
// A source with the terminator in it puts a NUL into the content, so for the strlen layout only c == 0 is in the alphabet.
template <class S> const CT* tail_src(const S& s, std::size_t c, M& keep, std::true_type) { keep.assign(s.data() + (s.size() + 1 - c), c); return keep.data(); }
template <class S> const CT* tail_src(const S& s, std::size_t c, M&, std::false_type) { return s.data() + (s.size() + 1 - c); }
#define TAIL(c) if (c > s.size() + 1 || (STRLEN && c > 0)) return NA; M keep_; const CT* t_ = tail_src(s, c, keep_, is_model<S>());

static void build_alias_term_ops(Ex& ex)
{
    const std::vector<std::size_t> tc = CFG_LARGE ? std::vector<std::size_t>{0, 1, 2, N / 2, N, N + 1} : sub_pos(N);   // 0..N+1
    const std::vector<std::size_t> ip = CFG_LARGE ? std::vector<std::size_t>{0, 1, N / 2, N - 1, N} : sub_pos(N);
    for (std::size_t c : tc)
    {
        // the source range written out: [data+size-(c-1), data+size+1); c == 1 is the terminator alone, c == 0 the empty range behind it
        const std::string b = c == 0 ? std::string("data+size+1") : c == 1 ? std::string("data+size") : "data+size-" + pn(c - 1), e = "data+size+1";
        add_op(ex, "assign(ptr,n)[alias+term]", "assign(" + b + "," + pn(c) + ")", both(GEN(TAIL(c) return self(s, s.assign(t_, c));)));
        add_op(ex, "assign(first,last)[alias+term]", "assign(" + b + "," + e + ")", both(GEN(TAIL(c) return self(s, s.assign(t_, t_ + c));)));
        // append(const_pointer, count) with c >= 2 is NOT in the alphabet: source [size()-(c-1), size()+1) and destination [size(), size()+c)
        // share exactly the element data()[size()], so the library's traits_type::copy is a formal char_traits::copy overlap of one
        // element (ASan: memcpy-param-overlap). libstdc++'s basic_string::append does the identical copy, the observable result was
        // judged equal to the model by a probe, and neither the C01 nor the C02 statement is contradicted (decision recorded in NOTES.md).
        if (c <= 1) add_op(ex, "append(ptr,n)[alias+term]", "append(" + b + "," + pn(c) + ")", both(GEN(TAIL(c) return self(s, s.append(t_, c));)));
        add_op(ex, "append(first,last)[alias+term]", "append(" + b + "," + e + ")", both(GEN(TAIL(c) return self(s, s.append(t_, t_ + c));)));
        for (std::size_t i : ip)
        {
            add_op(ex, "insert(idx,ptr,n)[alias+term]", "insert(" + pn(i) + "," + b + "," + pn(c) + ")", both(GEN(TAIL(c) return self(s, s.insert(i, t_, c));)));
            add_op(ex, "insert(it,first,last)[alias+term]", "insert(begin+" + pn(i) + "," + b + "," + e + ")",
                   both(GEN(if (i > s.size()) return NA; TAIL(c) return iter(s, s.insert(s.begin() + std::ptrdiff_t(i), t_, t_ + c));)));
            for (std::size_t n : CE)
            {
                if (CFG_LARGE && !(n <= 1 || n == npos)) continue;
                add_op(ex, "replace(pos,n,ptr,n2)[alias+term]", "replace(" + pn(i) + "," + pn(n) + "," + b + "," + pn(c) + ")", both(GEN(TAIL(c) return self(s, s.replace(i, n, t_, c));)));
            }
            for (std::size_t j : ip)
            {
                if (j < i) continue;
                const std::string rg = "begin+" + pn(i) + ",begin+" + pn(j);
                add_op(ex, "replace(it,it,ptr,n)[alias+term]", "replace(" + rg + "," + b + "," + pn(c) + ")",
                       both(GEN(if (j > s.size()) return NA; TAIL(c) return self(s, s.replace(s.begin() + std::ptrdiff_t(i), s.begin() + std::ptrdiff_t(j), t_, c));)));
                add_op(ex, "replace(it,it,first,last)[alias+term]", "replace(" + rg + "," + b + "," + e + ")",
                       both(GEN(if (j > s.size()) return NA; TAIL(c) return self(s, s.replace(s.begin() + std::ptrdiff_t(i), s.begin() + std::ptrdiff_t(j), t_, t_ + c));)));
            }
        }
    }
}
#undef TAIL

// =========================================================================================================
static void build_ops(Ex& ex)
{
    // ----------------------------------------------------------------- constructors
    add_op(ex, "ctor()", "S()", both(GEN(Tmp<S> t; s = *t; return "ok";)));
    for (std::size_t n : CNT) for (CT c : CH)
        add_op(ex, "ctor(n,ch)", "S(" + pn(n) + "," + cn(c) + ")", both(GEN(Tmp<S> t(n, c); s = *t; return "ok";)));
    for (auto& src : SRC)
    {
        const Src x = src;
        const bool fits = x.len() <= N;
        add_op(ex, "ctor(ptr)", "S(ptr " + x.name + ")", both(GEN(Tmp<S> t(x.c()); s = *t; return "ok";)));
        add_op(ex, "ctor(ptr,n)", "S(ptr " + x.name + "," + pn(x.len()) + ")", both(GEN(Tmp<S> t(x.r(), x.len()); s = *t; return "ok";)));
        add_op(ex, "ctor(string)", "S(string " + x.name + ")", both(GEN(Tmp<S> t(x.text); s = *t; return "ok";)));
        add_op(ex, "ctor(first,last)", "S(first,last " + x.name + ")", both(GEN(std::list<CT> l(x.text.begin(), x.text.end()); Tmp<S> t(l.begin(), l.end()); s = *t; return "ok";)));
        add_op(ex, "op=(ptr)", "=ptr " + x.name, both(GEN(return self(s, s = x.c());)));
        add_op(ex, "op=(string)", "=string " + x.name, both(GEN(return self(s, s = x.text);)));
        add_op(ex, "assign(ptr)", "assign(ptr " + x.name + ")", both(GEN(return self(s, s.assign(x.c()));)));
        add_op(ex, "assign(ptr,n)", "assign(ptr " + x.name + "," + pn(x.len()) + ")", both(GEN(return self(s, s.assign(x.r(), x.len()));)));
        add_op(ex, "assign(string)", "assign(string " + x.name + ")", both(GEN(return self(s, s.assign(x.text));)));
        add_op(ex, "assign(first,last)", "assign(first,last " + x.name + ")", both(GEN(std::vector<CT> l(x.text.begin(), x.text.end()); return self(s, s.assign(l.begin(), l.end()));)));
        add_op(ex, "append(ptr)", "append(ptr " + x.name + ")", both(GEN(return self(s, s.append(x.c()));)));
        add_op(ex, "append(ptr,n)", "append(ptr " + x.name + "," + pn(x.len()) + ")", both(GEN(return self(s, s.append(x.r(), x.len()));)));
        add_op(ex, "append(string)", "append(string " + x.name + ")", both(GEN(return self(s, s.append(x.text));)));
        add_op(ex, "append(first,last)", "append(first,last " + x.name + ")", both(GEN(std::list<CT> l(x.text.begin(), x.text.end()); return self(s, s.append(l.begin(), l.end()));)));
        add_op(ex, "+=(ptr)", "+=ptr " + x.name, both(GEN(return self(s, s += x.c());)));
        add_op(ex, "+=(string)", "+=string " + x.name, both(GEN(return self(s, s += x.text);)));
        add_op(ex, "s+ptr", "s+ptr " + x.name, both(GEN(S r = s + x.c(); s.assign(r); return "ok";)));
        add_op(ex, "ptr+s", "ptr+s " + x.name, both(GEN(S r = x.c() + s; s.assign(r); return "ok";)));
        add_op(ex, "move(s)+ptr", "move(s)+ptr " + x.name, both(GEN(S c(s); S r = std::move(c) + x.c(); s.assign(r); return "ok";)));
        add_op(ex, "ptr+move(s)", "ptr+move(s) " + x.name, both(GEN(S c(s); S r = x.c() + std::move(c); s.assign(r); return "ok";)));
        for (std::size_t p : sub_pos(x.len()))
        {
            add_op(ex, "ctor(string,pos)", "S(string " + x.name + "," + pn(p) + ")", both(GEN(Tmp<S> t(x.text, p); s = *t; return "ok";)));
            add_op(ex, "assign(string,pos)", "assign(string " + x.name + "," + pn(p) + ")", both(GEN(return self(s, s.assign(x.text, p));)));
            add_op(ex, "append(string,pos)", "append(string " + x.name + "," + pn(p) + ")", both(GEN(return self(s, s.append(x.text, p));)));
            for (std::size_t c : sub_cnt(x.len()))
            {
                add_op(ex, "ctor(string,pos,n)", "S(string " + x.name + "," + pn(p) + "," + pn(c) + ")", both(GEN(Tmp<S> t(x.text, p, c); s = *t; return "ok";)));
                add_op(ex, "assign(string,pos,n)", "assign(string " + x.name + "," + pn(p) + "," + pn(c) + ")", both(GEN(return self(s, s.assign(x.text, p, c));)));
                add_op(ex, "append(string,pos,n)", "append(string " + x.name + "," + pn(p) + "," + pn(c) + ")", both(GEN(return self(s, s.append(x.text, p, c));)));
            }
        }
        if (fits)
        {
            add_op(ex, "op=(self_type)", "=S " + x.name, both(GEN(Tmp<S> o_(x.text.data(), x.text.size()); S& o = *o_; return self(s, s = o);)));
            add_op(ex, "assign(self_type)", "assign(S " + x.name + ")", both(GEN(Tmp<S> o_(x.text.data(), x.text.size()); S& o = *o_; return self(s, s.assign(o));)));
            add_op(ex, "assign(self_type&&)", "assign(S&& " + x.name + ")", both(GEN(Tmp<S> o_(x.text.data(), x.text.size()); S& o = *o_; return self(s, s.assign(std::move(o)));)));
            add_op(ex, "append(self_type)", "append(S " + x.name + ")", both(GEN(Tmp<S> o_(x.text.data(), x.text.size()); S& o = *o_; return self(s, s.append(o));)));
            add_op(ex, "+=(self_type)", "+=S " + x.name, both(GEN(Tmp<S> o_(x.text.data(), x.text.size()); S& o = *o_; return self(s, s += o);)));
            add_op(ex, "s+s", "s+S " + x.name, both(GEN(Tmp<S> o_(x.text.data(), x.text.size()); S& o = *o_; S r = s + o; s.assign(r); return "ok";)));
            add_op(ex, "s+s(rev)", "S " + x.name + "+s", both(GEN(Tmp<S> o_(x.text.data(), x.text.size()); S& o = *o_; S r = o + s; s.assign(r); return "ok";)));
            add_op(ex, "move(s)+s", "move(s)+S " + x.name, both(GEN(Tmp<S> o_(x.text.data(), x.text.size()); S& o = *o_; S c(s); S r = std::move(c) + o; s.assign(r); return "ok";)));
            add_op(ex, "s+move(s)", "s+move(S " + x.name + ")", both(GEN(Tmp<S> o_(x.text.data(), x.text.size()); S& o = *o_; S r = s + std::move(o); s.assign(r); return "ok";)));
            add_op(ex, "move(s)+move(s)", "move(s)+move(S " + x.name + ")", both(GEN(Tmp<S> o_(x.text.data(), x.text.size()); S& o = *o_; S c(s); S r = std::move(c) + std::move(o); s.assign(r); return "ok";)));
            add_op(ex, "swap", "swap(S " + x.name + ")", both(GEN(Tmp<S> o_(x.text.data(), x.text.size()); S& o = *o_; S keep(s); s.swap(o); return "other=" + val(o) + (o == keep ? "" : " OTHER-NOT-OLD-VALUE");)));
            add_op(ex, "swap(free)", "swap(s,S " + x.name + ")", both(GEN(Tmp<S> o_(x.text.data(), x.text.size()); S& o = *o_; S keep(s); swap(s, o); return "other=" + val(o) + (o == keep ? "" : " OTHER-NOT-OLD-VALUE");)));
            for (std::size_t p : sub_pos(x.len()))
            {
                add_op(ex, "ctor(self_type,pos)", "S(S " + x.name + "," + pn(p) + ")", both(GEN(Tmp<S> o_(x.text.data(), x.text.size()); S& o = *o_; Tmp<S> t(o, p); s = *t; return "ok";)));
                add_op(ex, "assign(self_type,pos)", "assign(S " + x.name + "," + pn(p) + ")", both(GEN(Tmp<S> o_(x.text.data(), x.text.size()); S& o = *o_; return self(s, s.assign(o, p));)));
                add_op(ex, "append(self_type,pos)", "append(S " + x.name + "," + pn(p) + ")", both(GEN(Tmp<S> o_(x.text.data(), x.text.size()); S& o = *o_; return self(s, s.append(o, p));)));
                for (std::size_t c : sub_cnt(x.len()))
                {
                    add_op(ex, "ctor(self_type,pos,n)", "S(S " + x.name + "," + pn(p) + "," + pn(c) + ")", both(GEN(Tmp<S> o_(x.text.data(), x.text.size()); S& o = *o_; Tmp<S> t(o, p, c); s = *t; return "ok";)));
                    add_op(ex, "assign(self_type,pos,n)", "assign(S " + x.name + "," + pn(p) + "," + pn(c) + ")", both(GEN(Tmp<S> o_(x.text.data(), x.text.size()); S& o = *o_; return self(s, s.assign(o, p, c));)));
                    add_op(ex, "append(self_type,pos,n)", "append(S " + x.name + "," + pn(p) + "," + pn(c) + ")", both(GEN(Tmp<S> o_(x.text.data(), x.text.size()); S& o = *o_; return self(s, s.append(o, p, c));)));
                }
            }
        }
        // insert / replace with this source at every position
        for (std::size_t i : P)
        {
            if (i == npos) continue;
            add_op(ex, "insert(idx,ptr)", "insert(" + pn(i) + ",ptr " + x.name + ")", both(GEN(return self(s, s.insert(i, x.c()));)));
            add_op(ex, "insert(idx,ptr,n)", "insert(" + pn(i) + ",ptr " + x.name + "," + pn(x.len()) + ")", both(GEN(return self(s, s.insert(i, x.r(), x.len()));)));
            add_op(ex, "insert(idx,string)", "insert(" + pn(i) + ",string " + x.name + ")", both(GEN(return self(s, s.insert(i, x.text));)));
            if (fits) add_op(ex, "insert(idx,self_type)", "insert(" + pn(i) + ",S " + x.name + ")", both(GEN(Tmp<S> o_(x.text.data(), x.text.size()); S& o = *o_; return self(s, s.insert(i, o));)));
            add_op(ex, "insert(it,first,last)", "insert(begin+" + pn(i) + ",first,last " + x.name + ")",
                   both(GEN(if (i > s.size()) return NA; std::list<CT> l(x.text.begin(), x.text.end()); return iter(s, s.insert(s.begin() + std::ptrdiff_t(i), l.begin(), l.end()));)));
            if (!CFG_LARGE || i <= 1 || i >= N - 1)
            for (std::size_t p : sub_pos(x.len()))
            {
                const bool rep_i = (i <= 1 || i == N);
                add_op(ex, "insert(idx,string,pos)", "insert(" + pn(i) + ",string " + x.name + "," + pn(p) + ")", both(GEN(return self(s, s.insert(i, x.text, p));)));
                if (fits) add_op(ex, "insert(idx,self_type,pos)", "insert(" + pn(i) + ",S " + x.name + "," + pn(p) + ")", both(GEN(Tmp<S> o_(x.text.data(), x.text.size()); S& o = *o_; return self(s, s.insert(i, o, p));)));
                for (std::size_t c : sub_cnt(x.len()))
                {
                    if (!rep_i && !((p == 0 && c == npos) || (p == 1 && c == 1))) continue;
                    add_op(ex, "insert(idx,string,pos,n)", "insert(" + pn(i) + ",string " + x.name + "," + pn(p) + "," + pn(c) + ")", both(GEN(return self(s, s.insert(i, x.text, p, c));)));
                    if (fits) add_op(ex, "insert(idx,self_type,pos,n)", "insert(" + pn(i) + ",S " + x.name + "," + pn(p) + "," + pn(c) + ")", both(GEN(Tmp<S> o_(x.text.data(), x.text.size()); S& o = *o_; return self(s, s.insert(i, o, p, c));)));
                }
            }
            for (std::size_t k : CE)
            {
                if (CFG_LARGE && !(k <= 1 || k >= N - 1)) continue;
                const std::string pk = pn(i) + "," + pn(k);
                add_op(ex, "replace(pos,n,ptr)", "replace(" + pk + ",ptr " + x.name + ")", both(GEN(return self(s, s.replace(i, k, x.c()));)));
                add_op(ex, "replace(pos,n,ptr,n2)", "replace(" + pk + ",ptr " + x.name + "," + pn(x.len()) + ")", both(GEN(return self(s, s.replace(i, k, x.r(), x.len()));)));
                add_op(ex, "replace(pos,n,string)", "replace(" + pk + ",string " + x.name + ")", both(GEN(return self(s, s.replace(i, k, x.text));)));
                if (fits) add_op(ex, "replace(pos,n,self_type)", "replace(" + pk + ",S " + x.name + ")", both(GEN(Tmp<S> o_(x.text.data(), x.text.size()); S& o = *o_; return self(s, s.replace(i, k, o));)));
                if (CFG_LARGE) continue;
                const bool rep_ik = (i == 0 && k == 0) || (i == 1 && k == 1) || (i == 0 && k == npos) || (i == N && k == 1) || (i == 1 && k == 0);
                for (std::size_t p : sub_pos(x.len()))
                {
                    if (!rep_ik && p > 1) continue;
                    add_op(ex, "replace(pos,n,string,pos2)", "replace(" + pk + ",string " + x.name + "," + pn(p) + ")", both(GEN(return self(s, s.replace(i, k, x.text, p));)));
                    if (fits) add_op(ex, "replace(pos,n,self_type,pos2)", "replace(" + pk + ",S " + x.name + "," + pn(p) + ")", both(GEN(Tmp<S> o_(x.text.data(), x.text.size()); S& o = *o_; return self(s, s.replace(i, k, o, p));)));
                    for (std::size_t c : sub_cnt(x.len()))
                    {
                        if (x.len() > 2 && c != npos && c > 1 && c < x.len()) continue;   // thin out: long sources only get 0,1,len,len+1,npos
                        if (!rep_ik && !((p == 0 && c == npos) || (p == 1 && c == 1))) continue;
                        add_op(ex, "replace(pos,n,string,pos2,n2)", "replace(" + pk + ",string " + x.name + "," + pn(p) + "," + pn(c) + ")", both(GEN(return self(s, s.replace(i, k, x.text, p, c));)));
                        if (fits) add_op(ex, "replace(pos,n,self_type,pos2,n2)", "replace(" + pk + ",S " + x.name + "," + pn(p) + "," + pn(c) + ")", both(GEN(Tmp<S> o_(x.text.data(), x.text.size()); S& o = *o_; return self(s, s.replace(i, k, o, p, c));)));
                    }
                }
            }
            // iterator-range replace: [begin+i, begin+j)
            for (std::size_t j : P)
            {
                if (j == npos || j < i) continue;
                if (CFG_LARGE && !(j == i || j == i + 1 || j >= N - 1)) continue;
                const std::string rg = "begin+" + pn(i) + ",begin+" + pn(j);
                add_op(ex, "replace(it,it,ptr)", "replace(" + rg + ",ptr " + x.name + ")", both(GEN(if (j > s.size()) return NA; return self(s, s.replace(s.begin() + std::ptrdiff_t(i), s.begin() + std::ptrdiff_t(j), x.c()));)));
                add_op(ex, "replace(it,it,ptr,n)", "replace(" + rg + ",ptr " + x.name + "," + pn(x.len()) + ")", both(GEN(if (j > s.size()) return NA; return self(s, s.replace(s.begin() + std::ptrdiff_t(i), s.begin() + std::ptrdiff_t(j), x.r(), x.len()));)));
                add_op(ex, "replace(it,it,string)", "replace(" + rg + ",string " + x.name + ")", both(GEN(if (j > s.size()) return NA; return self(s, s.replace(s.begin() + std::ptrdiff_t(i), s.begin() + std::ptrdiff_t(j), x.text));)));
                if (fits) add_op(ex, "replace(it,it,self_type)", "replace(" + rg + ",S " + x.name + ")", both(GEN(if (j > s.size()) return NA; Tmp<S> o_(x.text.data(), x.text.size()); S& o = *o_; return self(s, s.replace(s.begin() + std::ptrdiff_t(i), s.begin() + std::ptrdiff_t(j), o));)));
                add_op(ex, "replace(it,it,first,last)", "replace(" + rg + ",first,last " + x.name + ")", both(GEN(if (j > s.size()) return NA; std::vector<CT> l(x.text.begin(), x.text.end()); return self(s, s.replace(s.begin() + std::ptrdiff_t(i), s.begin() + std::ptrdiff_t(j), l.begin(), l.end()));)));
            }
        }
    }
    // sources with an embedded NUL: explicitly counted overloads only
    for (auto& src : SRCN)
    {
        const Src x = src;
        add_op(ex, "ctor(ptr,n)", "S(ptr " + x.name + "," + pn(x.len()) + ")", both(GEN(Tmp<S> t(x.r(), x.len()); s = *t; return "ok";)));
        add_op(ex, "assign(ptr,n)", "assign(ptr " + x.name + "," + pn(x.len()) + ")", both(GEN(return self(s, s.assign(x.r(), x.len()));)));
        add_op(ex, "append(ptr,n)", "append(ptr " + x.name + "," + pn(x.len()) + ")", both(GEN(return self(s, s.append(x.r(), x.len()));)));
        add_op(ex, "assign(first,last)", "assign(first,last " + x.name + ")", both(GEN(std::vector<CT> l(x.text.begin(), x.text.end()); return self(s, s.assign(l.begin(), l.end()));)));
        for (std::size_t i : P)
        {
            if (i == npos) continue;
            add_op(ex, "insert(idx,ptr,n)", "insert(" + pn(i) + ",ptr " + x.name + "," + pn(x.len()) + ")", both(GEN(return self(s, s.insert(i, x.r(), x.len()));)));
            if (!CFG_LARGE) add_op(ex, "replace(pos,n,ptr,n2)", "replace(" + pn(i) + ",1,ptr " + x.name + "," + pn(x.len()) + ")", both(GEN(return self(s, s.replace(i, 1, x.r(), x.len()));)));
        }
    }
    add_op(ex, "ctor(ilist)", "S{a,b}", both(GEN(Tmp<S> t(std::initializer_list<CT>{CT('a'), CT(CFG_CH2)}); s = *t; return "ok";)));
    add_op(ex, "op=(ilist)", "={b}", both(GEN(return self(s, s = {CT(CFG_CH2)});)));
    add_op(ex, "assign(ilist)", "assign{a,a,b}", both(GEN(return self(s, s.assign({CT('a'), CT('a'), CT(CFG_CH2)}));)));
    add_op(ex, "append(ilist)", "append{b,a}", both(GEN(return self(s, s.append({CT(CFG_CH2), CT('a')}));)));
    add_op(ex, "+=(ilist)", "+={a}", both(GEN(return self(s, s += {CT('a')});)));
    if (!STRLEN) add_op(ex, "assign(ilist)", "assign{a,\\0}", both(GEN(return self(s, s.assign({CT('a'), CT(0)}));)));
    // ----------------------------------------------------------------- single characters / counts
    for (CT c : CH)
    {
        add_op(ex, "op=(ch)", "=" + cn(c), both(GEN(return self(s, s = c);)));
        add_op(ex, "push_back", "push_back(" + cn(c) + ")", both(GEN(s.push_back(c); return "ok";)));
        add_op(ex, "+=(ch)", "+=" + cn(c), both(GEN(return self(s, s += c);)));
        add_op(ex, "s+ch", "s+" + cn(c), both(GEN(S r = s + c; s.assign(r); return "ok";)));
        add_op(ex, "ch+s", cn(c) + "+s", both(GEN(S r = c + s; s.assign(r); return "ok";)));
        add_op(ex, "move(s)+ch", "move(s)+" + cn(c), both(GEN(S k(s); S r = std::move(k) + c; s.assign(r); return "ok";)));
        add_op(ex, "ch+move(s)", cn(c) + "+move(s)", both(GEN(S k(s); S r = c + std::move(k); s.assign(r); return "ok";)));
        for (std::size_t n : CNT)
        {
            add_op(ex, "assign(n,ch)", "assign(" + pn(n) + "," + cn(c) + ")", both(GEN(return self(s, s.assign(n, c));)));
            add_op(ex, "append(n,ch)", "append(" + pn(n) + "," + cn(c) + ")", both(GEN(return self(s, s.append(n, c));)));
            add_op(ex, "resize(n,ch)", "resize(" + pn(n) + "," + cn(c) + ")", both(GEN(s.resize(n, c); return "ok";)));
        }
        for (std::size_t i : P)
        {
            if (i == npos) continue;
            add_op(ex, "insert(it,ch)", "insert(begin+" + pn(i) + "," + cn(c) + ")", both(GEN(if (i > s.size()) return NA; return iter(s, s.insert(s.begin() + std::ptrdiff_t(i), c));)));
            add_op(ex, "write[]", "[" + pn(i) + "]=" + cn(c), both(GEN(if (i >= s.size()) return NA; s[i] = c; return "ok";)));
            add_op(ex, "write-at", "at(" + pn(i) + ")=" + cn(c), both(GEN(s.at(i) = c; return "ok";)));
            add_op(ex, "write-iter", "*(begin+" + pn(i) + ")=" + cn(c), both(GEN(if (i >= s.size()) return NA; *(s.begin() + std::ptrdiff_t(i)) = c; return "ok";)));
            for (std::size_t n : CNT)
            {
                if (CFG_LARGE && !(n <= 1 || n >= N - 1)) continue;
                add_op(ex, "insert(idx,n,ch)", "insert(" + pn(i) + "," + pn(n) + "," + cn(c) + ")", both(GEN(return self(s, s.insert(i, n, c));)));
                add_op(ex, "insert(it,n,ch)", "insert(begin+" + pn(i) + "," + pn(n) + "," + cn(c) + ")", both(GEN(if (i > s.size()) return NA; return iter(s, s.insert(s.begin() + std::ptrdiff_t(i), n, c));)));
                for (std::size_t k : CE)
                {
                    if (CFG_LARGE && !(k <= 1 || k == npos)) continue;
                    add_op(ex, "replace(pos,n,n2,ch)", "replace(" + pn(i) + "," + pn(k) + "," + pn(n) + "," + cn(c) + ")", both(GEN(return self(s, s.replace(i, k, n, c));)));
                }
                for (std::size_t j : P)
                {
                    if (j == npos || j < i) continue;
                    if (CFG_LARGE && !(j == i || j == i + 1 || j >= N - 1)) continue;
                    add_op(ex, "replace(it,it,n,ch)", "replace(begin+" + pn(i) + ",begin+" + pn(j) + "," + pn(n) + "," + cn(c) + ")",
                           both(GEN(if (j > s.size()) return NA; return self(s, s.replace(s.begin() + std::ptrdiff_t(i), s.begin() + std::ptrdiff_t(j), n, c));)));
                }
            }
        }
        add_op(ex, "write-front", "front()=" + cn(c), both(GEN(if (s.empty()) return NA; s.front() = c; return "ok";)));
        add_op(ex, "write-back", "back()=" + cn(c), both(GEN(if (s.empty()) return NA; s.back() = c; return "ok";)));
        add_op(ex, "write-riter", "*rbegin()=" + cn(c), both(GEN(if (s.empty()) return NA; *s.rbegin() = c; return "ok";)));
        add_op(ex, "write-data", "data()[0]=" + cn(c), both(GEN(if (s.empty()) return NA; const_cast<CT*>(s.data())[0] = c; return "ok";)));
    }
    for (std::size_t i : P)
    {
        if (i == npos) continue;
        add_op(ex, "insert(it,ilist)", "insert(begin+" + pn(i) + ",{a,b})", both(GEN(if (i > s.size()) return NA; return iter(s, s.insert(s.begin() + std::ptrdiff_t(i), {CT('a'), CT(CFG_CH2)}));)));
        add_op(ex, "erase(it)", "erase(begin+" + pn(i) + ")", both(GEN(if (i >= s.size()) return NA; return iter(s, s.erase(s.begin() + std::ptrdiff_t(i)));)));
        add_op(ex, "erase(idx)", "erase(" + pn(i) + ")", both(GEN(return self(s, s.erase(i));)));
        for (std::size_t k : CE) add_op(ex, "erase(idx,n)", "erase(" + pn(i) + "," + pn(k) + ")", both(GEN(return self(s, s.erase(i, k));)));
        for (std::size_t j : P)
        {
            if (j == npos || j < i) continue;
            add_op(ex, "erase(it,it)", "erase(begin+" + pn(i) + ",begin+" + pn(j) + ")", both(GEN(if (j > s.size()) return NA; return iter(s, s.erase(s.begin() + std::ptrdiff_t(i), s.begin() + std::ptrdiff_t(j)));)));
            add_op(ex, "replace(it,it,ilist)", "replace(begin+" + pn(i) + ",begin+" + pn(j) + ",{b,a})", both(GEN(if (j > s.size()) return NA; return self(s, s.replace(s.begin() + std::ptrdiff_t(i), s.begin() + std::ptrdiff_t(j), {CT(CFG_CH2), CT('a')}));)));
        }
    }
    add_op(ex, "erase()", "erase()", both(GEN(return self(s, s.erase());)));
    add_op(ex, "clear", "clear()", both(GEN(s.clear(); return "ok";)));
    add_op(ex, "pop_back", "pop_back()", both(GEN(if (s.empty()) return NA; s.pop_back(); return "ok";)));
    for (std::size_t n : CNT) add_op(ex, "resize(n)", "resize(" + pn(n) + ")", both(GEN(do_resize_blank(s, n, is_model<S>()); return "ok";)));
    add_op(ex, "copy-self", "s=S(s)", both(GEN(S c(s); s = c; return "ok";)));
    add_op(ex, "move-self", "s=S(move(s))", both(GEN(S c(std::move(s)); s = std::move(c); return "ok";)));
    build_alias_ops(ex);
    build_alias_term_ops(ex);
}

// streams exist for char only (they go through std::string)
template <class C> typename std::enable_if<std::is_same<C, char>::value>::type build_stream_ops(Ex& ex)
{
    // Inputs stay inside the character alphabet {a,b,space}. operator>> is only given inputs that contain a token:
    // what a *failed* extraction leaves in the target is not part of the statement (std::string keeps its old value,
    // the fixed string is assigned the empty temporary) and is deliberately not judged.
    const char* inputs[] = {"ab", "a b", "  ba\nab", "", "abab", "b\n", "\n", " a"};
    for (const char* in : inputs)
    {
        std::string sin(in);
        std::string shown = txt(sin.data(), sin.size());
        if (sin.find_first_not_of(" \n") != std::string::npos)
            add_op(ex, "operator>>", ">> \"" + shown + "\"", both(GEN(std::istringstream is(sin); is >> s; return std::string("stream:") + (is.fail() ? "fail" : "ok") + (is.eof() ? ",eof" : "");)));
        add_op(ex, "getline", "getline \"" + shown + "\"", both(GEN(std::istringstream is(sin); getline(is, s); return std::string("stream:") + (is.fail() ? "fail" : "ok") + (is.eof() ? ",eof" : "");)));
        add_op(ex, "getline(delim)", "getline 'b' \"" + shown + "\"", both(GEN(std::istringstream is(sin); getline(is, s, 'b'); return std::string("stream:") + (is.fail() ? "fail" : "ok") + (is.eof() ? ",eof" : "");)));
        add_op(ex, "getline(rvalue)", "getline&& \"" + shown + "\"", both(GEN(getline(std::istringstream(sin), s); return "ok";)));
    }
}
template <class C> typename std::enable_if<!std::is_same<C, char>::value>::type build_stream_ops(Ex&) {}

template <class S> std::size_t q_max_size(const S&, std::true_type) { return N; }
template <class S> std::size_t q_max_size(const S& s, std::false_type) { return s.max_size(); }
template <class S> std::string q_ostream(const S& s, std::true_type) { return "\"" + txt(s) + "\""; }
template <class S> std::string q_ostream(const S& s, std::false_type)
{
    std::basic_ostringstream<CT> os;
    os << s;
    M r = os.str();
    return "\"" + txt(r) + "\"";
}
template <class S> std::string q_hash(const S& s, std::true_type)
{
    // reference: the byte hash of exactly size() bytes starting at data() (what the documentation of std::hash<fixed string> promises), computed from a fresh copy
    F fresh(s.data(), s.size());
    return str(std::hash<F>()(fresh));
}
template <class S> std::string q_hash(const S& s, std::false_type) { return str(std::hash<F>()(s)); }

static void build_queries()
{
    QUERY("size", "size()", false, return num(s.size());)
    QUERY("size", "length()", false, return num(s.length());)
    QUERY("size", "empty()", false, return boolean(s.empty());)
    QUERY("size", "max_size()", false, return num(q_max_size(s, is_model<S>()));)
    QUERY("data", "c_str()", false, return "\"" + txt(s.c_str(), s.size() + 1) + "\"";)
    QUERY("iteration", "begin..end", false, M r; for (auto it = s.begin(); it != s.end(); ++it) r += *it; return val(r) + " d=" + str(long(s.end() - s.begin()));)
    QUERY("iteration", "cbegin..cend", false, M r; for (auto it = s.cbegin(); it != s.cend(); ++it) r += *it; return val(r);)
    QUERY("iteration", "rbegin..rend", false, M r; for (auto it = s.rbegin(); it != s.rend(); ++it) r += *it; return val(r);)
    QUERY("iteration", "crbegin..crend", false, M r; for (auto it = s.crbegin(); it != s.crend(); ++it) r += *it; return val(r);)
    QUERY("iteration", "mutable begin..end", false, S c(s); M r; for (auto it = c.begin(); it != c.end(); ++it) r += *it; for (auto it = c.rbegin(); it != c.rend(); ++it) r += *it; return val(r);)
    QUERY("access", "front/back", false, if (s.empty()) return NA; S c(s); return cn(s.front()) + cn(s.back()) + cn(c.front()) + cn(c.back());)
    QUERY("access", "[size()]", false, return cn(s[s.size()]);)
    QUERY("convert", "string_type(s)", true, M r = M(s); return val(r);)
    if (IS_CHAR) QUERY("ostream", "os << s", true, return q_ostream(s, is_model<S>());)
    QUERY("substr", "substr()", false, return val(s.substr());)
    for (std::size_t p : P)
    {
        QUERY("access", "at(" + pn(p) + ")", false, S c(s); CT a = s.at(p); CT b = c.at(p); return cn(a) + cn(b);)
        if (p != npos) QUERY("access", "[" + pn(p) + "]", false, if (p >= s.size()) return NA; S c(s); return cn(s[p]) + cn(c[p]);)
        QUERY("substr", "substr(" + pn(p) + ")", false, return val(s.substr(p));)
        for (std::size_t c : CE)
        {
            if (CFG_LARGE && !(c <= 1 || c >= N - 1)) continue;
            QUERY("substr", "substr(" + pn(p) + "," + pn(c) + ")", false, return val(s.substr(p, c));)
            if (c != npos)
            {
                QUERY("copy", "copy(dest," + pn(c) + "," + pn(p) + ")", false,
                      std::unique_ptr<CT[]> d(new CT[c ? c : 1]); std::size_t k = s.copy(d.get(), c, p); return num(k) + ":" + txt(d.get(), k);)
            }
        }
    }
    for (std::size_t c : CNT) QUERY("copy", "copy(dest," + pn(c) + ")", false, std::unique_ptr<CT[]> d(new CT[c ? c : 1]); std::size_t k = s.copy(d.get(), c); return num(k) + ":" + txt(d.get(), k);)

    // ---- compare, searches and relational operators against every source operand
    std::vector<Src> all(SRC);
    for (auto& src : all)
    {
        const Src x = src;
        const bool fits = x.len() <= N;
        QUERY("compare", "compare(ptr " + x.name + ")", false, return sgn(s.compare(x.c()));)
        QUERY("compare", "compare(string " + x.name + ")", false, return sgn(s.compare(x.text));)
        if (fits) QUERY("compare", "compare(S " + x.name + ")", false, Tmp<S> o_(x.text.data(), x.text.size()); S& o = *o_; return sgn(s.compare(o));)
        for (std::size_t p1 : P)
        {
            if (p1 == npos) continue;
            for (std::size_t c1 : CE)
            {
                if (CFG_LARGE && !(c1 <= 1 || c1 == npos)) continue;
                const std::string a = pn(p1) + "," + pn(c1);
                QUERY("compare", "compare(" + a + ",ptr " + x.name + ")", false, return sgn(s.compare(p1, c1, x.c()));)
                QUERY("compare", "compare(" + a + ",string " + x.name + ")", false, return sgn(s.compare(p1, c1, x.text));)
                if (fits) QUERY("compare", "compare(" + a + ",S " + x.name + ")", false, Tmp<S> o_(x.text.data(), x.text.size()); S& o = *o_; return sgn(s.compare(p1, c1, o));)
                const bool rep_1 = (p1 == 0 && c1 == npos) || (p1 == 1 && c1 == 1) || (p1 == N && c1 == 0) || (p1 == 0 && c1 == 2);
                for (std::size_t c2 : sub_cnt(x.len()))
                {
                    if (c2 != npos && c2 <= x.len()) QUERY("compare", "compare(" + a + ",ptr " + x.name + "," + pn(c2) + ")", false, return sgn(s.compare(p1, c1, x.r(), c2));)
                    for (std::size_t p2 : sub_pos(x.len()))
                    {
                        if (!rep_1 && !((p2 == 0 && c2 == npos) || (p2 == 1 && c2 == 1))) continue;
                        QUERY("compare", "compare(" + a + ",string " + x.name + "," + pn(p2) + "," + pn(c2) + ")", false, return sgn(s.compare(p1, c1, x.text, p2, c2));)
                        if (fits) QUERY("compare", "compare(" + a + ",S " + x.name + "," + pn(p2) + "," + pn(c2) + ")", false, Tmp<S> o_(x.text.data(), x.text.size()); S& o = *o_; return sgn(s.compare(p1, c1, o, p2, c2));)
                    }
                }
                for (std::size_t p2 : sub_pos(x.len()))
                {
                    QUERY("compare", "compare(" + a + ",string " + x.name + "," + pn(p2) + ")", false, return sgn(s.compare(p1, c1, x.text, p2));)
                    if (fits) QUERY("compare", "compare(" + a + ",S " + x.name + "," + pn(p2) + ")", false, Tmp<S> o_(x.text.data(), x.text.size()); S& o = *o_; return sgn(s.compare(p1, c1, o, p2));)
                }
            }
        }
#define SEARCH(fn) \
        QUERY(#fn, #fn "(ptr " + x.name + ")", false, return num(s.fn(x.c()));) \
        QUERY(#fn, #fn "(string " + x.name + ")", false, return num(s.fn(x.text));) \
        if (fits) QUERY(#fn, #fn "(S " + x.name + ")", false, Tmp<S> o_(x.text.data(), x.text.size()); S& o = *o_; return num(s.fn(o));) \
        for (std::size_t p : P) { \
            QUERY(#fn, #fn "(ptr " + x.name + "," + pn(p) + ")", false, return num(s.fn(x.c(), p));) \
            QUERY(#fn, #fn "(string " + x.name + "," + pn(p) + ")", false, return num(s.fn(x.text, p));) \
            if (fits) QUERY(#fn, #fn "(S " + x.name + "," + pn(p) + ")", false, Tmp<S> o_(x.text.data(), x.text.size()); S& o = *o_; return num(s.fn(o, p));) \
            for (std::size_t c = 0; c <= x.len(); ++c) { if (CFG_LARGE && c > 1 && c < x.len()) continue; \
                QUERY(#fn, #fn "(ptr " + x.name + "," + pn(p) + "," + pn(c) + ")", false, return num(s.fn(x.r(), p, c));) } \
        }
        SEARCH(find) SEARCH(rfind) SEARCH(find_first_of) SEARCH(find_first_not_of) SEARCH(find_last_of) SEARCH(find_last_not_of)
#undef SEARCH
#define REL(op, opname) \
        QUERY("relational", "s " opname " ptr " + x.name, false, return boolean(s op x.c());) \
        QUERY("relational", "ptr " + x.name + " " opname " s", false, return boolean(x.c() op s);) \
        QUERY("relational", "s " opname " string " + x.name, false, return boolean(s op x.text);) \
        QUERY("relational", "string " + x.name + " " opname " s", false, return boolean(x.text op s);) \
        if (fits) QUERY("relational", "s " opname " S " + x.name, false, Tmp<S> o_(x.text.data(), x.text.size()); S& o = *o_; return boolean(s op o) + boolean(o op s);)
        REL(==, "==") REL(!=, "!=") REL(<, "<") REL(<=, "<=") REL(>, ">") REL(>=, ">=")
#undef REL
    }
    // ---- searches whose argument CONTAINS NUL, for every family and every overload that can carry one: a std::basic_string and a
    // fixed-string argument with embedded NUL (defaulted position and every position of P), the counted pointer overload with every
    // count that reaches a NUL, and the character overload with ch == NUL (below). A search does not modify the string, so these
    // are asked in every layout; only the fixed-string ARGUMENT is left out for the strlen layout (it cannot hold an embedded NUL).
    for (auto& src : QN)
    {
        const Src x = src;
#define SEARCHN(fn) \
        QUERYN(#fn, #fn "(string " + x.name + ")", return num(s.fn(x.text));) \
        if (!STRLEN) QUERYN(#fn, #fn "(S " + x.name + ")", Tmp<S> o_(x.text.data(), x.text.size()); S& o = *o_; return num(s.fn(o));) \
        for (std::size_t p : P) { \
            QUERYN(#fn, #fn "(string " + x.name + "," + pn(p) + ")", return num(s.fn(x.text, p));) \
            if (!STRLEN) QUERYN(#fn, #fn "(S " + x.name + "," + pn(p) + ")", Tmp<S> o_(x.text.data(), x.text.size()); S& o = *o_; return num(s.fn(o, p));) \
            for (std::size_t c = 1; c <= x.len(); ++c) { if (x.text.find(CT(0)) >= c) continue; \
                QUERYN(#fn, #fn "(ptr " + x.name + "," + pn(p) + "," + pn(c) + ")", return num(s.fn(x.r(), p, c));) } \
        }
        SEARCHN(find) SEARCHN(rfind) SEARCHN(find_first_of) SEARCHN(find_first_not_of) SEARCHN(find_last_of) SEARCHN(find_last_not_of)
#undef SEARCHN
    }
    std::vector<CT> chq(CH);
    chq.push_back(CT(0));
    for (CT c : chq)
    {
#define SEARCHC(fn) \
        QUERY(#fn, #fn "(" + cn(c) + ")", false, return num(s.fn(c));) g_queries.back().nul_arg = (c == CT(0)); \
        for (std::size_t p : P) { QUERY(#fn, #fn "(" + cn(c) + "," + pn(p) + ")", false, return num(s.fn(c, p));) g_queries.back().nul_arg = (c == CT(0)); }
        SEARCHC(find) SEARCHC(rfind) SEARCHC(find_first_of) SEARCHC(find_first_not_of) SEARCHC(find_last_of) SEARCHC(find_last_not_of)
#undef SEARCHC
    }
    // C14: hash coherence — the hash of a string reached by any history equals the hash of a freshly built equal string
    {
        auto gi = [](const F& s) -> std::string { return q_hash(s, std::false_type()); };
        auto gm = [](const M& s) -> std::string { return q_hash(s, std::true_type()); };
        add_q("C14:hash", "std::hash", gi, gm, false);
    }
}

int main(int argc, char** argv)
{
    std::string replay_trace;
    bool replay = false;
    int depth = 1 << 30;
    long long max_states = 1LL << 40;
    double deadline = 1e18;
    for (int i = 1; i < argc; ++i)
    {
        std::string a = argv[i];
        if (a == "--replay") { replay = true; ++i; replay_trace = argv[++i]; }
        else if (a == "--depth") depth = atoi(argv[++i]);
        else if (a == "--max-states") max_states = atoll(argv[++i]);
        else if (a == "--deadline") deadline = atof(argv[++i]);
    }
    setup_alphabets();
    Ex ex;
    ex.prop = "C01";
    ex.san_kind = "C02:sanitizer-report";   // an out-of-bounds access is a C02 matter
    ex.inst = CFG_NAME;
    ex.max_depth = depth;
    ex.max_states = max_states;
    ex.deadline_s = deadline;
    build_ops(ex);
    if (CFG_CH2 == 'b') build_stream_ops<CT>(ex);   // stream inputs are written over {a,b,blank}; keep the high-byte alphabets closed
    build_queries();
    ex.check_state = check_state;
    std::vector<World> inits;
    inits.push_back(World::make(0xA5));
    inits.push_back(World::make(0x00));
    for (int k = 0; k < 2; ++k) g_frame[k] = inits[size_t(k)].mem;
#if CFG_LARGE
    // seeds of length 1, N-1 and N built with the real operations
    {
        std::size_t lens[] = {1, N - 1, N};
        for (std::size_t L : lens)
        {
            World w = World::make(0xA5);
            for (std::size_t i = 0; i < L; ++i) { w.f().push_back(CT(i % 2 ? 'b' : 'a')); w.model.push_back(CT(i % 2 ? 'b' : 'a')); }
            inits.push_back(w);
        }
    }
#endif
    if (replay) { ex.replay(inits, replay_trace); vf::done(); return 0; }
    ex.run(inits);
    ex.summarize(depth == (1 << 30));
    vf::stat("operation_instances", (long long)ex.ops.size());
    vf::stat("query_instances", (long long)g_queries.size());
    vf::stat("query_evaluations", g_query_evals);
    {
        long long nq = 0;
        for (auto& q : g_queries) nq += q.nul_arg ? 1 : 0;
        vf::stat("nul_argument_search_query_instances", nq);
        vf::stat("nul_argument_search_query_evaluations", g_nul_query_evals);
        vf::stat("alias_with_terminator_operation_instances", g_term_alias_ops);
        vf::stat("alias_with_terminator_transitions", g_term_alias_transitions);
    }
    vf::stat("expected_length_error_transitions", g_expected_len);
    vf::stat("expected_out_of_range_transitions", g_expected_oor);
    vf::done();
    return 0;
}
