"""C01 fixed string == bounded std::basic_string: explicit-state BFS over raw buffer states, all layouts / policies."""
import fscommon

LEVEL = "model_checking"


def run(ctx):
    fscommon.run(ctx, "C01")
    ctx.rule = ("BFS from the default-constructed string over raw states (size() plus the whole N+1 element buffer incl. stale bytes behind the terminator); every operation instance "
                "(9 constructors, 4 operator=, 10 assign, element writes, clear, push/pop_back, 2 resize, swap x2, 11 insert, 3 erase, 9 append, 5 +=, 14 replace, 12 operator+, >> and getline; "
                "positions/counts 0..N+1, far, npos; source operands = all strings over {a,b} of length <= 2 plus lengths N and N+1, NUL-containing ones for counted overloads) applied to every reachable state, "
                "each written once as a generic lambda and executed on the fixed string and on std::basic_string; return values, exceptions and the observable state compared; "
                "every new state answers ~5k queries (size/data/iteration/at/substr/copy/9 compare/6 search families x 5 overloads incl. defaulted positions/30 relational operators/ostream/conversion/hash). "
                "small capacities to fixpoint, capacities 200/256 depth-bounded from seeds of length 0,1,N-1,N")
    ctx.assumptions += [
        "libstdc++ std::basic_string is the reference; resize(n) is modelled as resize(n, ' ') (documented blank fill)",
        "arguments that alias the target ARE in the alphabet (the string as its own operand, pointers and iterators into its own buffer) wherever std::basic_string defines the call; calls that are undefined for std::string itself (pop_back/front on empty, iterators outside [begin,end]) are not in the alphabet",
        "embedded NUL only through explicitly counted overloads and never in the strlen layout; stream extraction that fails (no token) is not judged",
        "wchar_t is not instantiated: xbasic_fixed_string<wchar_t> with a stored size is ill-formed on this tree (1u << 32) and the strlen layout only supports char",
        "silent policy: instances whose result would exceed N or whose position is invalid are caller-precondition violations and are skipped",
    ]


def replay(ctx, rec):
    fscommon.replay(ctx, rec, "C01")
