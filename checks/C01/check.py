"""C01 fixed string == bounded std::basic_string: explicit-state BFS over raw buffer states, all layouts / policies."""
import fscommon

LEVEL = "model_checking"


def run(ctx):
    fscommon.run(ctx, "C01")
    ctx.rule = ("BFS from the default-constructed string over raw states (size() plus the whole N+1 element buffer incl. stale bytes behind the terminator); every operation instance "
                "(9 constructors, 4 operator=, 10 assign, element writes, clear, push/pop_back, 2 resize, swap x2, 11 insert, 3 erase, 9 append, 5 +=, 14 replace, 12 operator+, >> and getline; "
                "positions/counts 0..N+1, far, npos; source operands = all strings over {a,b} of length <= 2 plus lengths N and N+1, NUL-containing ones for counted overloads) applied to every reachable state, "
                "each written once as a generic lambda and executed on the fixed string and on std::basic_string; return values, exceptions and the observable state compared; "
                "every new state answers ~5k queries (size/data/iteration/at/substr/copy/9 compare/6 search families x 5 overloads incl. defaulted positions/30 relational operators/ostream/conversion/hash). "
                "small capacities to fixpoint, capacities 200/256 depth-bounded from seeds of length 0,1,N-1,N. "
                "ALIAS-WITH-TERMINATOR part: besides the own sub-ranges [p,p+c) with p+c <= size(), every counted overload (pointer+count and iterator pair given as pointers) of "
                "assign/append/insert/replace is also applied with the own ranges that END ON the string's terminator, p+c == size()+1 for every length c in 0..N+1 (c==1: the terminator alone, "
                "c==0: the empty range behind it; 200/256: c in {0,1,2,N/2,N,N+1}), crossed with every insert position 0..N+1, every erased count 0..N+1/npos and every iterator range; the model is "
                "std::basic_string given a DISJOINT copy of that range taken before the call (alias_with_terminator_operation_instances / _transitions). "
                "NUL-ARGUMENT SEARCH part: all 6 search families x every overload that can carry a NUL (ch == NUL; counted pointer with every count reaching a NUL; std::basic_string argument; fixed-string argument) "
                "x every string over {a,b,NUL} of length <= 2 with at least one NUL (200/256: 3 of them) x defaulted position and every position of the alphabet (0..N+1, far, npos), asked in every reachable state "
                "of every layout (nul_argument_search_query_instances / _evaluations)")
    ctx.assumptions += [
        "libstdc++ std::basic_string is the reference; resize(n) is modelled as resize(n, ' ') (documented blank fill)",
        "arguments that alias the target ARE in the alphabet (the string as its own operand, pointers and iterators into its own buffer) wherever std::basic_string defines the call; calls that are undefined for std::string itself (pop_back/front on empty, iterators outside [begin,end]) are not in the alphabet",
        "embedded NUL only through explicitly counted overloads and never in the strlen layout; stream extraction that fails (no token) is not judged",
        "own ranges that include the terminator put a NUL into the content, so for the strlen layout only the empty range behind the terminator (c == 0) is applied; search ARGUMENTS containing NUL are asked in every layout, "
        "except that a fixed-string argument with embedded NUL cannot be built in the strlen layout",
        "append(const_pointer, count) with an own range of c >= 2 elements that ENDS ON the string's own terminator is NOT in the alphabet: source [size()-(c-1), size()+1) and destination [size(), size()+c) share exactly the "
        "element data()[size()], a formal char_traits::copy overlap of exactly one element (ASan memcpy-param-overlap at xbasic_fixed_string.hpp:1395), shared with libstdc++'s basic_string::append (identical traits copy in its "
        "no-reallocation path), result judged equal to the model by a probe; neither the C01 equality nor the C02 buffer-bounds statement is contradicted. c == 1 on the terminator, c == 0, the iterator-pair append (std::copy) "
        "and all ranges ending before the terminator stay in",
        "wchar_t is not instantiated: xbasic_fixed_string<wchar_t> with a stored size is ill-formed on this tree (1u << 32) and the strlen layout only supports char",
        "silent policy: instances whose result would exceed N or whose position is invalid are caller-precondition violations and are skipped",
    ]


def replay(ctx, rec):
    fscommon.replay(ctx, rec, "C01")
