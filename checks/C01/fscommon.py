"""Shared driver of the fixed-string explorer (C01, C02 and the fixed-string part of C14)."""
import os
import vlib

HERE = os.path.dirname(os.path.abspath(__file__))
SRC = os.path.join(HERE, "harness.cpp")

PACKED = "(xtl::buffer|xtl::store_size)"
STRLEN = "xtl::buffer"
FIELD = "64"

# name: (CT, N, ST, throwing, large[, second character of the alphabet])
INSTS = {
    "P3h-t":  ("char", 3, PACKED, 1, 0, "'\\x80'"),
    "S3h-t":  ("char", 3, STRLEN, 1, 0, "'\\x80'"),
    "F3h":    ("char", 3, FIELD, 0, 0, "'\\xff'"),
    "P3c":    ("char", 3, PACKED, 0, 0),
    "P3c-t":  ("char", 3, PACKED, 1, 0),
    "P3u-t":  ("char16_t", 3, PACKED, 1, 0),
    "F3":     ("char", 3, FIELD, 0, 0),
    "F3-t":   ("char", 3, FIELD, 1, 0),
    "S3":     ("char", 3, STRLEN, 0, 0),
    "S3-t":   ("char", 3, STRLEN, 1, 0),
    "P4c-t":  ("char", 4, PACKED, 1, 0),
    "F4-t":   ("char", 4, FIELD, 1, 0),
    "S4-t":   ("char", 4, STRLEN, 1, 0),
    "S4":     ("char", 4, STRLEN, 0, 0),
    "P4u":    ("char16_t", 4, PACKED, 0, 0),
    "P200-t": ("char", 200, PACKED, 1, 1),
    "P255-t": ("char", 255, PACKED, 1, 1),
    "F256-t": ("char", 256, PACKED, 1, 1),   # the library's own selection: capacity >= 256 gets the size-field storage
    "F256":   ("char", 256, PACKED, 0, 1),
}


def optional_inst(name):
    """instantiations that rely on selecting the library's size-field storage for a small N through detail::select_storage<64>
    (a harness-side specialisation of a library-internal template): capability-probed, see DESIGN.md section 5"""
    return INSTS[name][2] == FIELD


def build(name, san="asan-ubrecover", opt="-O1"):
    ct, n, st, thr, large = INSTS[name][:5]
    defs = ['CFG_NAME="%s"' % name, "CFG_CT=%s" % ct, "CFG_N=%d" % n, "CFG_ST=%s" % st, "CFG_THROW=%d" % thr, "CFG_LARGE=%d" % large]
    if len(INSTS[name]) > 5:
        defs.append("CFG_CH2=%s" % INSTS[name][5])
    return vlib.compile_cxx(SRC, "c01-" + name.replace("/", "_"), std="c++14", opt=opt, san=san, defines=defs, expect_fail=optional_inst(name))


def plan(tier, which):
    """returns list of (inst, extra args, san, opt)"""
    if which == "C14":
        base = [("P3c-t", [], "asan-ubrecover", "-O1"), ("F3-t", [], "asan-ubrecover", "-O1"), ("S3-t", [], "asan-ubrecover", "-O1"), ("P3u-t", [], "asan-ubrecover", "-O1")]
        return base
    if tier == "quick":
        small = ["P3c", "P3c-t", "P3u-t", "F3", "F3-t", "S3", "S3-t", "P3h-t", "S3h-t"]
        if which == "C02":
            small = ["P3c-t", "P3u-t", "F3-t", "S3-t", "P3c", "S3", "P3h-t"]
        pl = [(n, [], "asan-ubrecover", "-O1") for n in small]
        pl += [("P200-t", ["--depth", "2", "--max-states", "12000"], "asan-ubrecover", "-O1"),
               ("F256-t", ["--depth", "2", "--max-states", "12000"], "asan-ubrecover", "-O1")]
        return pl
    small = ["P3c", "P3c-t", "P3u-t", "F3", "F3-t", "S3", "S3-t", "P3h-t", "S3h-t", "F3h"]
    pl = [(n, [], "asan-ubrecover", "-O1") for n in small]
    pl += [(n, [], "none", "-O2") for n in ["P4c-t", "F4-t", "S4-t", "S4", "P4u"]]
    pl += [("P200-t", ["--depth", "3", "--max-states", "40000"], "none", "-O2"),
           ("P255-t", ["--depth", "3", "--max-states", "40000"], "none", "-O2"),
           ("F256-t", ["--depth", "3", "--max-states", "40000"], "none", "-O2"),
           ("F256", ["--depth", "3", "--max-states", "40000"], "none", "-O2")]
    return pl


def owner(sig):
    """which property a violation signature belongs to"""
    kind = sig.split("/")[-1]
    if kind.startswith("C02:"):
        return "C02"
    if kind.startswith("C14:"):
        return "C14"
    return "C01"


def owned_by(sig, which):
    """a hard crash inside an operation (abort, SIGSEGV) breaks both statements: std::basic_string does not crash there (C01) and a call
    must return normally, throw or terminate per the error policy without touching memory outside the buffer (C02)"""
    if sig.split("/")[-1] == "crash" and which in ("C01", "C02"):
        return True
    return owner(sig) == which


def run(ctx, which):
    pl = plan(ctx.tier, which)
    bins = vlib.parallel([(lambda p=p: build(p[0], p[2], p[3])) for p in pl])
    dropped = [p[0] for b, p in zip(bins, pl) if b is None]
    if dropped:
        # the size-field layout is then only covered by the library's own selection (capacity >= 256)
        ctx.note("capability probe: instantiation(s) %s no longer compile (detail::select_storage<64> specialisation); the size-field layout is covered by F256* only in this run" % ", ".join(dropped))
        if not any(p[0].startswith("F256") for p in pl):
            raise vlib.HarnessError("size-field storage instantiations do not compile and no F256 instantiation is planned: %s" % dropped)
        keep = [(b, p) for b, p in zip(bins, pl) if b is not None]
        bins, pl = [k[0] for k in keep], [k[1] for k in keep]
    dl = str(int(max(60, ctx.time_left() - 40)))
    sub = vlib.Ctx(ctx.pid, ctx.tier, ctx.level, ctx.seed)
    jobs = [(lambda b=b, p=p: sub.run_harness(b, p[1] + ["--deadline", dl], tag=p[0])) for b, p in zip(bins, pl)]
    vlib.parallel(jobs)
    # keep what belongs to this property
    ctx.stats.update(sub.stats)
    ctx.maxes.update(sub.maxes)
    ctx.samples += sub.samples
    ctx.notes += sub.notes
    for c in sub.caps:
        ctx.cap(c)
    other = 0
    for v in sub.viols:
        if owned_by(v["sig"], which):
            v = dict(v)
            v["sig"] = which + v["sig"][3:]
            ctx.viols.append(v)
        else:
            other += 1
    if other:
        ctx.note("%d violation reports of this run belong to other properties (%s) and are reported by their checks" % (other, ", ".join(sorted(set(owner(v["sig"]) for v in sub.viols) - {which}))))
    ctx.stats["distinct_nontrivial"] = ctx.stats.get("states", 0)
    ctx.stats["evaluations"] = ctx.stats.get("transitions", 0) + ctx.stats.get("query_evaluations", 0)


def replay(ctx, rec, which):
    inst = rec["harness"]
    pl = [p for p in plan(rec.get("tier", "quick"), which) if p[0] == inst]
    san, opt = (pl[0][2], pl[0][3]) if pl else ("asan-ubrecover", "-O1")
    sub = vlib.Ctx(ctx.pid, ctx.tier, ctx.level, 0)
    sub.run_harness(build(inst, san, opt), rec["args"], tag=inst)
    for v in sub.viols:
        if owned_by(v["sig"], which):
            v = dict(v)
            v["sig"] = which + v["sig"][3:]
            ctx.viols.append(v)
