"""C15 cmp_* — exhaustive enumeration of value pairs for every ordered pair of integer types, oracle __int128."""
import os
import vlib

LEVEL = "exploration"
HERE = os.path.dirname(os.path.abspath(__file__))
SRC = os.path.join(HERE, "harness.cpp")


def build():
    return vlib.compile_cxx(SRC, "c15", std="c++14", opt="-O2", san="none")


def run(ctx):
    binary = build()
    full_bits = "24" if ctx.tier == "quick" else "32"
    n = 121 if ctx.tier == "thorough" else 16
    jobs = [(lambda k=k: ctx.run_harness(binary, ["--shard", str(k), str(n), "--full-bits", full_bits], tag="c15"))
            for k in range(n)]
    vlib.parallel(jobs)
    ctx.rule = ("all 121 ordered pairs of {int8,uint8,int16,uint16,int32,uint32,int64,uint64,char,long long,unsigned long long} x 6 functions; "
                "ALL value pairs when bits(T)+bits(U) <= %s, otherwise (all values of a <=16-bit side x boundary alphabet of the other) and boundary x boundary "
                "with boundary = {min,min+1,-1,0,1,2,max-1,max, +-2^k-1, +-2^k, +-2^k+1 : k in 7,8,15,16,31,32,63}; oracle = comparison in __int128. "
                "non-trivial = value pairs on which the builtin ==, < or > on the promoted operands differs from the mathematical answer" % full_bits)
    ctx.assumptions += ["__int128 comparison is the reference", "bool, wchar_t, char16_t/char32_t are not in the type alphabet",
                        "wider-than-16-bit types are covered by the boundary alphabet, not exhaustively"]
    ctx.note("constant-expression use and noexcept are static_asserted for every type pair and function in the harness")


def replay(ctx, rec):
    binary = build()
    ctx.run_harness(binary, rec["args"], tag="c15")
