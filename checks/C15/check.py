"""C15 cmp_* — exhaustive enumeration of value pairs for every ordered pair of integer types, oracle __int128."""
import os
import vlib
import c15_matrix

LEVEL = "exploration"
HERE = os.path.dirname(os.path.abspath(__file__))
SRC = os.path.join(HERE, "harness.cpp")


WIDE = os.path.join(HERE, "wide.cpp")
DIALECTS = ["c++17", "c++20"]      # besides the default c++14
GNU = ["gnu++14", "gnu++20"]


def build(std="c++14"):
    """std may carry the char-signedness flavour: "c++14,-funsigned-char" (plain char unsigned, as on ARM / PowerPC Linux)"""
    if std == "c++14":
        return vlib.compile_cxx(SRC, "c15", std="c++14", opt="-O2", san="none")
    base, _, flag = std.partition(",")
    return vlib.compile_cxx(SRC, "c15-" + std.replace("+", "x").replace(",", ""), std=base, opt="-O2", san="none", defines=['C15_TAG="[%s]"' % std], flags=[flag] if flag else [])


UCHAR = ["c++14,-funsigned-char", "c++20,-funsigned-char"]


def build_wide(std):
    return vlib.compile_cxx(WIDE, "c15-wide-" + std.replace("+", "x"), std=std, opt="-O1", san="none", defines=['C15_TAG="[%s]"' % std])


TYPES = [("int8_t", True, 8, "std::int8_t"), ("uint8_t", False, 8, "std::uint8_t"), ("int16_t", True, 16, "std::int16_t"), ("uint16_t", False, 16, "std::uint16_t"),
         ("int32_t", True, 32, "std::int32_t"), ("uint32_t", False, 32, "std::uint32_t"), ("int64_t", True, 64, "std::int64_t"), ("uint64_t", False, 64, "std::uint64_t"),
         ("char", True, 8, "char"), ("long long", True, 64, "long long"), ("unsigned long long", False, 64, "unsigned long long")]
FUNCS = [("cmp_equal", lambda a, b: a == b), ("cmp_not_equal", lambda a, b: a != b), ("cmp_less", lambda a, b: a < b),
         ("cmp_greater", lambda a, b: a > b), ("cmp_less_equal", lambda a, b: a <= b), ("cmp_greater_equal", lambda a, b: a >= b)]


TYPES128 = [("int128", True, 128, "__int128"), ("uint128", False, 128, "unsigned __int128")]


def _vals(signed, bits):
    if signed:
        return [("min", -(1 << (bits - 1))), ("neg", -1), ("zero", 0), ("pos", 1), ("max", (1 << (bits - 1)) - 1)]
    return [("zero", 0), ("pos", 1), ("max", (1 << bits) - 1)]


def _lit(cxx, signed, bits, v):
    if signed and v == -(1 << (bits - 1)):
        return "std::numeric_limits<%s>::min()" % cxx
    if bits == 128:
        if v == (1 << (127 if signed else 128)) - 1:
            return "std::numeric_limits<%s>::max()" % cxx
        return "static_cast<%s>(%d)" % (cxx, v)
    return "static_cast<%s>(%d%s)" % (cxx, v, "ULL" if not signed else "LL")


def constexpr_cases(wide=False, uchar=False):
    """Every function x ordered type pair x sign/extreme class of both operands: (case id, static_assert line).
    wide: the pairs that involve a 128-bit type (GNU dialects only)."""
    cases = []
    all_types = TYPES + (TYPES128 if wide else [])
    if uchar:   # -funsigned-char: plain char is an unsigned 8-bit type
        all_types = [(n, False if n == "char" else sg, b, c) for (n, sg, b, c) in all_types]
    for (tn, ts, tb, tc) in all_types:
        for (un, us, ub, uc) in all_types:
            if wide and tb != 128 and ub != 128:
                continue
            for (fn, f) in FUNCS:
                for (an, av) in _vals(ts, tb):
                    for (bn, bv) in _vals(us, ub):
                        cid = "%s/%s,%s/%s,%s" % (fn, tn, un, an, bn)
                        exp = "true" if f(av, bv) else "false"
                        cases.append((cid, "static_assert(xtl::%s(%s, %s) == %s, \"%s\");" % (fn, _lit(tc, ts, tb, av), _lit(uc, us, ub, bv), exp, cid),
                                      "%s(%s(%d), %s(%d))" % (fn, tn, av, un, bv), exp))
    return cases


def constexpr_part(ctx, only=None, wide=False, uchar=False):
    """Usable in constant expressions: one generated TU with one static_assert per case and line; every failing line is a violation."""
    import subprocess
    cases = constexpr_cases(wide, uchar)
    if only is not None:
        cases = [c for c in cases if c[0] == only]
        if not cases:
            return
    gen = os.path.join(vlib.VERIF, "build", "c15gen")
    os.makedirs(gen, exist_ok=True)
    src = os.path.join(gen, "constexpr_cases%s%s%s.cpp" % ("_wide" if wide else "", "_uchar" if uchar else "", "" if only is None else "_one"))
    head = ["#include <xtl/xcompare.hpp>", "#include <cstdint>", "#include <limits>"]
    with open(src, "w") as f:
        f.write("\n".join(head) + "\n" + "\n".join(c[1] for c in cases) + "\nint main() { return 0; }\n")
    first = len(head) + 1
    configs = [("g++", "c++14"), ("g++", "c++17"), ("g++", "c++20"), ("clang++", "c++14"), ("clang++", "c++17"), ("clang++", "c++20")]
    if wide:
        configs = [("g++", "gnu++14"), ("g++", "gnu++20"), ("clang++", "gnu++14")]
    if uchar:
        configs = [("g++", "c++14"), ("clang++", "c++17"), ("g++", "c++20")]
    extra = ["-funsigned-char"] if uchar else []

    def one(cfg):
        cxx, std = cfg
        r = subprocess.run([cxx, "-std=" + std] + extra + ["-fsyntax-only", "-ferror-limit=0" if cxx == "clang++" else "-fmax-errors=0", "-I" + vlib.INCLUDE, src],
                           stdout=subprocess.PIPE, stderr=subprocess.PIPE, text=True)
        bad = {}
        for line in r.stderr.splitlines():
            if line.startswith(src + ":") and " error: " in line:
                try:
                    ln = int(line.split(":")[1])
                except ValueError:
                    continue
                if first <= ln < first + len(cases):
                    bad.setdefault(ln - first, line.split(" error: ", 1)[1][:200])
        if r.returncode != 0 and not bad:
            raise vlib.HarnessError("C15 constexpr TU failed to compile outside the static_asserts (%s -std=%s): %s" % (cxx, std, r.stderr[-1500:]))
        return cfg, bad
    res = vlib.parallel([(lambda c=c: one(c)) for c in configs])
    fails = {}
    for cfg, bad in res:
        for i, why in bad.items():
            fails.setdefault(i, []).append(("%s -std=%s" % cfg, why))
    ctx.stats["constexpr_cases"] = ctx.stats.get("constexpr_cases", 0) + len(cases)
    ctx.stats["constexpr_evaluations"] = ctx.stats.get("constexpr_evaluations", 0) + len(cases) * len(configs)
    for i, lst in sorted(fails.items()):
        cid, _, call, exp = cases[i]
        fn, pair, cls = cid.split("/")
        wrong = "non-constant" not in lst[0][1] and "not a constant" not in lst[0][1] and "constant expression" not in lst[0][1] and "static assertion failed" in lst[0][1].replace("static_assert failed", "static assertion failed")
        kind = "wrong-value-at-compile-time" if wrong else "not-a-constant-expression"
        ctx.violation("C15/constexpr%s/%s/%s/%s/%s" % ("[-funsigned-char]" if uchar else "", fn, pair, cls, kind),
                      "%s%s must be usable in a constant expression and yield %s; %s: %s (%d configuration(s))" % ("[-funsigned-char] " if uchar else "", call, exp, lst[0][0], lst[0][1], len(lst)),
                      args=["--constexpr-case-uchar" if uchar else "--constexpr-case", cid])


def run(ctx):
    constexpr_part(ctx)
    constexpr_part(ctx, wide=True)
    constexpr_part(ctx, uchar=True)
    binary = build()
    full_bits = "24" if ctx.tier == "quick" else "32"
    n = 121 if ctx.tier == "thorough" else 16
    jobs = [(lambda k=k: ctx.run_harness(binary, ["--shard", str(k), str(n), "--full-bits", full_bits], tag="c15"))
            for k in range(n)]
    # the other language dialects (the header may select other code, e.g. by feature-test macros): all 8-bit pairs exhaustively
    # plus the boundary products (quick), the same bounds as the default dialect (thorough)
    others = vlib.parallel([(lambda d=d: build(d)) for d in DIALECTS])
    fb2, n2 = ("16", 4) if ctx.tier == "quick" else (full_bits, 32)
    for d, b in zip(DIALECTS, others):
        jobs += [(lambda k=k, b=b, d=d: ctx.run_harness(b, ["--shard", str(k), str(n2), "--full-bits", fb2], tag="c15-" + d)) for k in range(n2)]
    # plain char unsigned (-funsigned-char; the default on ARM / PowerPC Linux): int8_t is still signed char, char is not
    ub = vlib.parallel([(lambda d=d: build(d)) for d in UCHAR])
    for d, b in zip(UCHAR, ub):
        jobs += [(lambda k=k, b=b, d=d: ctx.run_harness(b, ["--shard", str(k), str(n2), "--full-bits", fb2], tag="c15-" + d)) for k in range(n2)]
    wides = vlib.parallel([(lambda d=d: build_wide(d)) for d in GNU])
    jobs += [(lambda b=b, d=d: ctx.run_harness(b, [], tag="c15-wide-" + d)) for d, b in zip(GNU, wides)]
    vlib.parallel(jobs)
    # the operand-TYPE matrix: every integer type of the build (bool, the character types, ...), capability probed (c15_matrix.py)
    c15_matrix.run(ctx)
    m_rule, m_assumptions = c15_matrix.describe(ctx)
    ctx.rule = ("all 121 ordered pairs of {int8,uint8,int16,uint16,int32,uint32,int64,uint64,char,long long,unsigned long long} x 6 functions; "
                "ALL value pairs when bits(T)+bits(U) <= %s, otherwise (all values of a <=16-bit side x boundary alphabet of the other) and boundary x boundary "
                "with boundary = {min,min+1,-1,0,1,2,max-1,max, +-2^k-1, +-2^k, +-2^k+1 : k in 7,8,15,16,31,32,63}; oracle = comparison in __int128. "
                "non-trivial = value pairs on which the builtin ==, < or > on the promoted operands differs from the mathematical answer. "
                "DIALECTS: the same enumeration built as C++17 and C++20 (quick: all pairs of 8-bit types exhaustively + boundary products). "
                "CHAR SIGNEDNESS: the same enumeration (dialect bounds) and the constant-expression cases built with -funsigned-char (plain char unsigned, int8_t still signed) as C++14 and C++20. "
                "128-BIT: in the GNU dialects (gnu++14, gnu++20) __int128 / unsigned __int128 paired with every type and each other over a boundary alphabet "
                "(min, max, 0, +-1, +-2^k +-{0,1,5} for k up to 127), oracle = comparison of (sign, 128-bit magnitude). " % full_bits) + m_rule
    ctx.assumptions += ["__int128 comparison is the reference (value parts), comparison of (sign, 128-bit magnitude) in the 128-bit and operand-type-matrix parts",
                        "bool, wchar_t, char16_t/char32_t (and char8_t) are in the type alphabet of the operand-type matrix only: all values of the one-byte types and of bool, "
                        "the boundary alphabet for the wider ones; the exhaustive 8 x 16 / 16 x 16 bit products are made for the fixed-width types, char and long long",
                        "wider-than-16-bit types are covered by the boundary alphabet, not exhaustively"] + m_assumptions
    ctx.note("constant-expression use: a generated TU with one static_assert per (function, ordered type pair, operand class pair with classes min/neg/zero/pos/max) = %d cases, compiled by g++ and clang++ at C++14, C++17 and C++20; every failing line is reported with its case id" % ctx.stats.get("constexpr_cases", 0))


def replay(ctx, rec):
    if c15_matrix.replay(ctx, rec):
        return
    if rec["args"] and rec["args"][0] == "--constexpr-case-uchar":
        constexpr_part(ctx, only=rec["args"][1], uchar=True)
        return
    if rec["args"] and rec["args"][0] == "--constexpr-case":
        constexpr_part(ctx, only=rec["args"][1])
        constexpr_part(ctx, only=rec["args"][1], wide=True)
        return
    h = rec.get("harness") or ""
    if h.startswith("c15-wide-"):
        ctx.run_harness(build_wide(h[len("c15-wide-"):]), rec["args"], tag=h)
        return
    if h.startswith("c15-"):
        ctx.run_harness(build(h[len("c15-"):]), rec["args"], tag=h)
        return
    binary = build()
    ctx.run_harness(binary, rec["args"], tag="c15")
