// C15 (operand-type matrix, run-time part). Included by a GENERATED translation unit (checks/C15/c15_matrix.py) that defines
//
//   C15_TAG                 the build this is, e.g. "[c++14]" or "[c++20,-funsigned-char]"
//   C15M_TYPES(X)           X(index, type, "display name") for every type of the alphabet of this build, i.e. every candidate
//                           type that exists in this build and for which std::is_integral is true (probed, not assumed)
//   C15M_PAIRS(X)           X(pair index, index of T, index of U, mask) for every ordered pair of alphabet types; bit i of mask
//                           says that the call of function i with (T, U) is well-formed on the tree under test (capability
//                           probe); a function whose bit is clear is never instantiated here
//
// For every pair: value alphabet of T x value alphabet of U, all six functions on each value pair, judged against the
// comparison of the mathematical values held as (sign, 128-bit magnitude) - bool counts as false = 0, true = 1.
#include <xtl/xcompare.hpp>
#include "report.hpp"

#include <cstdint>
#include <limits>
#include <string>
#include <type_traits>
#include <vector>

typedef unsigned __int128 u128;

namespace c15m
{
    // ---- the reference: a mathematical integer as sign and magnitude ----
    struct Z { bool neg; u128 mag; };
    template <class T> Z toZ(T t)
    {
        // for a negative value the conversion to the 128-bit unsigned type is the sign extension, 0 - that is the magnitude
        const bool n = t < T(0);
        return n ? Z{true, u128(0) - u128(t)} : Z{false, u128(t)};
    }
    inline int cmpZ(const Z& a, const Z& b)
    {
        if (a.neg != b.neg) return a.neg ? -1 : 1;
        if (a.mag == b.mag) return 0;
        bool less = a.mag < b.mag;
        if (a.neg) less = !less;
        return less ? -1 : 1;
    }
    inline std::string sZ(const Z& z)
    {
        u128 u = z.mag; std::string s;
        do { s.insert(s.begin(), char('0' + int(u % 10))); u /= 10; } while (u);
        return (z.neg ? "-" : "") + s;
    }
    inline Z parseZ(const char* s) { Z z{false, 0}; if (*s == '-') { z.neg = true; ++s; } while (*s) z.mag = z.mag * 10 + u128(*s++ - '0'); return z; }
    template <class T> T fromZ(const Z& z) { return z.neg ? T(u128(0) - z.mag) : T(z.mag); }
    inline const char* cls(const Z& z) { return z.neg ? "neg" : z.mag == 0 ? "zero" : (z.mag >> 64) ? "pos>=2^64" : "pos"; }

    // ---- the type alphabet of this build ----
    template <int I> struct ty;
#define X(I, T, N) template <> struct ty<I> { typedef T type; static const char* name() { return N; } };
    C15M_TYPES(X)
#undef X

    // ---- value alphabets ----
    static int g_full_side = 8;    // ALL values of a type of at most this many bits (bool: both values) ...
    static int g_full_bits = 16;   // ... and the full product of a pair when bits(T)+bits(U) <= this

    template <class T> std::vector<T> all_values()
    {
        std::vector<T> v;
        const long long lo = (long long)std::numeric_limits<T>::min(), hi = (long long)std::numeric_limits<T>::max();
        for (long long x = lo; x <= hi; ++x) v.push_back(T(x));
        return v;
    }
    template <class T> std::vector<T> boundary()
    {
        std::vector<Z> c;
        const Z lo = toZ(std::numeric_limits<T>::min()), hi = toZ(std::numeric_limits<T>::max());
        auto add = [&](bool neg, u128 mag) {
            Z z{neg && mag != 0, mag};
            if (cmpZ(z, lo) < 0 || cmpZ(z, hi) > 0) return;
            for (auto& y : c) if (cmpZ(y, z) == 0) return;
            c.push_back(z);
        };
        add(lo.neg, lo.mag); add(lo.neg, lo.mag - 1); add(hi.neg, hi.mag); add(false, hi.mag - 1);
        for (u128 m : {u128(0), u128(1), u128(2), u128(3), u128(5)}) { add(false, m); add(true, m); }
        const int ks[] = {7, 8, 15, 16, 31, 32, 63, 64, 65, 100, 126, 127};
        for (int k : ks)
        {
            const u128 p = u128(1) << k;
            for (u128 d : {u128(0), u128(1), u128(2), u128(5)}) { add(false, p + d); add(false, p - d); add(true, p + d); add(true, p - d); }
        }
        std::vector<T> v;
        for (auto& z : c) v.push_back(fromZ<T>(z));
        return v;
    }
    template <class T> int bits() { return std::is_same<T, bool>::value ? 1 : int(sizeof(T) * 8); }
    template <class T> bool small() { return bits<T>() <= g_full_side; }
    // a value alphabet of one type: the values and, next to each, the mathematical integer it stands for (made once per type)
    template <class T> struct vals { std::vector<T> v; std::vector<Z> z; };
    template <class T> vals<T> with_z(const std::vector<T>& v) { vals<T> r; r.v = v; for (T x : v) r.z.push_back(toZ(x)); return r; }
    template <class T> const vals<T>& all_of() { static const vals<T> r = with_z(all_values<T>()); return r; }
    template <class T> const vals<T>& boundary_of() { static const vals<T> r = with_z(boundary<T>()); return r; }
    template <class T> const vals<T>& side_of() { return small<T>() ? all_of<T>() : boundary_of<T>(); }
    template <class T> vals<T> single_of(const char* decimal) { return with_z(std::vector<T>(1, fromZ<T>(parseZ(decimal)))); }

    // ---- the six functions, each instantiated only where the capability probe found the call well-formed ----
    static const char* const fn_name[6] = {"cmp_equal", "cmp_not_equal", "cmp_less", "cmp_greater", "cmp_less_equal", "cmp_greater_equal"};
#define C15M_INLINE inline __attribute__((always_inline))
    template <int F> struct fn {};
    template <class T, class U> C15M_INLINE bool call(fn<0>, T t, U u) { return xtl::cmp_equal(t, u); }
    template <class T, class U> C15M_INLINE bool call(fn<1>, T t, U u) { return xtl::cmp_not_equal(t, u); }
    template <class T, class U> C15M_INLINE bool call(fn<2>, T t, U u) { return xtl::cmp_less(t, u); }
    template <class T, class U> C15M_INLINE bool call(fn<3>, T t, U u) { return xtl::cmp_greater(t, u); }
    template <class T, class U> C15M_INLINE bool call(fn<4>, T t, U u) { return xtl::cmp_less_equal(t, u); }
    template <class T, class U> C15M_INLINE bool call(fn<5>, T t, U u) { return xtl::cmp_greater_equal(t, u); }
    template <int F, class T, class U> C15M_INLINE unsigned maybe(std::true_type, T t, U u) { return call(fn<F>(), t, u) ? (1u << F) : 0u; }
    template <int F, class T, class U> C15M_INLINE unsigned maybe(std::false_type, T, U) { return 0u; }
    template <unsigned M, int F> struct has : std::integral_constant<bool, ((M >> F) & 1u) != 0> {};
    template <unsigned M, class T, class U> C15M_INLINE unsigned eval(T t, U u)
    {
        return maybe<0>(has<M, 0>(), t, u) | maybe<1>(has<M, 1>(), t, u) | maybe<2>(has<M, 2>(), t, u) |
               maybe<3>(has<M, 3>(), t, u) | maybe<4>(has<M, 4>(), t, u) | maybe<5>(has<M, 5>(), t, u);
    }

    static long long g_eval = 0, g_calls = 0, g_nontrivial = 0;   // value pairs, function evaluations, non-trivial value pairs

    // ---- everything that does not depend on the operand types is kept out of the per-pair templates ----
    struct pair_ctx { unsigned mask; const char* tname; const char* uname; bool verbose; };

    // the slow path: a disagreement, or --one
    static void report(const pair_ctx& p, unsigned got, const Z& a, const Z& b)
    {
        const char *tname = p.tname, *uname = p.uname;
        const int c = cmpZ(a, b);
        const bool e[6] = {c == 0, c != 0, c < 0, c > 0, c <= 0, c >= 0};
        for (int i = 0; i < 6; ++i)
        {
            if (!((p.mask >> i) & 1u)) continue;
            const bool r = ((got >> i) & 1u) != 0;
            if (r != e[i])
                vf::violation(std::string("C15/matrix" C15_TAG "/") + fn_name[i] + "/" + tname + "," + uname + "/" + cls(a) + "," + cls(b),
                              std::string(fn_name[i]) + "(" + tname + "(" + sZ(a) + "), " + uname + "(" + sZ(b) + ")) returned " + (r ? "true" : "false") +
                                  ", the comparison of the mathematical values says " + (e[i] ? "true" : "false") + " (operand-type matrix, build " C15_TAG ")",
                              {"--one", tname, uname, sZ(a), sZ(b)});
        }
        if ((p.mask & 13u) == 13u)
        {
            const int n = int(got & 1u) + int((got >> 2) & 1u) + int((got >> 3) & 1u);
            if (n != 1)
                vf::violation(std::string("C15/matrix" C15_TAG "/trichotomy/") + tname + "," + uname,
                              std::string("not exactly one of cmp_less / cmp_equal / cmp_greater holds for ") + tname + "(" + sZ(a) + "), " + uname + "(" + sZ(b) + "): " +
                                  vf::str(n) + " of them (build " C15_TAG ")",
                              {"--one", tname, uname, sZ(a), sZ(b)});
        }
        if (p.verbose)
            std::printf("%s(%s) %s(%s) : eq=%u ne=%u lt=%u gt=%u le=%u ge=%u (mask %u)\n", tname, sZ(a).c_str(), uname, sZ(b).c_str(), got & 1u, (got >> 1) & 1u,
                        (got >> 2) & 1u, (got >> 3) & 1u, (got >> 4) & 1u, (got >> 5) & 1u, p.mask);
    }

    // got: bit i = result of function i; builtin: bit 0/1/2 = what the builtin ==, <, > say on the two operands as they are
    __attribute__((noinline)) static void check(const pair_ctx& p, unsigned got, unsigned builtin, const Z& a, const Z& b)
    {
        const int c = cmpZ(a, b);
        // bits: equal, not_equal, less, greater, less_equal, greater_equal
        const unsigned want = c == 0 ? (1u | 16u | 32u) : c < 0 ? (2u | 4u | 16u) : (2u | 8u | 32u);
        ++g_eval;
        // non-trivial: the builtin operator on the (promoted, converted) operands gives another answer than the mathematics
        if (builtin != (c == 0 ? 1u : c < 0 ? 2u : 4u))
            if ((++g_nontrivial & 0x3ffff) == 1)
                vf::sample(std::string("matrix " C15_TAG ": ") + p.tname + "(" + sZ(a) + ") vs " + p.uname + "(" + sZ(b) + "): cmp_less == " + (((got >> 2) & 1u) ? "true" : "false") +
                           ", cmp_equal == " + ((got & 1u) ? "true" : "false"), 3);
        const unsigned tri = got & 13u;
        if (((got ^ want) & p.mask) != 0 || ((p.mask & 13u) == 13u && tri != 1u && tri != 4u && tri != 8u) || p.verbose)
            report(p, got, a, b);
    }

    static long long g_before = 0;
    static void pair_begin() { g_before = g_eval; }
    static void pair_end(const pair_ctx& p, bool full)
    {
        vf::stat(full ? "matrix_pairs_full_product" : "matrix_pairs_boundary_product", 1);
        vf::stat("matrix_type_pairs", 1);
        int nf = 0;
        for (int i = 0; i < 6; ++i) nf += int((p.mask >> i) & 1u);
        vf::stat("matrix_function_type_pairs", nf);
        g_calls += (g_eval - g_before) * nf;
    }

    // ---- the per-pair part: the calls themselves ----
    template <unsigned M, class T, class U>
    void product(const vals<T>& ts, const vals<U>& us, const pair_ctx& p)
    {
        for (std::size_t i = 0; i < ts.v.size(); ++i)
            for (std::size_t j = 0; j < us.v.size(); ++j)
            {
                const T t = ts.v[i];
                const U u = us.v[j];
                check(p, eval<M>(t, u), unsigned(t == u) | (unsigned(t < u) << 1) | (unsigned(t > u) << 2), ts.z[i], us.z[j]);
            }
    }

    // --one T U a b (replay of one value pair): only the named pair runs, on that single value pair
    static const char *g_one_t = nullptr, *g_one_u = nullptr, *g_one_a = nullptr, *g_one_b = nullptr;
    static bool one_wanted(const pair_ctx& p) { return std::strcmp(g_one_t, p.tname) == 0 && std::strcmp(g_one_u, p.uname) == 0; }

    template <int I, int J, unsigned M>
    void pair_run()
    {
        typedef typename ty<I>::type T;
        typedef typename ty<J>::type U;
        pair_ctx p = {M, ty<I>::name(), ty<J>::name(), false};
        if (g_one_t)
        {
            if (!one_wanted(p)) return;
            p.verbose = true;
            product<M>(single_of<T>(g_one_a), single_of<U>(g_one_b), p);
            return;
        }
        const bool full = bits<T>() + bits<U>() <= g_full_bits;
        pair_begin();
        if (full) product<M>(all_of<T>(), all_of<U>(), p);
        else
        {
            // all values of a small side x boundary alphabet of the other side; boundary x boundary when neither side is small
            product<M>(side_of<T>(), boundary_of<U>(), p);
            if (small<U>()) product<M>(boundary_of<T>(), all_of<U>(), p);
        }
        pair_end(p, full);
    }
}

int main(int argc, char** argv)
{
    int shard = 0, nshard = 1;
    for (int i = 1; i < argc; ++i)
    {
        std::string s = argv[i];
        if (s == "--shard" && i + 2 < argc) { shard = atoi(argv[i + 1]); nshard = atoi(argv[i + 2]); i += 2; }
        else if (s == "--full-side" && i + 1 < argc) { c15m::g_full_side = atoi(argv[++i]); }
        else if (s == "--full-bits" && i + 1 < argc) { c15m::g_full_bits = atoi(argv[++i]); }
        else if (s == "--one" && i + 4 < argc) { c15m::g_one_t = argv[i + 1]; c15m::g_one_u = argv[i + 2]; c15m::g_one_a = argv[i + 3]; c15m::g_one_b = argv[i + 4]; i += 4; }
    }
    int idx = 0;   // K is the index of the pair in the whole matrix of the build; this translation unit has a part of it
#define X(K, I, J, M) \
    if (c15m::g_one_t || idx % nshard == shard) c15m::pair_run<I, J, M>(); \
    ++idx;
    C15M_PAIRS(X)
#undef X
    vf::stat("evaluations", c15m::g_eval);
    vf::stat("matrix_value_pairs", c15m::g_eval);
    vf::stat("matrix_function_evaluations", c15m::g_calls);
    vf::stat("distinct_nontrivial", c15m::g_nontrivial);
    vf::done();
    return 0;
}
