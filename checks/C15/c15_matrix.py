"""C15, operand-TYPE matrix part (added after the seeded changes C15-12 / C15-13 were missed; see NOTES.md).

The older parts enumerate {signed,unsigned} x {8,16,32,64,128 bit} (+ char, long long).  This part extends the ordered
type-pair matrix to EVERY type the statement covers ("every pair of integer types"): every candidate type that exists in the
build and for which std::is_integral is true there - bool, char, signed char, unsigned char, wchar_t, char16_t, char32_t,
char8_t (C++20), short .. unsigned long long, __int128 / unsigned __int128 (GNU dialects) - nothing about a type is assumed:

  1. traits probe   a generated program (no xtl in it) prints is_integral / is_signed / sizeof / digits of every candidate
                    under every build configuration; the alphabet and the mathematical value ranges come from its output
  2. capability     a generated TU with one call per (function, T, U); a line the compiler rejects is re-tried in a TU of its
                    own.  An ordered pair of integer types that the tree under test REJECTS is a violation of its own
                    (the statement quantifies over every pair); the whole table goes into the evidence.  Candidates that are
                    not integer types of the build (unscoped enumerations, __int128 in the strict dialects) are probed and
                    recorded only - the statement says nothing about them.
  3. constant expr. a generated TU with one static_assert per (function, T, U, value class of T, value class of U), expected
                    value computed here in python from the probed ranges
  4. run time       a generated harness (matrix_harness.hpp) with exactly the well-formed (function, T, U) triples: value
                    alphabet of T x value alphabet of U (ALL values of the one-byte types and of bool), oracle = comparison of
                    (sign, 128-bit magnitude), bool counting as false = 0 / true = 1
"""
import os
import re
import shutil
import subprocess
import threading

import vlib

HERE = os.path.dirname(os.path.abspath(__file__))
GEN = os.path.join(vlib.BUILD, "c15gen")

FUNCS = [("cmp_equal", lambda a, b: a == b), ("cmp_not_equal", lambda a, b: a != b), ("cmp_less", lambda a, b: a < b),
         ("cmp_greater", lambda a, b: a > b), ("cmp_less_equal", lambda a, b: a <= b), ("cmp_greater_equal", lambda a, b: a >= b)]

# candidate operand types: (display name, C++ spelling, predefined macro that says the type exists or None)
CANDIDATES = [
    ("bool", "bool", None), ("char", "char", None), ("signed char", "signed char", None), ("unsigned char", "unsigned char", None),
    ("wchar_t", "wchar_t", None), ("char16_t", "char16_t", None), ("char32_t", "char32_t", None), ("char8_t", "char8_t", "__cpp_char8_t"),
    ("short", "short", None), ("unsigned short", "unsigned short", None), ("int", "int", None), ("unsigned int", "unsigned int", None),
    ("long", "long", None), ("unsigned long", "unsigned long", None), ("long long", "long long", None), ("unsigned long long", "unsigned long long", None),
    ("__int128", "__int128", "__SIZEOF_INT128__"), ("unsigned __int128", "unsigned __int128", "__SIZEOF_INT128__"),
    # not integer types: probed and recorded, never judged
    ("enum : unsigned char", "c15m::EU8", None), ("enum : int", "c15m::EI", None), ("enum (no fixed type)", "c15m::EP", None),
]
ENUMS = "namespace c15m { enum EU8 : unsigned char { eu8_0, eu8_max = 255 }; enum EI : int { ei_neg = -1, ei_0 }; enum EP { ep_0, ep_1 }; template <class T> T mk(); }"
# the types the older constant-expression parts already pair with each other (int8_t .. uint64_t, char, long long, unsigned long long,
# the 128-bit types); the traits probe checks that the fixed-width aliases really are these types on this platform
OLD_CONSTEXPR = {"signed char", "unsigned char", "short", "unsigned short", "int", "unsigned int", "long", "unsigned long", "char",
                 "long long", "unsigned long long", "__int128", "unsigned __int128"}
ALIASES = [("std::int8_t", "signed char"), ("std::uint8_t", "unsigned char"), ("std::int16_t", "short"), ("std::uint16_t", "unsigned short"),
           ("std::int32_t", "int"), ("std::uint32_t", "unsigned int"), ("std::int64_t", "long"), ("std::uint64_t", "unsigned long")]


class Cfg(object):
    def __init__(self, cxx, std, *flags):
        self.cxx, self.std, self.flags = cxx, std, list(flags)
        self.key = ",".join([cxx, std] + self.flags)          # "g++,c++14,-funsigned-char"
        self.rt = ",".join([std] + self.flags)                # run-time builds are all g++: "c++14,-funsigned-char"
        self.uchar = "-funsigned-char" in self.flags
        self.safe = re.sub(r"[^A-Za-z0-9]+", "_", self.key.replace("+", "x"))

    def __repr__(self):
        return " ".join([self.cxx, "-std=" + self.std] + self.flags)


# the same compiler x dialect x char-signedness configurations the older constant-expression parts use
CONSTEXPR_CFGS = [Cfg("g++", "c++14"), Cfg("g++", "c++17"), Cfg("g++", "c++20"), Cfg("clang++", "c++14"), Cfg("clang++", "c++17"), Cfg("clang++", "c++20"),
                  Cfg("g++", "gnu++14"), Cfg("g++", "gnu++20"), Cfg("clang++", "gnu++14"),
                  Cfg("g++", "c++14", "-funsigned-char"), Cfg("clang++", "c++17", "-funsigned-char"), Cfg("g++", "c++20", "-funsigned-char")]
# the same builds the older run-time parts use
RUNTIME_CFGS = [Cfg("g++", "c++14"), Cfg("g++", "c++17"), Cfg("g++", "c++20"), Cfg("g++", "c++14", "-funsigned-char"), Cfg("g++", "c++20", "-funsigned-char"),
                Cfg("g++", "gnu++14"), Cfg("g++", "gnu++20")]
COMPILE_SHARDS = 4       # the generated run-time harness of one build is split into this many translation units (pair index mod 4)

_seq = [0]
_seq_lock = threading.Lock()


class Work(object):
    """scratch directory of one run: generated sources live in build/c15gen/run-<pid>-<n>/ and are removed when the run ends
    (the object cache of vlib is keyed by the preprocessed text, not by the path, so nothing is lost)"""

    def __enter__(self):
        with _seq_lock:
            _seq[0] += 1
            n = _seq[0]
        self.dir = os.path.join(GEN, "run-%d-%d" % (os.getpid(), n))
        os.makedirs(self.dir, exist_ok=True)
        return self

    def __exit__(self, *a):
        shutil.rmtree(self.dir, ignore_errors=True)

    def write(self, name, text):
        p = os.path.join(self.dir, name)
        with open(p, "w") as f:
            f.write(text)
        return p


# ---------------------------------------------------------------------------------------------------------------- 1. traits

def traits(cfg, work):
    """[{name, cxx, integral, signed, size, digits, lo, hi}] for every candidate type that exists under cfg (run, not assumed)."""
    lines = ["#include <cstdio>", "#include <cstdint>", "#include <limits>", "#include <type_traits>", ENUMS,
             "template <class T> void row(int i) { std::printf(\"T %d %d %d %d %d\\n\", i, int(std::is_integral<T>::value), int(std::is_signed<T>::value), int(sizeof(T)), int(std::numeric_limits<T>::digits)); }",
             "int main() {"]
    for i, (name, cxx, macro) in enumerate(CANDIDATES):
        if macro:
            lines += ["#if defined(%s)" % macro, "    row<%s>(%d);" % (cxx, i), "#endif"]
        else:
            lines.append("    row<%s>(%d);" % (cxx, i))
    for i, (alias, real) in enumerate(ALIASES):
        lines.append("    std::printf(\"A %d %%d\\n\", int(std::is_same<%s, %s>::value));" % (i, alias, real))
    lines += ["    std::printf(\"done\\n\");", "    return 0;", "}"]
    src = work.write("traits_%s.cpp" % cfg.safe, "\n".join(lines) + "\n")
    binary = vlib.compile_cxx(src, "c15m-traits-" + cfg.safe, std=cfg.std, opt="-O0", san="none", compiler=cfg.cxx, flags=cfg.flags)
    r = subprocess.run([binary], stdout=subprocess.PIPE, stderr=subprocess.PIPE, text=True, timeout=60)
    if r.returncode != 0 or "done" not in r.stdout:
        raise vlib.HarnessError("C15 matrix: traits probe failed under %r: %s" % (cfg, (r.stdout + r.stderr)[-800:]))
    out = []
    for line in r.stdout.splitlines():
        w = line.split()
        if w[0] == "T":
            i, integral, signed, size, digits = [int(x) for x in w[1:]]
            name, cxx, _ = CANDIDATES[i]
            t = {"name": name, "cxx": cxx, "integral": bool(integral), "signed": bool(signed), "size": size, "digits": digits}
            if integral:
                t["lo"] = -(1 << digits) if signed else 0
                t["hi"] = (1 << digits) - 1
            out.append(t)
        elif w[0] == "A" and w[2] != "1":
            a = ALIASES[int(w[1])]
            raise vlib.HarnessError("C15 matrix: %s is not %s under %r; OLD_CONSTEXPR in c15_matrix.py must be revised" % (a[0], a[1], cfg))
    return out


# ------------------------------------------------------------------------------------------------------------ 2. capability

def _syntax_ok(cfg, src, name):
    """True when src compiles (-fsyntax-only) under cfg against the tree under test; cached by vlib on the preprocessed text."""
    return vlib.compile_cxx(src, name, std=cfg.std, opt="-O0", san="none", compiler=cfg.cxx, flags=cfg.flags + ["-w"],
                            syntax_only=True, expect_fail=True) is not None


def _diagnose(cfg, src, first, n):
    """{case index: first error text} for the generated lines first .. first+n-1 of src that the compiler's diagnostics mention
    (an error on the line itself, or the 'required from here' / 'requested here' frame of an error inside the header)."""
    limit = ["-ferror-limit=0"] if cfg.cxx == "clang++" else ["-fmax-errors=0", "-ftemplate-backtrace-limit=0"]
    r = subprocess.run([cfg.cxx, "-std=" + cfg.std] + cfg.flags + ["-w", "-fsyntax-only"] + limit +
                       ["-I" + vlib.INCLUDE, "-I" + os.path.join(vlib.VERIF, "engine"), src], stdout=subprocess.PIPE, stderr=subprocess.PIPE, text=True)
    if r.returncode == 0:
        return {}, ""
    errs = r.stderr.splitlines()
    err_pos = [(k, l.split(" error: ", 1)[1][:220]) for k, l in enumerate(errs) if " error: " in l]
    bad = {}
    for k, line in enumerate(errs):
        if not line.startswith(src + ":"):
            continue
        try:
            ln = int(line[len(src) + 1:].split(":")[0])
        except ValueError:
            continue
        if not (first <= ln < first + n):
            continue
        if " error: " in line:
            why = line.split(" error: ", 1)[1][:220]
        elif cfg.cxx == "clang++":      # the note follows its error
            why = ([w for (p, w) in err_pos if p < k] or ["?"])[-1]
        else:                           # g++: the instantiation trace precedes its error
            why = ([w for (p, w) in err_pos if p > k] or ["?"])[0]
        bad.setdefault(ln - first, why)
    return bad, r.stderr


def _probe_tu(cfg, work, name, triples):
    """triples: [(function index, T spelling, U spelling)]; returns {index: why} of the lines that are not well-formed."""
    head = ["#include <xtl/xcompare.hpp>", ENUMS]
    body = ["static bool c15m_p%d = xtl::%s(c15m::mk<%s>(), c15m::mk<%s>());" % (k, FUNCS[f][0], t, u) for k, (f, t, u) in enumerate(triples)]
    src = work.write(name + ".cpp", "\n".join(head + body) + "\nint main() { return 0; }\n")
    if _syntax_ok(cfg, src, "c15m-probe-" + cfg.safe):
        return {}
    bad, stderr = _diagnose(cfg, src, len(head) + 1, len(body))
    if not bad:
        raise vlib.HarnessError("C15 matrix: capability TU fails to compile outside the probed calls (%r): %s" % (cfg, stderr[-1500:]))
    return bad


def capability(cfg, work, types):
    """Well-formedness of every (function, T, U) under cfg on the tree under test.
    Returns (rejected {(f, Tname, Uname): why} over the integer types, info {candidate name: (well-formed, probed)} for the others)."""
    alpha = [t for t in types if t["integral"]]
    other = [t for t in types if not t["integral"]]
    triples = [(f, t, u) for t in alpha for u in alpha for f in range(6)]
    spell = lambda tr: (tr[0], tr[1]["cxx"], tr[2]["cxx"])
    rejected = {}
    bad = _probe_tu(cfg, work, "cap_%s" % cfg.safe, [spell(x) for x in triples])
    if bad:
        # every suspicious ordered pair on its own (a diagnostic inside a shared helper is only printed at its first use)
        pairs = sorted(set((triples[i][1]["name"], triples[i][2]["name"]) for i in bad))
        by = {t["name"]: t for t in alpha}

        def alone(p):
            six = [(f, by[p[0]], by[p[1]]) for f in range(6)]
            b = _probe_tu(cfg, work, "cap_%s_%s_%s" % (cfg.safe, re.sub(r"\W", "_", p[0]), re.sub(r"\W", "_", p[1])), [spell(x) for x in six])
            return [((f, p[0], p[1]), why) for f, why in b.items()]
        for lst in vlib.parallel([(lambda p=p: alone(p)) for p in pairs], workers=4):
            for k, why in lst:
                rejected[k] = why
        # what is left must compile together (this is the set of calls the run-time harness will contain)
        for _ in range(8):
            rest = [x for x in triples if (x[0], x[1]["name"], x[2]["name"]) not in rejected]
            more = _probe_tu(cfg, work, "cap_%s_rest" % cfg.safe, [spell(x) for x in rest])
            if not more:
                break
            for i, why in more.items():
                rejected[(rest[i][0], rest[i][1]["name"], rest[i][2]["name"])] = why
        else:
            raise vlib.HarnessError("C15 matrix: capability probe does not converge under %r" % (cfg,))
    info = {}
    if other:
        tr = []
        for o in other:
            for a in alpha + [o]:
                for f in range(6):
                    tr.append((f, o, a))
                    if a is not o:
                        tr.append((f, a, o))
        b = _probe_tu(cfg, work, "cap_%s_other" % cfg.safe, [spell(x) for x in tr])
        for o in other:
            mine = [i for i, x in enumerate(tr) if x[1] is o or x[2] is o]
            info[o["name"]] = (sum(1 for i in mine if i not in b), len(mine))
    return rejected, info


# ----------------------------------------------------------------------------------------------------- 3. constant expressions

def _classes(t):
    """value classes of a type for the constant-expression cases, by mathematical value (deduplicated, inside the range)"""
    out, seen = [], set()
    for name, v in (("zero", 0), ("pos", 1), ("two", 2), ("neg", -1), ("min", t["lo"]), ("max", t["hi"])):
        if t["lo"] <= v <= t["hi"] and v not in seen:
            seen.add(v)
            out.append((name, v))
    return out


def _lit(t, v):
    if v == t["hi"] and v > 2:
        return "std::numeric_limits<%s>::max()" % t["cxx"]
    if v == t["lo"] and v < -1:
        return "std::numeric_limits<%s>::min()" % t["cxx"]
    return "static_cast<%s>(%d)" % (t["cxx"], v)


def constexpr_cases(types, rejected, full):
    """[(case id, static_assert line, call text, expected)]; full=False: only the ordered pairs with a type the older parts do not have"""
    alpha = [t for t in types if t["integral"]]
    cases = []
    for t in alpha:
        for u in alpha:
            if not full and t["name"] in OLD_CONSTEXPR and u["name"] in OLD_CONSTEXPR:
                continue
            for f, (fn, op) in enumerate(FUNCS):
                if (f, t["name"], u["name"]) in rejected:
                    continue
                for an, av in _classes(t):
                    for bn, bv in _classes(u):
                        cid = "%s/%s,%s/%s,%s" % (fn, t["name"], u["name"], an, bn)
                        exp = "true" if op(av, bv) else "false"
                        cases.append((cid, "static_assert(xtl::%s(%s, %s) == %s, \"%s\");" % (fn, _lit(t, av), _lit(u, bv), exp, cid),
                                      "%s(%s(%d), %s(%d))" % (fn, t["name"], av, u["name"], bv), exp))
    return cases


def constexpr_tu(cfg, work, cases, name):
    """{case index: error text} of the static_asserts that fail under cfg"""
    head = ["#include <xtl/xcompare.hpp>", "#include <limits>"]
    src = work.write(name + ".cpp", "\n".join(head + [c[1] for c in cases]) + "\nint main() { return 0; }\n")
    if _syntax_ok(cfg, src, "c15m-cx-" + cfg.safe):
        return {}
    bad, stderr = _diagnose(cfg, src, len(head) + 1, len(cases))
    if not bad:
        raise vlib.HarnessError("C15 matrix: constant-expression TU fails to compile outside the static_asserts (%r): %s" % (cfg, stderr[-1500:]))
    return bad


def _kind(why):
    w = why.replace("static_assert failed", "static assertion failed")
    wrong = "static assertion failed" in w and "non-constant" not in w and "not a constant" not in w and "constant expression" not in w
    return "wrong-value-at-compile-time" if wrong else "not-a-constant-expression"


# --------------------------------------------------------------------------------------------------------------- 4. run time

def harness_sources(cfg, work, types, rejected):
    """the generated translation units of the run-time harness of one build: [(shard, path)], and the ordered pair list"""
    alpha = [t for t in types if t["integral"]]
    tl = " ".join("X(%d, %s, \"%s\")" % (i, t["cxx"], t["name"]) for i, t in enumerate(alpha))
    pairs = []
    for i, t in enumerate(alpha):
        for j, u in enumerate(alpha):
            mask = sum(1 << f for f in range(6) if (f, t["name"], u["name"]) not in rejected)
            pairs.append((len(pairs), i, j, mask))
    out = []
    for s in range(COMPILE_SHARDS):
        mine = [p for p in pairs if p[0] % COMPILE_SHARDS == s and p[3]]
        text = ["// generated by checks/C15/c15_matrix.py: build %r, translation unit %d of %d" % (cfg, s, COMPILE_SHARDS),
                "#define C15_TAG \"[%s]\"" % cfg.rt,
                "#define C15M_TYPES(X) " + tl,
                "#define C15M_PAIRS(X) " + " ".join("X(%d, %d, %d, %du)" % p for p in mine),
                "#include \"matrix_harness.hpp\""]
        out.append((s, work.write("matrix_%s_%d.cpp" % (cfg.safe, s), "\n".join(text) + "\n")))
    return out, pairs, alpha


def build_harness(cfg, src, shard, opt):
    return vlib.compile_cxx(src, "c15m-%s-%d" % (cfg.safe, shard), std=cfg.std, opt=opt, san="none", compiler=cfg.cxx, flags=cfg.flags + ["-I" + HERE])


# ------------------------------------------------------------------------------------------------------------------ driver

def _sub(ctx):
    return vlib.Ctx(ctx.pid, ctx.tier, ctx.level, ctx.seed)


def _merge(ctx, sub):
    for k, v in sub.stats.items():
        ctx.stat(k, v)
    for k, v in sub.maxes.items():
        ctx.smax(k, v)
    for s in sub.samples:
        ctx.sample(s)
    for n in sub.notes:
        ctx.note(n)
    ctx.viols += sub.viols
    for c in sub.caps:
        ctx.cap(c)


def _all_cfgs():
    seen, out = set(), []
    for c in CONSTEXPR_CFGS + RUNTIME_CFGS:
        if c.key not in seen:
            seen.add(c.key)
            out.append(c)
    return out


def run(ctx):
    thorough = ctx.tier == "thorough"
    with Work() as work:
        cfgs = _all_cfgs()
        # 1 + 2: traits and capability of every configuration
        def first(cfg):
            ty = traits(cfg, work)
            rej, info = capability(cfg, work, ty)
            return cfg, ty, rej, info
        probed = {c.key: (ty, rej, info) for (c, ty, rej, info) in vlib.parallel([(lambda c=c: first(c)) for c in cfgs])}

        ill = {}
        for cfg in cfgs:
            ty, rej, info = probed[cfg.key]
            alpha = [t["name"] for t in ty if t["integral"]]
            n = len(alpha) * len(alpha) * 6
            ctx.stat("matrix_capability_probed", n)
            ctx.stat("matrix_capability_wellformed", n - len(rej))
            ctx.stat("matrix_capability_illformed", len(rej))
            ctx.stat("matrix_configurations", 1)
            ctx.smax("matrix_integer_types_max", len(alpha))
            ctx.note("matrix capability [%r]: %d integer types (%s) -> %d ordered pairs x 6 functions = %d calls probed, %s; not integer types of this build "
                     "(recorded, not judged; calls well-formed / probed): %s" % (
                         cfg, len(alpha), ", ".join(alpha), len(alpha) ** 2, n,
                         "all well-formed" if not rej else "ILL-FORMED: " + "; ".join("%s(%s, %s)" % (FUNCS[f][0], t, u) for (f, t, u) in sorted(rej)[:40]),
                         ", ".join("%s %d/%d" % (k, v[0], v[1]) for k, v in sorted(info.items())) or "none"))
            for (f, t, u), why in rej.items():
                ill.setdefault((f, t, u), []).append((repr(cfg), why))
        for (f, t, u), lst in sorted(ill.items()):
            ctx.violation("C15/matrix/ill-formed/%s/%s,%s" % (FUNCS[f][0], t, u),
                          "%s(%s, %s) is a call with two integer types (std::is_integral is true for both) but it is not well-formed: %s: %s (%d configuration(s))" % (
                              FUNCS[f][0], t, u, lst[0][0], lst[0][1], len(lst)),
                          args=["--matrix-illformed", FUNCS[f][0], t, u])

        # 3 + 4 in one pool: the constant-expression TU of every configuration, the harness translation units of every run-time build
        jobs = []
        cx_cases = {}
        for cfg in CONSTEXPR_CFGS:
            ty, rej, _ = probed[cfg.key]
            cases = constexpr_cases(ty, rej, full=thorough)
            cx_cases[cfg.key] = cases
            jobs.append(lambda cfg=cfg, cases=cases: ("cx", cfg, constexpr_tu(cfg, work, cases, "cx_%s" % cfg.safe)))
        opt = "-O2" if thorough else "-O1"
        for cfg in RUNTIME_CFGS:
            ty, rej, _ = probed[cfg.key]
            srcs, pairs, alpha = harness_sources(cfg, work, ty, rej)
            for s, src in srcs:
                jobs.append(lambda cfg=cfg, s=s, src=src: ("bin", cfg, s, build_harness(cfg, src, s, opt)))
        res = vlib.parallel(jobs)

        fails = {}
        for r in res:
            if r[0] != "cx":
                continue
            _, cfg, bad = r
            cases = cx_cases[cfg.key]
            ctx.stat("matrix_constexpr_evaluations", len(cases))
            for i, why in bad.items():
                fails.setdefault((cfg.uchar, cases[i][0]), []).append((repr(cfg), why, cases[i]))
        distinct = set()
        for cfg in CONSTEXPR_CFGS:
            distinct.update((cfg.uchar, c[0]) for c in cx_cases[cfg.key])
        ctx.stat("matrix_constexpr_cases", len(distinct))
        for (uchar, cid), lst in sorted(fails.items()):
            fn, pair, cls = cid.split("/")
            _, _, call, exp = lst[0][2]
            ctx.violation("C15/matrix-constexpr%s/%s/%s/%s/%s" % ("[-funsigned-char]" if uchar else "", fn, pair, cls, _kind(lst[0][1])),
                          "%s%s must be usable in a constant expression and yield %s; %s: %s (%d configuration(s))" % (
                              "[-funsigned-char] " if uchar else "", call, exp, lst[0][0], lst[0][1], len(lst)),
                          args=["--matrix-constexpr-uchar" if uchar else "--matrix-constexpr", cid])

        # run: quick = ALL values of the types of at most 8 bits, thorough = of at most 16 bits (full product up to 32 bits together)
        side, fullb, nsh = ("16", "32", 8) if thorough else ("8", "16", 1)
        runs = []
        for r in res:
            if r[0] != "bin":
                continue
            _, cfg, s, binary = r
            for k in range(nsh):
                def go(cfg=cfg, binary=binary, k=k):
                    sub = _sub(ctx)
                    sub.run_harness(binary, ["--shard", str(k), str(nsh), "--full-side", side, "--full-bits", fullb], tag="c15m-" + cfg.rt)
                    return sub
                runs.append(go)
        for sub in vlib.parallel(runs):
            _merge(ctx, sub)


def describe(ctx):
    """rule / assumption text of this part (check.py appends it)"""
    thorough = ctx.tier == "thorough"
    rule = ("OPERAND-TYPE MATRIX: every ordered pair of the types for which std::is_integral is true in the build, out of the candidates {bool, char, signed char, "
            "unsigned char, wchar_t, char16_t, char32_t, char8_t (C++20), short, unsigned short, int, unsigned, long, unsigned long, long long, unsigned long long, "
            "__int128, unsigned __int128 (GNU dialects)} - existence, integrality, signedness and range of each candidate are probed per build by a generated program, "
            "well-formedness of each (function, T, U) by a generated TU (an ill-formed call with two integer types is a violation; the capability table is in the notes; "
            "unscoped enumerations and strict-dialect __int128 are probed and recorded only) - x 6 functions x [run time, g++, builds c++14/c++17/c++20/gnu++14/gnu++20 and "
            "c++14/c++20 with -funsigned-char: value alphabet of T x value alphabet of U where the alphabet is ALL values of a type of at most %s bits (bool: false, true) and "
            "otherwise {min, min+1, max-1, max, 0, +-1, +-2, +-3, +-5, +-(2^k +- {0,1,2,5}) : k in 7,8,15,16,31,32,63,64,65,100,126,127} cut to the range, full product when "
            "bits(T)+bits(U) <= %s; oracle = comparison of (sign, 128-bit magnitude), bool = 0/1; trichotomy of less/equal/greater] x [constant expressions, g++ and clang++, the "
            "12 compiler/dialect/char-signedness configurations of the older parts: one static_assert per value-class pair out of {0, 1, 2, -1, min, max} cut to the range, "
            "%s]" % (("16", "32", "all ordered pairs") if thorough else
                     ("8", "16", "the ordered pairs in which at least one type is outside the 13 types the older constant-expression parts pair (bool, wchar_t, char16_t, char32_t, char8_t); all ordered pairs in the thorough tier")))
    assumptions = ["operand-type matrix: the alphabet is the set of candidate types for which std::is_integral is true in the build; enumerations (and __int128 in the strict dialects) "
                   "are not integer types, the statement does not cover them: their capability is recorded, their results are not judged",
                   "operand-type matrix: a bool operand stands for the mathematical integer 0 (false) or 1 (true)",
                   "operand-type matrix: run-time builds are g++ only (as in the older parts); clang++ takes part in the capability probe and the constant-expression cases"]
    return rule, assumptions


# ------------------------------------------------------------------------------------------------------------------ replay

def replay(ctx, rec):
    """True when rec belongs to this part (and was replayed)"""
    args = rec.get("args") or []
    h = rec.get("harness") or ""
    if h.startswith("c15m-"):
        w = h[len("c15m-"):].split(",")
        cfg = Cfg("g++", w[0], *w[1:])
        with Work() as work:
            ty = traits(cfg, work)
            rej, _ = capability(cfg, work, ty)
            srcs, pairs, alpha = harness_sources(cfg, work, ty, rej)
            names = [t["name"] for t in alpha]
            want = [p for p in pairs if len(args) >= 3 and names[p[1]] == args[1] and names[p[2]] == args[2]]
            if not want:
                return True     # the pair does not exist on this tree any more: nothing to observe
            s = want[0][0] % COMPILE_SHARDS
            binary = build_harness(cfg, dict(srcs)[s], s, "-O2" if ctx.tier == "thorough" else "-O1")
            ctx.run_harness(binary, args, tag=h)
        return True
    if args and args[0] == "--matrix-illformed":
        fn, tn, un = args[1:4]
        f = [x[0] for x in FUNCS].index(fn)
        with Work() as work:
            def one(cfg):
                ty = {t["name"]: t for t in traits(cfg, work) if t["integral"]}
                if tn not in ty or un not in ty:
                    return None
                b = _probe_tu(cfg, work, "replay_ill_%s" % cfg.safe, [(f, ty[tn]["cxx"], ty[un]["cxx"])])
                return (repr(cfg), b[0]) if b else None
            lst = [x for x in vlib.parallel([(lambda c=c: one(c)) for c in _all_cfgs()]) if x]
        if lst:
            ctx.violation("C15/matrix/ill-formed/%s/%s,%s" % (fn, tn, un), "%s(%s, %s) is not well-formed: %s: %s (%d configuration(s))" % (fn, tn, un, lst[0][0], lst[0][1], len(lst)), args=args)
        return True
    if args and args[0] in ("--matrix-constexpr", "--matrix-constexpr-uchar"):
        uchar = args[0].endswith("-uchar")
        cid = args[1]
        with Work() as work:
            def one(cfg):
                ty = traits(cfg, work)
                cases = [c for c in constexpr_cases(ty, {}, full=True) if c[0] == cid]
                if not cases:
                    return None
                b = constexpr_tu(cfg, work, cases, "replay_cx_%s" % cfg.safe)
                return (repr(cfg), b[0], cases[0]) if b else None
            lst = [x for x in vlib.parallel([(lambda c=c: one(c)) for c in CONSTEXPR_CFGS if c.uchar == uchar]) if x]
        if lst:
            fn, pair, cls = cid.split("/")
            _, _, call, exp = lst[0][2]
            ctx.violation("C15/matrix-constexpr%s/%s/%s/%s/%s" % ("[-funsigned-char]" if uchar else "", fn, pair, cls, _kind(lst[0][1])),
                          "%s%s must be usable in a constant expression and yield %s; %s: %s (%d configuration(s))" % (
                              "[-funsigned-char] " if uchar else "", call, exp, lst[0][0], lst[0][1], len(lst)), args=args)
        return True
    return False
