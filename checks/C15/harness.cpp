// C15: cmp_* on every ordered pair of integer types, exhaustive value enumeration (see DESIGN.md C15).
#include <xtl/xcompare.hpp>
#include "report.hpp"

#include <cstdint>
#include <limits>
#include <string>
#include <type_traits>
#include <vector>

typedef __int128 i128;

template <class T> struct tn;
#define TN(T) template <> struct tn<T> { static const char* name() { return #T; } };
TN(int8_t) TN(uint8_t) TN(int16_t) TN(uint16_t) TN(int32_t) TN(uint32_t) TN(int64_t) TN(uint64_t)
TN(char) TN(long long) TN(unsigned long long)

#ifndef C15_TAG
#define C15_TAG ""      // language dialect of this build when it is not the default one, e.g. "[c++20]"
#endif
static int g_full_bits = 24;   // enumerate all value pairs when bits(T)+bits(U) <= this

template <class T>
std::vector<T> boundary()
{
    std::vector<T> v;
    i128 lo = std::numeric_limits<T>::min(), hi = std::numeric_limits<T>::max();
    std::vector<i128> c = {lo, lo + 1, -1, 0, 1, 2, hi - 1, hi};
    int ks[] = {7, 8, 15, 16, 31, 32, 63};
    for (int k : ks)
    {
        i128 p = i128(1) << k;
        for (i128 d = -1; d <= 1; ++d) { c.push_back(p + d); c.push_back(-p + d); }
    }
    for (i128 x : c)
    {
        if (x < lo || x > hi) continue;
        bool dup = false;
        for (T y : v) if (i128(y) == x) dup = true;
        if (!dup) v.push_back(T(x));
    }
    return v;
}

template <class T>
std::vector<T> full()
{
    std::vector<T> v;
    i128 lo = std::numeric_limits<T>::min(), hi = std::numeric_limits<T>::max();
    for (i128 x = lo; x <= hi; ++x) v.push_back(T(x));
    return v;
}

static const char* cls(i128 x, bool is_signed_type)
{
    if (x < 0) return "neg";
    (void)is_signed_type;
    return x == 0 ? "zero" : "pos";
}

static std::string s128(i128 x)
{
    bool neg = x < 0;
    unsigned __int128 u = neg ? -(unsigned __int128)x : (unsigned __int128)x;
    std::string s;
    do { s.insert(s.begin(), char('0' + int(u % 10))); u /= 10; } while (u);
    return neg ? "-" + s : s;
}

static long long g_eval = 0, g_nontrivial = 0;

template <class T, class U>
inline void one(T t, U u, bool verbose = false)
{
    i128 a = t, b = u;
    bool r[6] = {xtl::cmp_equal(t, u), xtl::cmp_not_equal(t, u), xtl::cmp_less(t, u),
                 xtl::cmp_greater(t, u), xtl::cmp_less_equal(t, u), xtl::cmp_greater_equal(t, u)};
    bool e[6] = {a == b, a != b, a < b, a > b, a <= b, a >= b};
    static const char* fn[6] = {"cmp_equal", "cmp_not_equal", "cmp_less", "cmp_greater", "cmp_less_equal", "cmp_greater_equal"};
    ++g_eval;
    // non-trivial: the builtin operator on the promoted operands would give a different answer
    bool tricky = ((t == u) != e[0]) || ((t < u) != e[2]) || ((t > u) != e[3]);
    if (tricky)
    {
        ++g_nontrivial;
        if ((g_nontrivial & 0xfffff) == 1)
            vf::sample(std::string("cmp_less(") + tn<T>::name() + "(" + s128(a) + "), " + tn<U>::name() + "(" + s128(b) + ")) == " + (r[2] ? "true" : "false") +
                       ", cmp_equal == " + (r[0] ? "true" : "false"), 3);
    }
    for (int i = 0; i < 6; ++i)
    {
        if (r[i] != e[i])
        {
            std::string sig = std::string("C15/") + C15_TAG + fn[i] + "/" + tn<T>::name() + "," + tn<U>::name() + "/" +
                              cls(a, std::is_signed<T>::value) + "," + cls(b, std::is_signed<U>::value);
            vf::violation(sig, std::string(fn[i]) + "(" + tn<T>::name() + "(" + s128(a) + "), " + tn<U>::name() + "(" + s128(b) +
                                   ")) returned " + (r[i] ? "true" : "false") + ", mathematical comparison says " + (e[i] ? "true" : "false"),
                          {"--one", tn<T>::name(), tn<U>::name(), s128(a), s128(b)});
        }
    }
    int n = int(r[0]) + int(r[2]) + int(r[3]);
    if (n != 1)
        vf::violation(std::string("C15/") + C15_TAG + "trichotomy/" + tn<T>::name() + "," + tn<U>::name(),
                      "not exactly one of less/equal/greater for " + s128(a) + ", " + s128(b),
                      {"--one", tn<T>::name(), tn<U>::name(), s128(a), s128(b)});
    if (verbose)
        std::printf("%s %s : eq=%d ne=%d lt=%d gt=%d le=%d ge=%d\n", s128(a).c_str(), s128(b).c_str(), r[0], r[1], r[2], r[3], r[4], r[5]);
}

template <class T, class U>
void pair_run()
{
    const int bt = int(sizeof(T) * 8), bu = int(sizeof(U) * 8);
    long long before = g_eval;
    if (bt + bu <= g_full_bits)
    {
        i128 tlo = std::numeric_limits<T>::min(), thi = std::numeric_limits<T>::max();
        i128 ulo = std::numeric_limits<U>::min(), uhi = std::numeric_limits<U>::max();
        for (i128 x = tlo; x <= thi; ++x)
            for (i128 y = ulo; y <= uhi; ++y) one<T, U>(T(x), U(y));
        vf::stat("pairs_full_product", 1);
    }
    else
    {
        std::vector<T> bT = boundary<T>();
        std::vector<U> bU = boundary<U>();
        for (T x : bT) for (U y : bU) one<T, U>(x, y);
        if (bt <= 16) { std::vector<T> f = full<T>(); for (T x : f) for (U y : bU) one<T, U>(x, y); }
        if (bu <= 16) { std::vector<U> f = full<U>(); for (T x : bT) for (U y : f) one<T, U>(x, y); }
        vf::stat("pairs_boundary_product", 1);
    }
    vf::stat("type_pairs", 1);
    vf::note(std::string("cmp_*(") + tn<T>::name() + ", " + tn<U>::name() + "): " + vf::str(g_eval - before) + " value pairs");
}

template <class T, class U>
void run_one(const char* a, const char* b)
{
    // parse decimal i128
    auto p = [](const char* s) { bool n = *s == '-'; if (n) ++s; i128 v = 0; while (*s) v = v * 10 + (*s++ - '0'); return n ? -v : v; };
    one<T, U>(T(p(a)), U(p(b)), true);
}

#define TYPES(X) X(int8_t) X(uint8_t) X(int16_t) X(uint16_t) X(int32_t) X(uint32_t) X(int64_t) X(uint64_t) X(char) X(long long) X(unsigned long long)

template <class T>
void row(int& idx, int shard, int nshard, const char* tname, const char* uname, const char* a, const char* b)
{
#define X(U) \
    if (tname) { if (std::string(tname) == tn<T>::name() && std::string(uname) == tn<U>::name()) run_one<T, U>(a, b); } \
    else { if (idx % nshard == shard) pair_run<T, U>(); ++idx; }
    TYPES(X)
#undef X
}

int main(int argc, char** argv)
{
    int shard = 0, nshard = 1;
    const char *tname = nullptr, *uname = nullptr, *a = nullptr, *b = nullptr;
    for (int i = 1; i < argc; ++i)
    {
        std::string s = argv[i];
        if (s == "--shard") { shard = atoi(argv[i + 1]); nshard = atoi(argv[i + 2]); i += 2; }
        else if (s == "--full-bits") { g_full_bits = atoi(argv[++i]); }
        else if (s == "--one") { tname = argv[i + 1]; uname = argv[i + 2]; a = argv[i + 3]; b = argv[i + 4]; i += 4; }
    }
    int idx = 0;
#define X(T) row<T>(idx, shard, nshard, tname, uname, a, b);
    TYPES(X)
#undef X
    vf::stat("evaluations", g_eval);
    vf::stat("distinct_nontrivial", g_nontrivial);
    vf::done();
    return 0;
}
