// C15 (128-bit part): in the GNU dialects __int128 and unsigned __int128 are integer types (std::is_integral is true), so the
// cmp_* functions accept them. Every ordered pair of types in which at least one side is 128 bits wide x boundary alphabet of
// both sides; oracle = comparison of (sign, 128-bit magnitude).
#include <xtl/xcompare.hpp>
#include "report.hpp"

#include <cstdint>
#include <limits>
#include <string>
#include <type_traits>
#include <vector>

typedef __int128 i128;
typedef unsigned __int128 u128;
static_assert(std::is_integral<i128>::value && std::is_signed<i128>::value && std::is_integral<u128>::value && !std::is_signed<u128>::value,
              "this part must be built with a GNU dialect (-std=gnu++NN)");

#ifndef C15_TAG
#define C15_TAG "[gnu++14]"
#endif

struct Z { bool neg; u128 mag; };
template <class T> Z toZ(T t, std::true_type) { bool n = t < 0; return Z{n, n ? u128(0) - u128(t) : u128(t)}; }
template <class T> Z toZ(T t, std::false_type) { return Z{false, u128(t)}; }
template <class T> Z toZ(T t) { return toZ(t, std::integral_constant<bool, std::is_signed<T>::value>()); }
static int cmpZ(const Z& a, const Z& b)
{
    if (a.neg != b.neg) return a.neg ? -1 : 1;
    if (a.mag == b.mag) return 0;
    bool less = a.mag < b.mag;
    if (a.neg) less = !less;
    return less ? -1 : 1;
}
static std::string sZ(const Z& z)
{
    u128 u = z.mag; std::string s;
    do { s.insert(s.begin(), char('0' + int(u % 10))); u /= 10; } while (u);
    return (z.neg ? "-" : "") + s;
}
static Z parseZ(const char* s) { Z z{false, 0}; if (*s == '-') { z.neg = true; ++s; } while (*s) z.mag = z.mag * 10 + u128(*s++ - '0'); return z; }
template <class T> T fromZ(const Z& z) { return z.neg ? T(u128(0) - z.mag) : T(z.mag); }

template <class T> struct tn;
#define TN(T, N) template <> struct tn<T> { static const char* name() { return N; } };
TN(int8_t, "int8_t") TN(uint8_t, "uint8_t") TN(int16_t, "int16_t") TN(uint16_t, "uint16_t") TN(int32_t, "int32_t") TN(uint32_t, "uint32_t")
TN(int64_t, "int64_t") TN(uint64_t, "uint64_t") TN(char, "char") TN(i128, "int128") TN(u128, "uint128")

template <class T>
std::vector<T> boundary()
{
    std::vector<Z> c;
    const Z lo = toZ(std::numeric_limits<T>::min()), hi = toZ(std::numeric_limits<T>::max());
    auto add = [&](bool neg, u128 mag) { Z z{neg && mag != 0, mag}; if (cmpZ(z, lo) < 0 || cmpZ(z, hi) > 0) return; for (auto& y : c) if (cmpZ(y, z) == 0) return; c.push_back(z); };
    add(lo.neg, lo.mag); add(lo.neg, lo.mag - 1); add(hi.neg, hi.mag); add(false, hi.mag - 1);
    for (u128 m : {u128(0), u128(1), u128(2), u128(5)}) { add(false, m); add(true, m); }
    int ks[] = {7, 8, 15, 16, 31, 32, 63, 64, 65, 100, 126, 127};
    for (int k : ks)
    {
        u128 p = u128(1) << k;
        for (u128 d : {u128(0), u128(1), u128(5)}) { add(false, p + d); add(false, p - d); add(true, p + d); add(true, p - d); }
    }
    std::vector<T> v;
    for (auto& z : c) v.push_back(fromZ<T>(z));
    return v;
}

static long long g_eval = 0, g_nontrivial = 0;

template <class T, class U>
void one(T t, U u)
{
    Z a = toZ(t), b = toZ(u);
    int c = cmpZ(a, b);
    bool r[6] = {xtl::cmp_equal(t, u), xtl::cmp_not_equal(t, u), xtl::cmp_less(t, u), xtl::cmp_greater(t, u), xtl::cmp_less_equal(t, u), xtl::cmp_greater_equal(t, u)};
    bool e[6] = {c == 0, c != 0, c < 0, c > 0, c <= 0, c >= 0};
    static const char* fn[6] = {"cmp_equal", "cmp_not_equal", "cmp_less", "cmp_greater", "cmp_less_equal", "cmp_greater_equal"};
    ++g_eval;
    if (a.neg != b.neg || (a.mag >> 64) != 0 || (b.mag >> 64) != 0) ++g_nontrivial;
    auto cls = [](const Z& z) { return z.neg ? "neg" : z.mag == 0 ? "zero" : (z.mag >> 64) ? "pos>=2^64" : "pos"; };
    for (int i = 0; i < 6; ++i)
        if (r[i] != e[i])
            vf::violation(std::string("C15/") + C15_TAG + fn[i] + "/" + tn<T>::name() + "," + tn<U>::name() + "/" + cls(a) + "," + cls(b),
                          std::string(fn[i]) + "(" + tn<T>::name() + "(" + sZ(a) + "), " + tn<U>::name() + "(" + sZ(b) + ")) returned " + (r[i] ? "true" : "false") + ", mathematical comparison says " + (e[i] ? "true" : "false"),
                          {"--wide-one", tn<T>::name(), tn<U>::name(), sZ(a), sZ(b)});
    if (int(r[0]) + int(r[2]) + int(r[3]) != 1)
        vf::violation(std::string("C15/") + C15_TAG + "trichotomy/" + tn<T>::name() + "," + tn<U>::name(), "not exactly one of less/equal/greater for " + sZ(a) + ", " + sZ(b),
                      {"--wide-one", tn<T>::name(), tn<U>::name(), sZ(a), sZ(b)});
}

template <class T, class U>
void pair_run(const char* tname, const char* uname, const char* a, const char* b)
{
    if (tname)
    {
        if (std::string(tname) == tn<T>::name() && std::string(uname) == tn<U>::name()) one<T, U>(fromZ<T>(parseZ(a)), fromZ<U>(parseZ(b)));
        return;
    }
    long long before = g_eval;
    for (T x : boundary<T>()) for (U y : boundary<U>()) one<T, U>(x, y);
    vf::stat("type_pairs_128", 1);
    vf::note(std::string("cmp_*(") + tn<T>::name() + ", " + tn<U>::name() + ") " C15_TAG ": " + vf::str(g_eval - before) + " value pairs");
}

#define NARROW(X) X(int8_t) X(uint8_t) X(int16_t) X(uint16_t) X(int32_t) X(uint32_t) X(int64_t) X(uint64_t) X(char)

int main(int argc, char** argv)
{
    const char *tname = nullptr, *uname = nullptr, *a = nullptr, *b = nullptr;
    for (int i = 1; i < argc; ++i) if (std::string(argv[i]) == "--wide-one") { tname = argv[i + 1]; uname = argv[i + 2]; a = argv[i + 3]; b = argv[i + 4]; i += 4; }
#define X(N) pair_run<N, i128>(tname, uname, a, b); pair_run<i128, N>(tname, uname, a, b); pair_run<N, u128>(tname, uname, a, b); pair_run<u128, N>(tname, uname, a, b);
    NARROW(X)
#undef X
    pair_run<i128, i128>(tname, uname, a, b); pair_run<i128, u128>(tname, uname, a, b); pair_run<u128, i128>(tname, uname, a, b); pair_run<u128, u128>(tname, uname, a, b);
    vf::stat("evaluations", g_eval);
    vf::stat("distinct_nontrivial", g_nontrivial);
    vf::done();
    return 0;
}
