// C04: call-counting operand type. Every operator and every ADL-visible <cmath>-style function
// bumps a counter before it performs the operation on the wrapped builtin, so that "the underlying
// operation was evaluated" becomes observable. Lives in the harness, not in the library.
#ifndef C04_TRACED_HPP
#define C04_TRACED_HPP

#include <climits>
#include <cmath>
#include <type_traits>

namespace c04
{
    struct counters
    {
        long calls;      // arithmetic / bitwise / logical / ordering / compound / math-function evaluations
        long eq_calls;   // == and != evaluations (reported, not judged: see NOTES.md)
        long would_trap; // integer / or % evaluated with a divisor for which the builtin traps
    };
    inline counters& cnt() { static counters c = {0, 0, 0}; return c; }
    inline void cnt_reset() { cnt().calls = 0; cnt().eq_calls = 0; cnt().would_trap = 0; }

    template <class B> inline bool div_ok(B, B, std::false_type) { return true; }
    template <class B> inline bool div_ok(B a, B b, std::true_type) { return b != 0 && !(a == INT_MIN && b == -1); }

    template <class B>
    struct Traced
    {
        B v;
        Traced() : v() {}
        Traced(B x) : v(x) {}   // implicit on purpose: the library writes T(0), bool -> T, result -> xoptional<T>

#define C04_T_BIN(OP) \
        friend Traced operator OP(const Traced& a, const Traced& b) { ++cnt().calls; return Traced(B(a.v OP b.v)); }
#define C04_T_CMP(OP) \
        friend bool operator OP(const Traced& a, const Traced& b) { ++cnt().calls; return a.v OP b.v; }
#define C04_T_ASG(OP) \
        Traced& operator OP(const Traced& o) { ++cnt().calls; v OP o.v; return *this; }

        C04_T_BIN(+) C04_T_BIN(-) C04_T_BIN(*) C04_T_BIN(&) C04_T_BIN(|) C04_T_BIN(^)
        C04_T_CMP(<) C04_T_CMP(<=) C04_T_CMP(>) C04_T_CMP(>=) C04_T_CMP(||) C04_T_CMP(&&)
        C04_T_ASG(+=) C04_T_ASG(-=) C04_T_ASG(*=) C04_T_ASG(&=) C04_T_ASG(|=) C04_T_ASG(^=)

        // division family: counted first; a divisor on which the builtin would trap is recorded and not executed
        friend Traced operator/(const Traced& a, const Traced& b)
        {
            ++cnt().calls;
            if (!div_ok(a.v, b.v, std::is_integral<B>())) { ++cnt().would_trap; return Traced(B(0)); }
            return Traced(B(a.v / b.v));
        }
        friend Traced operator%(const Traced& a, const Traced& b)
        {
            ++cnt().calls;
            if (!div_ok(a.v, b.v, std::is_integral<B>())) { ++cnt().would_trap; return Traced(B(0)); }
            return Traced(B(a.v % b.v));
        }
        Traced& operator/=(const Traced& o)
        {
            ++cnt().calls;
            if (!div_ok(v, o.v, std::is_integral<B>())) { ++cnt().would_trap; return *this; }
            v /= o.v;
            return *this;
        }
        Traced& operator%=(const Traced& o)
        {
            ++cnt().calls;
            if (!div_ok(v, o.v, std::is_integral<B>())) { ++cnt().would_trap; return *this; }
            v %= o.v;
            return *this;
        }

        friend bool operator==(const Traced& a, const Traced& b) { ++cnt().eq_calls; return a.v == b.v; }
        friend bool operator!=(const Traced& a, const Traced& b) { ++cnt().eq_calls; return a.v != b.v; }

        friend Traced operator+(const Traced& a) { ++cnt().calls; return Traced(B(+a.v)); }
        friend Traced operator-(const Traced& a) { ++cnt().calls; return Traced(B(-a.v)); }
        friend Traced operator~(const Traced& a) { ++cnt().calls; return Traced(B(~a.v)); }
        friend bool operator!(const Traced& a) { ++cnt().calls; return !a.v; }

#define C04_T_F1(NAME) \
        friend Traced NAME(const Traced& a) { ++cnt().calls; return Traced(B(std::NAME(a.v))); }
#define C04_T_B1(NAME) \
        friend bool NAME(const Traced& a) { ++cnt().calls; return std::NAME(a.v); }
#define C04_T_F2(NAME) \
        friend Traced NAME(const Traced& a, const Traced& b) { ++cnt().calls; return Traced(B(std::NAME(a.v, b.v))); }
#define C04_T_F3(NAME) \
        friend Traced NAME(const Traced& a, const Traced& b, const Traced& c) { ++cnt().calls; return Traced(B(std::NAME(a.v, b.v, c.v))); }

        C04_T_F1(abs) C04_T_F1(fabs) C04_T_F1(exp) C04_T_F1(exp2) C04_T_F1(expm1) C04_T_F1(log) C04_T_F1(log10)
        C04_T_F1(log2) C04_T_F1(log1p) C04_T_F1(sqrt) C04_T_F1(cbrt) C04_T_F1(sin) C04_T_F1(cos) C04_T_F1(tan)
        C04_T_F1(acos) C04_T_F1(asin) C04_T_F1(atan) C04_T_F1(sinh) C04_T_F1(cosh) C04_T_F1(tanh) C04_T_F1(acosh)
        C04_T_F1(asinh) C04_T_F1(atanh) C04_T_F1(erf) C04_T_F1(erfc) C04_T_F1(tgamma) C04_T_F1(lgamma) C04_T_F1(ceil)
        C04_T_F1(floor) C04_T_F1(trunc) C04_T_F1(round) C04_T_F1(nearbyint) C04_T_F1(rint)
        C04_T_B1(isfinite) C04_T_B1(isinf) C04_T_B1(isnan)
        C04_T_F2(fmod) C04_T_F2(remainder) C04_T_F2(fmax) C04_T_F2(fmin) C04_T_F2(fdim) C04_T_F2(pow) C04_T_F2(hypot)
        C04_T_F2(atan2)
        C04_T_F3(fma)

#undef C04_T_BIN
#undef C04_T_CMP
#undef C04_T_ASG
#undef C04_T_F1
#undef C04_T_B1
#undef C04_T_F2
#undef C04_T_F3
    };
}

#endif
