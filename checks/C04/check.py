"""C04 missing/masked values propagate through every operator and are never evaluated.

Exhaustive case matrix (DESIGN.md "### C04"): harness.cpp carries the X-macro tables
(operator / function x wrapper x element type x operand-kind pattern = one "overload instance");
its driver enumerates presence x values for every instance, executes the real xtl overload and judges the
outcome with the lifted-semantics rule.  The table is cut into 10 parts (-DC04_PART) that are compiled and
run in parallel.  Thorough adds the const-reference closure kind, larger value alphabets and further
language levels / a second compiler.
"""
import os
import vlib

LEVEL = "exploration"
HERE = os.path.dirname(os.path.abspath(__file__))
SRC = os.path.join(HERE, "harness.cpp")
PARTS = list(range(1, 23))
PART_DOC = {
    1: "xoptional operators on int", 19: "xoptional operators on double", 2: "xoptional binary operators on Traced<int>",
    17: "xoptional ==,!=,unary,compound on Traced<int>; value_or", 3: "xoptional lifted unary/binary functions on double; abs(int); select<int>",
    4: "xoptional lifted functions on Traced<double>; select<double>", 5: "xoptional fma on double, Traced<double>",
    6: "xmasked_value operators on int", 20: "xmasked_value operators on double", 7: "xmasked_value binary operators on Traced<int>",
    18: "xmasked_value ==,!=,unary,compound on Traced<int>", 8: "xmasked_value lifted unary/binary functions on double; abs(int)",
    9: "xmasked_value lifted functions on Traced<double>", 10: "xmasked_value fma on double, Traced<double>",
    11: "xoptional mixed element types: operators/compound int<->double, % & | ^ int<->long long", 12: "xoptional mixed: binary functions int<->double; select int<->double",
    21: "xoptional aliased operands (x op x): every binary operator, ==/!=, compound assignment on int, double, Traced<int>", 22: "xmasked_value aliased operands",
    13: "xoptional mixed: fma over all 6 non-uniform {int,double}^3", 14: "xmasked_value mixed operators", 15: "xmasked_value mixed binary functions", 16: "xmasked_value mixed fma",
}


def configs(tier):
    """(std, compiler, cref, primary?) -- the primary configuration is the one whose cases are counted as distinct.
    cref = 0: kinds P V R (+ int-flag kinds I J on the counting element types, select and value_or; C04_FLAGS=1);
    cref = 1: + const-reference kind C and I J on every element type and in the full ternary product (C04_FLAGS=2)."""
    if tier == "quick":
        return [("c++14", "g++", 0, True)]
    return [("c++14", "g++", 1, True), ("c++17", "g++", 1, False), ("c++20", "g++", 1, False), ("c++14", "clang++", 1, False)]


def tag_of(part, std, cxx, cref, tier):
    return "c04;part=%d;std=%s;cxx=%s;cref=%d;tier=%s" % (part, std, cxx, cref, tier)


def parse_tag(tag):
    d = dict(kv.split("=", 1) for kv in tag.split(";")[1:])
    return int(d["part"]), d["std"], d["cxx"], int(d["cref"]), d["tier"]


def build(part, std, cxx, cref):
    return vlib.compile_cxx(SRC, "c04-p%d-%s-%s-cref%d" % (part, std, cxx.replace("+", "x"), cref), std=std, opt="-O1", san="asan", compiler=cxx,
                            defines=["C04_PART=%d" % part, "C04_CREF=%d" % cref, "C04_FLAGS=%d" % (2 if cref else 1)])


def merge(ctx, sub, primary):
    """fold the private context of one harness run into ctx (serially, in the main thread)"""
    ctx.viols += sub.viols
    for k, v in sub.stats.items():
        if primary or k in ("evaluations", "forked_cases", "harness_runs"):
            ctx.stat(k, v)
    if not primary:
        # same cases executed again under another build: they add executions, not distinct cases
        ctx.stat("evaluations_in_secondary_builds", sub.stats.get("evaluations", 0))
    for k, v in sub.maxes.items():
        ctx.smax(k, v)
    for n in sub.notes:
        ctx.note(n)


def run_config(ctx, std, cxx, cref, primary):
    tier = ctx.tier
    label = "%s %s%s" % (cxx, std, " +const-ref closures" if cref else "")

    def job(part):
        def f():
            if ctx.time_left() < 90:
                return None
            binary = build(part, std, cxx, cref)
            left = ctx.time_left()
            if left < 45:
                return None
            sub = vlib.Ctx(ctx.pid, tier, LEVEL, ctx.seed)
            dl = str(int(max(20, left - 40)))
            sub.run_harness(binary, ["--tier", tier, "--deadline", dl], tag=tag_of(part, std, cxx, cref, tier), timeout=max(60, left + 60))
            return sub
        return f

    res = vlib.parallel([job(p) for p in PARTS], workers=min(vlib.NCPU, len(PARTS)))
    skipped = [p for p, s in zip(PARTS, res) if s is None]
    n = 0
    for sub in res:
        if sub is None:
            continue
        merge(ctx, sub, primary)
        n += sub.stats.get("evaluations", 0)
        for c in sub.caps:
            ctx.cap("%s: %s" % (label, c))
    if primary:
        # evidence keeps 12 samples: one per table part in an order that shows every family (mixed element types and
        # int flags first), preferring within a part the case that shows the family's point
        by_part = dict((p, s.samples) for p, s in zip(PARTS, res) if s is not None)
        for p in [11, 21, 13, 12, 2, 17, 5, 14, 22, 18, 16, 1] + PARTS:
            ss = by_part.pop(p, None)
            if not ss:
                continue
            best = [s for s in ss if "int-flag=2" in s or (11 <= p <= 16 and "-> present" in s)] or ss
            ctx.sample(best[0])
    if skipped:
        ctx.cap("deadline: build '%s' did not run table parts %s" % (label, skipped))
    ctx.note("build %s: %d evaluations in %d of %d table parts" % (label, n, len(PARTS) - len(skipped), len(PARTS)))


def run(ctx):
    cfgs = configs(ctx.tier)
    for (std, cxx, cref, primary) in cfgs:
        if ctx.time_left() < 120:
            ctx.cap("deadline: build %s %s not started" % (cxx, std))
            continue
        run_config(ctx, std, cxx, cref, primary)
    th = ctx.tier == "thorough"
    kinds = ("plain P, value closure V (xoptional<T,bool> / xmasked_value<T,bool>), reference closure R (optional(x,flag) / masked_value(x,flag) on lvalues: <T&,bool&>), "
             "int-flag value closure I (<T,int>), int-flag reference closure J (<T&,int&>)")
    if th:
        kinds += ", const-reference closure C (<const T&,const bool&>)"
    xi, xd = ((" + {-2,3,-7,255,INT_MAX-1,INT_MIN+1}", " + {-1,0.5,2,-inf,DBL_MIN,denorm_min}") if th else ("", ""))
    ctx.rule = (
        "case matrix generated from X-macro tables: {xoptional, xmasked_value} x {14 binary operators + - * / % & | ^ || && < <= > >=, == and !=, 4 unary operators + - ~ !, "
        "8 compound assignments, 36 lifted unary functions, 8 lifted binary functions, fma} (+ xoptional value_or const& / const&&, select) x operand-kind pattern "
        "(every position one of: " + kinds + "; at least one non-plain; compound targets V R I J; a pattern is in the table when its kinds lie in one of the sets "
        + ("{P,V,R,C}, {P,V,R,I,J}" if th else "{P,V,R}, {P,V,R,I,J} for one- and two-operand forms, {P,V,R}, {P,I,J} for fma and select; I J only on the counting element types, select and value_or")
        + ") x element type(s) (same type: operators int, double, Traced<int>; functions double, Traced<double>, abs also int; % & | ^ ~ only on int / Traced<int>; "
        "mixed types in one call, bool-flag kinds P V R: int<->double in both orders for + - * / || && < <= > >= == != += -= *= /= and the 8 binary functions, all 6 non-uniform {int,double}^3 for fma, "
        "select branches int/double and double/int, int<->long long in both orders for % & | ^ and their compound forms; "
        "aliased operands, x op x, for every binary operator, ==/!= and compound assignment on int, double, Traced<int>: the same object on both sides (value closure; reference closure), "
        "two reference closures over one value with the same flag object or with their own flags, reference + const-reference closure over one value and flag, value closure copied from a variable "
        "with a reference closure of that variable in both orders) = one overload instance; for every instance ALL flag vectors "
        "(bool flags {false,true}; int flags {0,1,2}, so 2-vs-1 whose bitwise and is 0 occurs in every pair) x ALL value tuples over "
        "V(int)={0,1,-1,2,7,INT_MAX,INT_MIN}" + xi + ", V(double)={0,-0,1,-2.5,DBL_MAX,inf,NaN}" + xd + ", mixed-type calls: int {0,2,-3,7,INT_MAX}"
        + ("+{1,-1,INT_MIN}" if th else "") + ", double {0.5,2.5,-2.5,1e10,-0}" + ("+{3,1e300,inf,NaN}" if th else "") + ", long long {0,3,-5,2^40+1,-2^40}" + ("+{-1,255,2^62}" if th else "")
        + ", select condition {false,true}. "
        "Each case executes the real overload once and is judged: an operand is present iff its flag converts to true; result present <=> all optional operands present; present value == the builtin "
        "operation on the underlying builtin values with the usual arithmetic conversions (= their common type; NaN~NaN, signed zero distinguished); missing result => Traced call counter == 0 "
        "(not for unary operators; ==/!= judged by truth table only); compound: flag truthy iff both truthy, value updated only if still present (builtin a OP= b, i.e. converted back to the target type), "
        "otherwise target value unchanged, returns its target; ==: missing==missing, missing!=present/plain, != exact negation; select: missing iff condition missing else the chosen "
        "branch (presence, and value converted exactly to the common type) unchanged; value_or; operands and their flags never modified (aliased compound assignments: the shared value follows the target, a separate right-hand flag and a value-closure copy stay put); no ASan report. builtin-int cases whose evaluation would be "
        "undefined (x/0, x%0, INT_MIN/-1, overflow) with a missing operand run in a forked child: death by signal = violation. evaluations = executed cases over all builds; distinct_nontrivial = "
        "distinct cases (primary build only) in which at least one optional/masked operand is missing, i.e. the cases the presence logic decides")
    ctx.assumptions += [
        "the reference semantics is the statement's lifted rule evaluated with the builtin operator / libm function on the underlying values in the same process (libm and the compiler's integer arithmetic are trusted)",
        "cases in which every operand is present and the underlying builtin operation is undefined (int overflow, /0, %0, INT_MIN/-1, -INT_MIN, abs(INT_MIN)) are skipped and counted; for unary operators (exempt from non-evaluation) such values are skipped for missing operands too",
        "mixed element types are int/double (and int/long long for the integer-only operators) with bool-flag value and reference closures; non-evaluation is judged on the same-type Traced instances (the overloads are the same templates); xoptional is not mixed with xmasked_value (the overloads exclude it)",
        "flag types are bool and int (values 0,1,2); for a compound assignment only the truthiness of the target flag afterwards is judged, not its numeric value; mixed int/double compound cases whose result does not fit the int target are skipped as undefined",
        "Traced<B> is made an xtl 'fundamental' type by specialising xtl::is_fundamental in the harness, the same customisation the library uses for half_float",
        "non-evaluation is judged by call counters of Traced operands; for ==/!= the library compares the stored values of a missing and a present operand (harmless, observable only with a counting type): reported as a statistic, not judged, because the statement gives == its own truth-table clause",
        "xmasked_value operator= and operator value_type(), stream output, swap and the xoptional converting constructors are outside the statement and not judged here",
    ]
    ctx.note("parts: " + "; ".join("%d=%s" % (k, v) for k, v in sorted(PART_DOC.items())))


def replay(ctx, rec):
    part, std, cxx, cref, tier = parse_tag(rec["harness"])
    binary = build(part, std, cxx, cref)
    ctx.run_harness(binary, list(rec["args"]) + ["--tier", tier], tag=rec["harness"])
