// C04: missing/masked values propagate through every operator and are never evaluated.
// Exhaustive case matrix (DESIGN.md "### C04"): the matrix is generated from the X-macro tables below;
// every (wrapper, element type(s), operator/function, operand-kind pattern) is one table entry ("overload
// instance"), and the driver enumerates flag values x operand values for every entry and judges each execution
// of the REAL xtl code with the reference rule written out in run_one().
//
// compile-time configuration:
//   -DC04_PART=n    which slice of the table this binary carries (keeps each TU small enough to build in parallel)
//   -DC04_CREF=1    add the const-reference closure kind 'C' (<const T&, const bool&>) to the operand kinds
//   -DC04_FLAGS=n   non-bool flag kinds 'I' (<T,int>) and 'J' (<T&,int&>): 0 none, 1 on the counting element types
//                   (+ select), 2 on every element type and in the full ternary kind product
#include <xtl/xtype_traits.hpp>

#include "traced.hpp"

namespace xtl
{
    // Traced plays the role of an arithmetic scalar; common_optional_t asks xtl::is_fundamental (the library's
    // own customisation point, cf. xtl::is_scalar<half_float>) to decide that the operand is its own value type.
    template <class B>
    struct is_fundamental<c04::Traced<B>> : std::true_type
    {
    };
}

#include <xtl/xoptional.hpp>
#include <xtl/xmasked_value.hpp>

#include "report.hpp"

#include <cfloat>
#include <climits>
#include <cmath>
#include <cstring>
#include <ctime>
#include <memory>
#include <string>
#include <vector>

#include <sys/types.h>
#include <sys/wait.h>
#include <unistd.h>

#ifndef C04_PART
#error "C04_PART must be defined"
#endif
#ifndef C04_CREF
#define C04_CREF 0
#endif
#ifndef C04_FLAGS
#define C04_FLAGS 0
#endif

namespace c04
{
    // ------------------------------------------------------------------ element types
    enum EC { EC_INT, EC_DBL, EC_BOOL, EC_LL };

    inline double to_d(bool x) { return x ? 1.0 : 0.0; }
    inline double to_d(int x) { return double(x); }
    inline double to_d(long long x) { return double(x); }
    inline double to_d(double x) { return x; }
    template <class B> inline double to_d(const Traced<B>& x) { return double(x.v); }

    template <class E> struct elem;
    template <> struct elem<int>
    {
        typedef int base;
        enum { ec = EC_INT, traced = 0 };
        static const char* name() { return "int"; }
        static int make(double d) { return int(d); }
    };
    template <> struct elem<long long>
    {
        typedef long long base;
        enum { ec = EC_LL, traced = 0 };
        static const char* name() { return "long long"; }
        static long long make(double d) { return (long long)d; }
    };
    template <> struct elem<double>
    {
        typedef double base;
        enum { ec = EC_DBL, traced = 0 };
        static const char* name() { return "double"; }
        static double make(double d) { return d; }
    };
    template <> struct elem<bool>
    {
        typedef bool base;
        enum { ec = EC_BOOL, traced = 0 };
        static const char* name() { return "bool"; }
        static bool make(double d) { return d != 0; }
    };
    template <> struct elem<Traced<int>>
    {
        typedef int base;
        enum { ec = EC_INT, traced = 1 };
        static const char* name() { return "Traced<int>"; }
        static Traced<int> make(double d) { return Traced<int>(int(d)); }
    };
    template <> struct elem<Traced<double>>
    {
        typedef double base;
        enum { ec = EC_DBL, traced = 1 };
        static const char* name() { return "Traced<double>"; }
        static Traced<double> make(double d) { return Traced<double>(d); }
    };

    // the value an operand of this class holds when it is built from the driver's double
    inline double canon(double v, int ec)
    {
        switch (ec)
        {
        case EC_INT: return double(int(v));
        case EC_LL: return double((long long)v);
        case EC_BOOL: return v != 0 ? 1.0 : 0.0;
        default: return v;
        }
    }

    // bit-exact-enough comparison of values carried as double: NaN matches NaN, zeros must agree in sign
    inline bool same_d(double a, double b)
    {
        if (std::isnan(a) || std::isnan(b)) return std::isnan(a) && std::isnan(b);
        return a == b && std::signbit(a) == std::signbit(b);
    }

    // the lvalues a reference closure refers to (and the source of a value closure); f is the bool flag, fi the int flag
    template <class E> struct Slot { E x; bool f; int fi; };
    template <class E> inline Slot<E> mk(double v, int p) { Slot<E> s = {elem<E>::make(v), p != 0, p}; return s; }

    // ------------------------------------------------------------------ wrappers and operand kinds
    struct WOpt
    {
        static const char* name() { return "xoptional"; }
        template <class E> static auto val(Slot<E>& s) { return xtl::optional(E(s.x), bool(s.f)); }
        template <class E> static auto ref(Slot<E>& s) { return xtl::optional(s.x, s.f); }
        template <class E> static auto cref(Slot<E>& s) { const E& x = s.x; const bool& f = s.f; return xtl::optional(x, f); }
        template <class E> static auto ival(Slot<E>& s) { return xtl::optional(E(s.x), int(s.fi)); }
        template <class E> static auto iref(Slot<E>& s) { return xtl::optional(s.x, s.fi); }
        template <class E> static auto refxf(E& x, bool& f) { return xtl::optional(x, f); }
        template <class E> static auto crefxf(const E& x, const bool& f) { return xtl::optional(x, f); }
        template <class E> static auto valxf(const E& x, bool f) { return xtl::optional(E(x), bool(f)); }
    };
    struct WMsk
    {
        static const char* name() { return "xmasked_value"; }
        template <class E> static auto val(Slot<E>& s) { return xtl::masked_value(E(s.x), bool(s.f)); }
        template <class E> static auto ref(Slot<E>& s) { return xtl::masked_value(s.x, s.f); }
        template <class E> static auto cref(Slot<E>& s) { const E& x = s.x; const bool& f = s.f; return xtl::masked_value(x, f); }
        template <class E> static auto ival(Slot<E>& s) { return xtl::masked_value(E(s.x), int(s.fi)); }
        template <class E> static auto iref(Slot<E>& s) { return xtl::masked_value(s.x, s.fi); }
        template <class E> static auto refxf(E& x, bool& f) { return xtl::masked_value(x, f); }
        template <class E> static auto crefxf(const E& x, const bool& f) { return xtl::masked_value(x, f); }
        template <class E> static auto valxf(const E& x, bool f) { return xtl::masked_value(E(x), bool(f)); }
    };
    // the closure kinds really are what the tables say
    static_assert(std::is_same<decltype(WOpt::val(std::declval<Slot<int>&>())), xtl::xoptional<int, bool>>::value, "V");
    static_assert(std::is_same<decltype(WOpt::ref(std::declval<Slot<int>&>())), xtl::xoptional<int&, bool&>>::value, "R");
    static_assert(std::is_same<decltype(WOpt::cref(std::declval<Slot<int>&>())), xtl::xoptional<const int&, const bool&>>::value, "C");
    static_assert(std::is_same<decltype(WOpt::ival(std::declval<Slot<int>&>())), xtl::xoptional<int, int>>::value, "I");
    static_assert(std::is_same<decltype(WOpt::iref(std::declval<Slot<int>&>())), xtl::xoptional<int&, int&>>::value, "J");
    static_assert(std::is_same<decltype(WMsk::val(std::declval<Slot<int>&>())), xtl::xmasked_value<int, bool>>::value, "V");
    static_assert(std::is_same<decltype(WMsk::ref(std::declval<Slot<int>&>())), xtl::xmasked_value<int&, bool&>>::value, "R");
    static_assert(std::is_same<decltype(WMsk::cref(std::declval<Slot<int>&>())), xtl::xmasked_value<const int&, const bool&>>::value, "C");
    static_assert(std::is_same<decltype(WMsk::ival(std::declval<Slot<int>&>())), xtl::xmasked_value<int, int>>::value, "I");
    static_assert(std::is_same<decltype(WMsk::iref(std::declval<Slot<int>&>())), xtl::xmasked_value<int&, int&>>::value, "J");

    // kind sets: a pattern is in the table when all its kinds lie in one enabled set
    enum { S_BOOL = 1, S_CREF = 2, S_INT = 4, S_INTQ = 8, S_ALL = 15 };

    struct KP { enum { opt = 0, tri = 0, isref = 0, sets = S_ALL }; static char c() { return 'P'; } template <class W, class E> static E get(Slot<E>& s) { return s.x; } };
    struct KV { enum { opt = 1, tri = 0, isref = 0, sets = S_BOOL | S_CREF | S_INT }; static char c() { return 'V'; } template <class W, class E> static auto get(Slot<E>& s) { return W::val(s); } };
    struct KR { enum { opt = 1, tri = 0, isref = 1, sets = S_BOOL | S_CREF | S_INT }; static char c() { return 'R'; } template <class W, class E> static auto get(Slot<E>& s) { return W::ref(s); } };
    struct KC { enum { opt = 1, tri = 0, isref = 0, sets = S_CREF }; static char c() { return 'C'; } template <class W, class E> static auto get(Slot<E>& s) { return W::cref(s); } };
    struct KI { enum { opt = 1, tri = 1, isref = 0, sets = S_INT | S_INTQ }; static char c() { return 'I'; } template <class W, class E> static auto get(Slot<E>& s) { return W::ival(s); } };
    struct KJ { enum { opt = 1, tri = 1, isref = 1, sets = S_INT | S_INTQ }; static char c() { return 'J'; } template <class W, class E> static auto get(Slot<E>& s) { return W::iref(s); } };

#define C04_KINDS(X) X(KP) X(KV) X(KR) X(KC) X(KI) X(KJ)
#define C04_TARGET_KINDS(X) X(KV) X(KR) X(KI) X(KJ)

    // enabled kind sets for one-/two-operand forms and for three-operand forms, per element type
    template <class E> struct masks
    {
        enum
        {
            flags_on = (C04_FLAGS >= 2) || (C04_FLAGS == 1 && elem<E>::traced),
            m2 = S_BOOL | (C04_CREF ? S_CREF : 0) | (flags_on ? S_INT : 0),
            m3 = S_BOOL | (C04_CREF ? S_CREF : 0) | (flags_on ? (C04_FLAGS >= 2 ? S_INT : S_INTQ) : 0),
            msel = S_BOOL | (C04_CREF ? S_CREF : 0) | (C04_FLAGS >= 2 ? S_INT : (C04_FLAGS == 1 ? S_INTQ : 0))
        };
    };
    enum { M_MIXED = S_BOOL };   // mixed element types: bool-flag value/reference closures

    // observers
    template <class T> inline bool pres(const T&) { return true; }
    template <class T, class B> inline bool pres(const xtl::xoptional<T, B>& o) { return o.has_value() ? true : false; }
    template <class T, class B> inline bool pres(const xtl::xmasked_value<T, B>& o) { return o.visible() ? true : false; }
    template <class T> inline int rawflag(const T&) { return 1; }
    template <class T, class B> inline int rawflag(const xtl::xoptional<T, B>& o) { return int(o.has_value()); }
    template <class T, class B> inline int rawflag(const xtl::xmasked_value<T, B>& o) { return int(o.visible()); }
    template <class T> inline double val(const T& x) { return to_d(x); }
    template <class T, class B> inline double val(const xtl::xoptional<T, B>& o) { return to_d(o.value()); }
    template <class T, class B> inline double val(const xtl::xmasked_value<T, B>& o) { return to_d(o.value()); }

    // operand (and what it was built from) still holds value v and flag p
    template <class K, class A, class E>
    inline bool intact(const A& operand, const Slot<E>& s, double v, int p)
    {
        const double c = to_d(elem<E>::make(v));
        return same_d(val(operand), c) && rawflag(operand) == (K::opt ? (K::tri ? p : int(p != 0)) : 1) &&
               same_d(to_d(s.x), c) && s.f == (p != 0) && s.fi == p;
    }

    // ------------------------------------------------------------------ type-erased case table
    enum Kind { K_BINOP, K_UNOP, K_CMPD, K_EQ, K_NE, K_FN1, K_FN2, K_FN3, K_VALUE_OR, K_SELECT };
    enum Dom { D_ANY, D_ADD, D_SUB, D_MUL, D_DIV, D_NEG };

    struct Outcome
    {
        int present;      // result present / target present afterwards
        double val;       // result value / target value afterwards (meaningful when judged)
        long calls;       // Traced evaluations during the operation
        long eq_calls;
        long would_trap;
        int intact;       // operands (and, for value-closure targets, their source) unchanged
        int self;         // compound assignment returned its target
        int asan;
        int sig;          // forked child died with this signal
    };

    typedef void (*EvalFn)(const double*, const int*, Outcome&);
    typedef double (*RefFn)(const double*);

    // aliasing modes: both operands of a binary form designate the same value (x op x)
    enum { A_NONE, A_SAME_V, A_SAME_R, A_RR_SF, A_RR_DF, A_VR, A_RV, A_RC };
    inline const char* amode_name(int m)
    {
        static const char* n[] = {"", "same-object(value-closure)", "same-object(ref-closure)", "two-ref-closures-same-value-same-flag",
                                  "two-ref-closures-same-value-own-flags", "value-closure-and-ref-closure-of-one-variable", "ref-closure-and-value-closure-of-one-variable",
                                  "ref-closure-and-const-ref-closure-same-value-same-flag"};
        return n[m];
    }
    inline const char* amode_pat(int m) { static const char* n[] = {"", "VV", "RR", "RR", "RR", "VR", "RV", "RC"}; return n[m]; }
    inline bool amode_tied_flag(int m) { return m == A_SAME_V || m == A_SAME_R || m == A_RR_SF || m == A_RC; }

    struct Case
    {
        std::string wrapper, elem, op, pat;
        int kind, arity, dom;
        int ec[3];
        bool traced, mixed;
        int alias;        // aliasing mode (A_NONE: distinct operand objects over distinct storage)
        EvalFn eval;
        RefFn ref;
        std::string name() const { return wrapper + "<" + elem + ">|" + op + "|" + pat + (alias ? std::string("|") + amode_name(alias) : std::string()); }
    };
    inline std::vector<Case>& table() { static std::vector<Case> t; return t; }

    inline void grab(Outcome& o)
    {
        o.calls = cnt().calls;
        o.eq_calls = cnt().eq_calls;
        o.would_trap = cnt().would_trap;
    }

    // ------------------------------------------------------------------ evaluators (the only templates that touch xtl)
    template <class W, class Op, class E1, class K1>
    void ev1(const double* v, const int* p, Outcome& o)
    {
        Slot<E1> s1 = mk<E1>(v[0], p[0]);
        auto a = K1::template get<W>(s1);
        const auto& ca = a;
        cnt_reset();
        auto r = Op::apply(ca);
        grab(o);
        o.present = pres(r);
        o.val = val(r);
        o.intact = intact<K1>(ca, s1, v[0], p[0]);
    }

    template <class W, class Op, class E1, class K1, class E2, class K2>
    void ev2(const double* v, const int* p, Outcome& o)
    {
        Slot<E1> s1 = mk<E1>(v[0], p[0]);
        Slot<E2> s2 = mk<E2>(v[1], p[1]);
        auto a = K1::template get<W>(s1);
        auto b = K2::template get<W>(s2);
        const auto& ca = a;
        const auto& cb = b;
        cnt_reset();
        auto r = Op::apply(ca, cb);
        grab(o);
        o.present = pres(r);
        o.val = val(r);
        o.intact = intact<K1>(ca, s1, v[0], p[0]) && intact<K2>(cb, s2, v[1], p[1]);
    }

    template <class W, class Op, class E1, class K1, class E2, class K2, class E3, class K3>
    void ev3(const double* v, const int* p, Outcome& o)
    {
        Slot<E1> s1 = mk<E1>(v[0], p[0]);
        Slot<E2> s2 = mk<E2>(v[1], p[1]);
        Slot<E3> s3 = mk<E3>(v[2], p[2]);
        auto a = K1::template get<W>(s1);
        auto b = K2::template get<W>(s2);
        auto c = K3::template get<W>(s3);
        const auto& ca = a;
        const auto& cb = b;
        const auto& cc = c;
        cnt_reset();
        auto r = Op::apply(ca, cb, cc);
        grab(o);
        o.present = pres(r);
        o.val = val(r);
        o.intact = intact<K1>(ca, s1, v[0], p[0]) && intact<K2>(cb, s2, v[1], p[1]) && intact<K3>(cc, s3, v[2], p[2]);
    }

    template <class W, class Op, class E1, class K1, class E2, class K2>
    void ev_cmpd(const double* v, const int* p, Outcome& o)
    {
        Slot<E1> s1 = mk<E1>(v[0], p[0]);
        Slot<E2> s2 = mk<E2>(v[1], p[1]);
        auto t = K1::template get<W>(s1);
        auto b = K2::template get<W>(s2);
        const auto& cb = b;
        cnt_reset();
        auto& ret = Op::apply(t, cb);
        grab(o);
        o.present = pres(t);
        o.val = val(t);
        o.self = (static_cast<const void*>(std::addressof(ret)) == static_cast<const void*>(std::addressof(t)));   // xoptional overloads unary &
        bool ok = intact<K2>(cb, s2, v[1], p[1]);
        if (K1::isref)   // reference closure: the referenced lvalues ARE the target
            ok = ok && same_d(to_d(s1.x), o.val) && ((K1::tri ? s1.fi != 0 : s1.f) == (o.present != 0));
        else             // value closure: the source it was built from must not change
            ok = ok && same_d(to_d(s1.x), to_d(elem<E1>::make(v[0]))) && s1.f == (p[0] != 0) && s1.fi == p[0];
        o.intact = ok;
    }

    // ---- aliasing: s holds THE value x (and flag f); s2 only lends a second flag object
    template <class W, class E, int MODE> struct alias_mk;
    template <class W, class E> struct alias_mk<W, E, A_SAME_V> { template <class F> static void with(Slot<E>& s, Slot<E>&, F f) { auto a = W::val(s); f(a, a); } };
    template <class W, class E> struct alias_mk<W, E, A_SAME_R> { template <class F> static void with(Slot<E>& s, Slot<E>&, F f) { auto a = W::ref(s); f(a, a); } };
    template <class W, class E> struct alias_mk<W, E, A_RR_SF> { template <class F> static void with(Slot<E>& s, Slot<E>&, F f) { auto a = W::ref(s); auto b = W::ref(s); f(a, b); } };
    template <class W, class E> struct alias_mk<W, E, A_RR_DF> { template <class F> static void with(Slot<E>& s, Slot<E>& s2, F f) { auto a = W::ref(s); auto b = W::refxf(s.x, s2.f); f(a, b); } };
    template <class W, class E> struct alias_mk<W, E, A_VR> { template <class F> static void with(Slot<E>& s, Slot<E>& s2, F f) { auto a = W::val(s); auto b = W::refxf(s.x, s2.f); f(a, b); } };
    template <class W, class E> struct alias_mk<W, E, A_RV> { template <class F> static void with(Slot<E>& s, Slot<E>& s2, F f) { auto a = W::ref(s); auto b = W::valxf(s.x, s2.f); f(a, b); } };
    template <class W, class E> struct alias_mk<W, E, A_RC> { template <class F> static void with(Slot<E>& s, Slot<E>&, F f) { auto a = W::ref(s); auto b = W::crefxf(s.x, s.f); f(a, b); } };

    template <class W, class Op, class E, int MODE>
    void ev2a(const double* v, const int* p, Outcome& o)
    {
        Slot<E> s = mk<E>(v[0], p[0]);
        Slot<E> s2 = mk<E>(v[0], p[1]);
        alias_mk<W, E, MODE>::with(s, s2, [&](auto& a, auto& b) {
            const auto& ca = a;
            const auto& cb = b;
            cnt_reset();
            auto r = Op::apply(ca, cb);
            grab(o);
            o.present = pres(r);
            o.val = val(r);
            const double c = to_d(elem<E>::make(v[0]));
            o.intact = same_d(val(ca), c) && same_d(val(cb), c) && pres(ca) == (p[0] != 0) && pres(cb) == (p[1] != 0) && same_d(to_d(s.x), c) &&
                       s.f == (p[0] != 0) && s2.f == (p[1] != 0);
        });
    }

    template <class W, class Op, class E, int MODE>
    void ev_cmpda(const double* v, const int* p, Outcome& o)
    {
        Slot<E> s = mk<E>(v[0], p[0]);
        Slot<E> s2 = mk<E>(v[0], p[1]);
        alias_mk<W, E, MODE>::with(s, s2, [&](auto& t, auto& b) {
            const auto& cb = b;
            cnt_reset();
            auto& ret = Op::apply(t, cb);
            grab(o);
            o.present = pres(t);
            o.val = val(t);
            o.self = (static_cast<const void*>(std::addressof(ret)) == static_cast<const void*>(std::addressof(t)));
            const double c0 = to_d(elem<E>::make(v[0]));
            const bool pa = o.present != 0;
            bool ok = true;
            switch (MODE)
            {
            case A_SAME_V:   // the object is its own right-hand side; the variable it was copied from is not involved
                ok = same_d(to_d(s.x), c0) && s.f == (p[0] != 0);
                break;
            case A_SAME_R: case A_RR_SF: case A_RC:   // right-hand side designates the target's value and flag
                ok = same_d(to_d(s.x), o.val) && s.f == pa && same_d(val(cb), o.val) && pres(cb) == pa;
                break;
            case A_RR_DF:    // same value, own flag: the right-hand flag must not change
                ok = same_d(to_d(s.x), o.val) && s.f == pa && same_d(val(cb), o.val) && s2.f == (p[1] != 0) && pres(cb) == (p[1] != 0);
                break;
            case A_VR:       // target is a copy of x, right-hand side refers to x: x and its flag must not change
                ok = same_d(to_d(s.x), c0) && s.f == (p[0] != 0) && s2.f == (p[1] != 0) && same_d(val(cb), c0) && pres(cb) == (p[1] != 0);
                break;
            case A_RV:       // target refers to x, right-hand side is a copy of x taken before
                ok = same_d(to_d(s.x), o.val) && s.f == pa && same_d(val(cb), c0) && pres(cb) == (p[1] != 0) && s2.f == (p[1] != 0);
                break;
            }
            o.intact = ok;
        });
    }

    // value_or: v[0]/p[0] the optional, v[1] the default
    template <class E, class K1, bool RV>
    void ev_value_or(const double* v, const int* p, Outcome& o)
    {
        Slot<E> s1 = mk<E>(v[0], p[0]);
        auto a = K1::template get<WOpt>(s1);
        const auto& ca = a;
        E dflt = elem<E>::make(v[1]);
        cnt_reset();
        E r = RV ? std::move(ca).value_or(dflt) : ca.value_or(dflt);
        grab(o);
        o.present = 1;
        o.val = to_d(r);
        o.intact = intact<K1>(ca, s1, v[0], p[0]) && same_d(to_d(dflt), to_d(elem<E>::make(v[1])));
    }

    // select(cond, a, b): position 0 is the (bool) condition
    template <class K0, class E1, class K1, class E2, class K2>
    void ev_select(const double* v, const int* p, Outcome& o)
    {
        Slot<bool> s0 = mk<bool>(v[0], p[0]);
        Slot<E1> s1 = mk<E1>(v[1], p[1]);
        Slot<E2> s2 = mk<E2>(v[2], p[2]);
        auto c = K0::template get<WOpt>(s0);
        auto a = K1::template get<WOpt>(s1);
        auto b = K2::template get<WOpt>(s2);
        const auto& cc = c;
        const auto& ca = a;
        const auto& cb = b;
        cnt_reset();
        auto r = xtl::select(cc, ca, cb);
        grab(o);
        o.present = pres(r);
        o.val = val(r);
        o.intact = intact<K0>(cc, s0, v[0], p[0]) && intact<K1>(ca, s1, v[1], p[1]) && intact<K2>(cb, s2, v[2], p[2]);
    }

    // reference: the builtin operation on the underlying builtin values (usual arithmetic conversions = common type)
    template <class Op, class E1> double rf1(const double* v) { return Op::ref(typename elem<E1>::base(v[0])); }
    template <class Op, class E1, class E2> double rf2(const double* v) { return Op::ref(typename elem<E1>::base(v[0]), typename elem<E2>::base(v[1])); }
    template <class Op, class E1, class E2, class E3> double rf3(const double* v)
    {
        return Op::ref(typename elem<E1>::base(v[0]), typename elem<E2>::base(v[1]), typename elem<E3>::base(v[2]));
    }

    // ------------------------------------------------------------------ the tables
    // binary operators: id, token, domain on int, integer-only
#define C04_BINOPS(X)                                                                                       \
    X(add, +, D_ADD, 0) X(sub, -, D_SUB, 0) X(mul, *, D_MUL, 0) X(div, /, D_DIV, 0) X(mod, %, D_DIV, 1)     \
    X(band, &, D_ANY, 1) X(bor, |, D_ANY, 1) X(bxor, ^, D_ANY, 1) X(lor, ||, D_ANY, 0) X(land, &&, D_ANY, 0) \
    X(lt, <, D_ANY, 0) X(le, <=, D_ANY, 0) X(gt, >, D_ANY, 0) X(ge, >=, D_ANY, 0)
#define C04_EQOPS(X) X(eq, ==, K_EQ) X(ne, !=, K_NE)
#define C04_UNOPS(X) X(pos, +, D_ANY, 0) X(neg, -, D_NEG, 0) X(bnot, ~, D_ANY, 1) X(lnot, !, D_ANY, 0)
#define C04_CMPDOPS(X)                                                                                       \
    X(iadd, +=, D_ADD, 0) X(isub, -=, D_SUB, 0) X(imul, *=, D_MUL, 0) X(idiv, /=, D_DIV, 0) X(imod, %=, D_DIV, 1) \
    X(iand, &=, D_ANY, 1) X(ior, |=, D_ANY, 1) X(ixor, ^=, D_ANY, 1)
    // lifted functions (xoptional.hpp:1255-1299, xmasked_value.hpp:485-529)
#define C04_FN1(X)                                                                                             \
    X(abs) X(fabs) X(exp) X(exp2) X(expm1) X(log) X(log10) X(log2) X(log1p) X(sqrt) X(cbrt) X(sin) X(cos) X(tan) \
    X(acos) X(asin) X(atan) X(sinh) X(cosh) X(tanh) X(acosh) X(asinh) X(atanh) X(erf) X(erfc) X(tgamma)         \
    X(lgamma) X(ceil) X(floor) X(trunc) X(round) X(nearbyint) X(rint) X(isfinite) X(isinf) X(isnan)
#define C04_FN2(X) X(fmod) X(remainder) X(fmax) X(fmin) X(fdim) X(pow) X(hypot) X(atan2)
#define C04_FN3(X) X(fma)

#define X(ID, TOK, DOM, INTONLY)                                                                             \
    struct op_##ID                                                                                           \
    {                                                                                                        \
        enum { dom = DOM, intonly = INTONLY, kind = K_BINOP };                                               \
        static const char* nm() { return "operator" #TOK; }                                                  \
        template <class A, class B> static auto apply(const A& a, const B& b) { return a TOK b; }            \
        template <class A, class B> static double ref(A a, B b) { return to_d(a TOK b); }                    \
    };
    C04_BINOPS(X)
#undef X
#define X(ID, TOK, KIND)                                                                                     \
    struct op_##ID                                                                                           \
    {                                                                                                        \
        enum { dom = D_ANY, intonly = 0, kind = KIND };                                                      \
        static const char* nm() { return "operator" #TOK; }                                                  \
        template <class A, class B> static bool apply(const A& a, const B& b) { return a TOK b; }            \
        template <class A, class B> static double ref(A a, B b) { return to_d(a == b); }                     \
    };
    C04_EQOPS(X)
#undef X
#define X(ID, TOK, DOM, INTONLY)                                                                             \
    struct op_##ID                                                                                           \
    {                                                                                                        \
        enum { dom = DOM, intonly = INTONLY, kind = K_UNOP };                                                \
        static const char* nm() { return "unary_operator" #TOK; }                                            \
        template <class A> static auto apply(const A& a) { return TOK a; }                                   \
        template <class A> static double ref(A a) { return to_d(TOK a); }                                    \
    };
    C04_UNOPS(X)
#undef X
#define X(ID, TOK, DOM, INTONLY)                                                                             \
    struct op_##ID                                                                                           \
    {                                                                                                        \
        enum { dom = DOM, intonly = INTONLY, kind = K_CMPD };                                                \
        static const char* nm() { return "operator" #TOK; }                                                  \
        template <class T, class B> static T& apply(T& t, const B& b) { return t TOK b; }                    \
        template <class A, class B> static double ref(A a, B b) { a TOK b; return to_d(a); }                 \
    };
    C04_CMPDOPS(X)
#undef X
#define X(NAME)                                                                                              \
    struct fn_##NAME                                                                                         \
    {                                                                                                        \
        enum { dom = D_ANY, intonly = 0, kind = K_FN1 };                                                     \
        static const char* nm() { return #NAME; }                                                            \
        template <class A> static auto apply(const A& a) { return NAME(a); }                                 \
        template <class A> static double ref(A a) { return to_d(std::NAME(a)); }                             \
    };
    C04_FN1(X)
#undef X
#define X(NAME)                                                                                              \
    struct fn_##NAME                                                                                         \
    {                                                                                                        \
        enum { dom = D_ANY, intonly = 0, kind = K_FN2 };                                                     \
        static const char* nm() { return #NAME; }                                                            \
        template <class A, class B> static auto apply(const A& a, const B& b) { return NAME(a, b); }         \
        template <class A, class B> static double ref(A a, B b) { return to_d(std::NAME(a, b)); }            \
    };
    C04_FN2(X)
#undef X
#define X(NAME)                                                                                              \
    struct fn_##NAME                                                                                         \
    {                                                                                                        \
        enum { dom = D_ANY, intonly = 0, kind = K_FN3 };                                                     \
        static const char* nm() { return #NAME; }                                                            \
        template <class A, class B, class C> static auto apply(const A& a, const B& b, const C& c) { return NAME(a, b, c); } \
        template <class A, class B, class C> static double ref(A a, B b, C c) { return to_d(std::NAME(a, b, c)); } \
    };
    C04_FN3(X)
#undef X

    // abs(INT_MIN) is undefined on int: same domain as unary minus
    template <class Op> struct dom_of { enum { value = Op::dom }; };
    template <> struct dom_of<fn_abs> { enum { value = D_NEG }; };

    // ------------------------------------------------------------------ registration: operand-kind patterns
    inline void add_case(const char* w, const std::string& e, const char* op, const std::string& pat, int kind, int arity, int dom,
                         int ec0, int ec1, int ec2, bool traced, bool mixed, EvalFn ev, RefFn rf)
    {
        Case c;
        c.wrapper = w; c.elem = e; c.op = op; c.pat = pat; c.kind = kind; c.arity = arity; c.dom = dom;
        c.ec[0] = ec0; c.ec[1] = ec1; c.ec[2] = ec2;
        c.traced = traced; c.mixed = mixed; c.eval = ev; c.ref = rf;
        c.alias = A_NONE;
        table().push_back(c);
    }

    typedef std::true_type yes;
    typedef std::false_type no;
    template <bool b> using bc = std::integral_constant<bool, b>;

    template <class E1, class E2> inline std::string en2()
    {
        return std::is_same<E1, E2>::value ? std::string(elem<E1>::name()) : std::string(elem<E1>::name()) + "," + elem<E2>::name();
    }
    template <class E1, class E2, class E3> inline std::string en3()
    {
        return (std::is_same<E1, E2>::value && std::is_same<E2, E3>::value) ? std::string(elem<E1>::name())
                                                                            : std::string(elem<E1>::name()) + "," + elem<E2>::name() + "," + elem<E3>::name();
    }
    template <class E> struct is_intclass : bc<(elem<E>::ec == EC_INT || elem<E>::ec == EC_LL)> {};

    // which operators are registered for an element pair: ALL = every operator that is well-formed on the builtins,
    // INTONLY = just % & | ^ and their compound forms
    enum { OPS_ALL, OPS_INTONLY };
    template <class Op, class E1, class E2, int MODE> struct op_ok
        : bc<(MODE == OPS_INTONLY ? (Op::intonly != 0) : (!Op::intonly || (is_intclass<E1>::value && is_intclass<E2>::value)))> {};

    template <class W, class Op, class E1, int M>
    struct reg1
    {
        template <class K1> static void one(no) {}
        template <class K1> static void one(yes)
        {
            add_case(W::name(), elem<E1>::name(), Op::nm(), std::string(1, K1::c()), Op::kind, 1, dom_of<Op>::value, elem<E1>::ec, 0, 0, elem<E1>::traced, false,
                     &ev1<W, Op, E1, K1>, &rf1<Op, E1>);
        }
        static void all(no) {}
        static void all(yes)
        {
#define X(K) one<K>(bc<(K::opt != 0 && (K::sets & M) != 0)>());
            C04_KINDS(X)
#undef X
        }
        static void go() { all(op_ok<Op, E1, E1, OPS_ALL>()); }
    };

    template <class W, class Op, class E1, class E2, int M, int MODE = OPS_ALL>
    struct reg2
    {
        template <class K1, class K2> static void one(no) {}
        template <class K1, class K2> static void one(yes)
        {
            std::string pat; pat += K1::c(); pat += K2::c();
            add_case(W::name(), en2<E1, E2>(), Op::nm(), pat, Op::kind, 2, Op::dom, elem<E1>::ec, elem<E2>::ec, 0, elem<E1>::traced, !std::is_same<E1, E2>::value,
                     &ev2<W, Op, E1, K1, E2, K2>, &rf2<Op, E1, E2>);
        }
        template <class K1> static void row()
        {
#define X(K) one<K1, K>(bc<((K1::opt || K::opt) && (K1::sets & K::sets & M) != 0)>());
            C04_KINDS(X)
#undef X
        }
        static void all(no) {}
        static void all(yes)
        {
#define X(K) row<K>();
            C04_KINDS(X)
#undef X
        }
        static void go() { all(op_ok<Op, E1, E2, MODE>()); }
    };

    template <class W, class Op, class E1, class E2, class E3, int M>
    struct reg3
    {
        template <class K1, class K2, class K3> static void one(no) {}
        template <class K1, class K2, class K3> static void one(yes)
        {
            std::string pat; pat += K1::c(); pat += K2::c(); pat += K3::c();
            add_case(W::name(), en3<E1, E2, E3>(), Op::nm(), pat, Op::kind, 3, Op::dom, elem<E1>::ec, elem<E2>::ec, elem<E3>::ec, elem<E1>::traced,
                     !(std::is_same<E1, E2>::value && std::is_same<E2, E3>::value), &ev3<W, Op, E1, K1, E2, K2, E3, K3>, &rf3<Op, E1, E2, E3>);
        }
        template <class K1, class K2> static void row2()
        {
#define X(K) one<K1, K2, K>(bc<((K1::opt || K2::opt || K::opt) && (K1::sets & K2::sets & K::sets & M) != 0)>());
            C04_KINDS(X)
#undef X
        }
        template <class K1> static void row1()
        {
#define X(K) row2<K1, K>();
            C04_KINDS(X)
#undef X
        }
        static void go()
        {
#define X(K) row1<K>();
            C04_KINDS(X)
#undef X
        }
    };

    template <class W, class Op, class E1, class E2, int M, int MODE = OPS_ALL>
    struct regc
    {
        template <class K1, class K2> static void one(no) {}
        template <class K1, class K2> static void one(yes)
        {
            std::string pat; pat += K1::c(); pat += K2::c();
            add_case(W::name(), en2<E1, E2>(), Op::nm(), pat, K_CMPD, 2, Op::dom, elem<E1>::ec, elem<E2>::ec, 0, elem<E1>::traced, !std::is_same<E1, E2>::value,
                     &ev_cmpd<W, Op, E1, K1, E2, K2>, &rf2<Op, E1, E2>);
        }
        template <class K1> static void row()
        {
#define X(K) one<K1, K>(bc<((K1::sets & K::sets & M) != 0)>());
            C04_KINDS(X)
#undef X
        }
        static void all(no) {}
        static void all(yes)
        {
#define X(K) row<K>();
            C04_TARGET_KINDS(X)
#undef X
        }
        static void go() { all(op_ok<Op, E1, E2, MODE>()); }
    };

    template <class E, int M>
    struct reg_value_or
    {
        template <class K1> static void one(no) {}
        template <class K1> static void one(yes)
        {
            std::string pat; pat += K1::c(); pat += 'P';
            add_case("xoptional", elem<E>::name(), "value_or", pat, K_VALUE_OR, 2, D_ANY, elem<E>::ec, elem<E>::ec, 0, false, false, &ev_value_or<E, K1, false>, nullptr);
            add_case("xoptional", elem<E>::name(), "value_or&&", pat, K_VALUE_OR, 2, D_ANY, elem<E>::ec, elem<E>::ec, 0, false, false, &ev_value_or<E, K1, true>, nullptr);
        }
        static void go()
        {
#define X(K) one<K>(bc<(K::opt != 0 && (K::sets & M) != 0)>());
            C04_KINDS(X)
#undef X
        }
    };

    template <class E1, class E2, int M>
    struct reg_select
    {
        template <class K0, class K1, class K2> static void one(no) {}
        template <class K0, class K1, class K2> static void one(yes)
        {
            std::string pat; pat += K0::c(); pat += K1::c(); pat += K2::c();
            add_case("xoptional", en2<E1, E2>(), "select", pat, K_SELECT, 3, D_ANY, EC_BOOL, elem<E1>::ec, elem<E2>::ec, false, !std::is_same<E1, E2>::value,
                     &ev_select<K0, E1, K1, E2, K2>, nullptr);
        }
        template <class K0, class K1> static void row2()
        {
#define X(K) one<K0, K1, K>(bc<((K0::opt || K1::opt || K::opt) && (K0::sets & K1::sets & K::sets & M) != 0)>());
            C04_KINDS(X)
#undef X
        }
        template <class K0> static void row1()
        {
#define X(K) row2<K0, K>();
            C04_KINDS(X)
#undef X
        }
        static void go()
        {
#define X(K) row1<K>();
            C04_KINDS(X)
#undef X
        }
    };

    template <class W, class Op, class E>
    struct rega
    {
        template <int MODE> static EvalFn pick(yes) { return &ev_cmpda<W, Op, E, MODE>; }
        template <int MODE> static EvalFn pick(no) { return &ev2a<W, Op, E, MODE>; }
        template <int MODE> static void one()
        {
            add_case(W::name(), elem<E>::name(), Op::nm(), amode_pat(MODE), Op::kind, 2, Op::dom, elem<E>::ec, elem<E>::ec, 0, elem<E>::traced, false,
                     pick<MODE>(bc<(Op::kind == K_CMPD)>()), &rf2<Op, E, E>);
            table().back().alias = MODE;
        }
        static void all(no) {}
        static void all(yes)
        {
            one<A_SAME_V>(); one<A_SAME_R>(); one<A_RR_SF>(); one<A_RR_DF>(); one<A_VR>(); one<A_RV>(); one<A_RC>();
        }
        static void go() { all(op_ok<Op, E, E, OPS_ALL>()); }
    };
    // every binary operator, ==/!= and compound assignment with operands that designate the same value
    template <class W, class E>
    void reg_alias()
    {
#define X(ID, TOK, DOM, INTONLY) rega<W, op_##ID, E>::go();
        C04_BINOPS(X)
        C04_CMPDOPS(X)
#undef X
#define X(ID, TOK, KIND) rega<W, op_##ID, E>::go();
        C04_EQOPS(X)
#undef X
    }

    // ---- families
    template <class W, class E1, class E2, int M, int MODE>
    void reg_binops()
    {
#define X(ID, TOK, DOM, INTONLY) reg2<W, op_##ID, E1, E2, M, MODE>::go();
        C04_BINOPS(X)
#undef X
    }
    template <class W, class E1, class E2, int M>
    void reg_eqops()
    {
#define X(ID, TOK, KIND) reg2<W, op_##ID, E1, E2, M>::go();
        C04_EQOPS(X)
#undef X
    }
    template <class W, class E, int M>
    void reg_unops()
    {
#define X(ID, TOK, DOM, INTONLY) reg1<W, op_##ID, E, M>::go();
        C04_UNOPS(X)
#undef X
    }
    template <class W, class E1, class E2, int M, int MODE>
    void reg_cmpdops()
    {
#define X(ID, TOK, DOM, INTONLY) regc<W, op_##ID, E1, E2, M, MODE>::go();
        C04_CMPDOPS(X)
#undef X
    }
    template <class W, class E>
    void reg_operators()
    {
        reg_binops<W, E, E, masks<E>::m2, OPS_ALL>();
        reg_eqops<W, E, E, masks<E>::m2>();
        reg_unops<W, E, masks<E>::m2>();
        reg_cmpdops<W, E, E, masks<E>::m2, OPS_ALL>();
    }
    template <class W, class E>
    void reg_fn1()
    {
#define X(NAME) reg1<W, fn_##NAME, E, masks<E>::m2>::go();
        C04_FN1(X)
#undef X
    }
    template <class W, class E1, class E2, int M>
    void reg_fn2()
    {
#define X(NAME) reg2<W, fn_##NAME, E1, E2, M>::go();
        C04_FN2(X)
#undef X
    }
    template <class W, class E1, class E2, class E3, int M>
    void reg_fn3()
    {
#define X(NAME) reg3<W, fn_##NAME, E1, E2, E3, M>::go();
        C04_FN3(X)
#undef X
    }
    // mixed element types in one call: int with double in both orders (arithmetic, logical, ordering, equality,
    // compound), int with long long in both orders (% & | ^ and their compound forms)
    template <class W>
    void reg_mixed_operators()
    {
        reg_binops<W, int, double, M_MIXED, OPS_ALL>();
        reg_binops<W, double, int, M_MIXED, OPS_ALL>();
        reg_eqops<W, int, double, M_MIXED>();
        reg_eqops<W, double, int, M_MIXED>();
        reg_cmpdops<W, int, double, M_MIXED, OPS_ALL>();
        reg_cmpdops<W, double, int, M_MIXED, OPS_ALL>();
        reg_binops<W, int, long long, M_MIXED, OPS_INTONLY>();
        reg_binops<W, long long, int, M_MIXED, OPS_INTONLY>();
        reg_cmpdops<W, int, long long, M_MIXED, OPS_INTONLY>();
        reg_cmpdops<W, long long, int, M_MIXED, OPS_INTONLY>();
    }
    template <class W>
    void reg_mixed_fn3()
    {
        typedef int I;
        typedef double D;
        reg_fn3<W, I, I, D, M_MIXED>();
        reg_fn3<W, I, D, I, M_MIXED>();
        reg_fn3<W, D, I, I, M_MIXED>();
        reg_fn3<W, I, D, D, M_MIXED>();
        reg_fn3<W, D, I, D, M_MIXED>();
        reg_fn3<W, D, D, I, M_MIXED>();
    }

    inline void build_table()
    {
        typedef Traced<int> TI;
        typedef Traced<double> TD;
#if C04_PART == 1
        reg_operators<WOpt, int>();
#elif C04_PART == 19
        reg_operators<WOpt, double>();
#elif C04_PART == 2
        reg_binops<WOpt, TI, TI, masks<TI>::m2, OPS_ALL>();
#elif C04_PART == 3
        reg_fn1<WOpt, double>();
        reg_fn2<WOpt, double, double, masks<double>::m2>();
        reg1<WOpt, fn_abs, int, masks<int>::m2>::go();
        reg_select<int, int, masks<int>::msel>::go();
#elif C04_PART == 4
        reg_fn1<WOpt, TD>();
        reg_fn2<WOpt, TD, TD, masks<TD>::m2>();
        reg_select<double, double, masks<double>::msel>::go();
#elif C04_PART == 5
        reg_fn3<WOpt, double, double, double, masks<double>::m3>();
        reg_fn3<WOpt, TD, TD, TD, masks<TD>::m3>();
#elif C04_PART == 6
        reg_operators<WMsk, int>();
#elif C04_PART == 20
        reg_operators<WMsk, double>();
#elif C04_PART == 7
        reg_binops<WMsk, TI, TI, masks<TI>::m2, OPS_ALL>();
#elif C04_PART == 8
        reg_fn1<WMsk, double>();
        reg_fn2<WMsk, double, double, masks<double>::m2>();
        reg1<WMsk, fn_abs, int, masks<int>::m2>::go();
#elif C04_PART == 9
        reg_fn1<WMsk, TD>();
        reg_fn2<WMsk, TD, TD, masks<TD>::m2>();
#elif C04_PART == 10
        reg_fn3<WMsk, double, double, double, masks<double>::m3>();
        reg_fn3<WMsk, TD, TD, TD, masks<TD>::m3>();
#elif C04_PART == 11
        reg_mixed_operators<WOpt>();
#elif C04_PART == 12
        reg_fn2<WOpt, int, double, M_MIXED>();
        reg_fn2<WOpt, double, int, M_MIXED>();
        reg_select<int, double, M_MIXED>::go();
        reg_select<double, int, M_MIXED>::go();
#elif C04_PART == 13
        reg_mixed_fn3<WOpt>();
#elif C04_PART == 14
        reg_mixed_operators<WMsk>();
#elif C04_PART == 15
        reg_fn2<WMsk, int, double, M_MIXED>();
        reg_fn2<WMsk, double, int, M_MIXED>();
#elif C04_PART == 16
        reg_mixed_fn3<WMsk>();
#elif C04_PART == 17
        reg_eqops<WOpt, TI, TI, masks<TI>::m2>();
        reg_unops<WOpt, TI, masks<TI>::m2>();
        reg_cmpdops<WOpt, TI, TI, masks<TI>::m2, OPS_ALL>();
        reg_value_or<int, masks<int>::msel>::go();
        reg_value_or<double, masks<double>::msel>::go();
#elif C04_PART == 21
        reg_alias<WOpt, double>();
        reg_alias<WOpt, TI>();
#if C04_FLAGS >= 2   // thorough: also on builtin int (forked trap oracle); quick relies on Traced<int> for the integer semantics
        reg_alias<WOpt, int>();
#endif
#elif C04_PART == 22
        reg_alias<WMsk, double>();
        reg_alias<WMsk, TI>();
#if C04_FLAGS >= 2
        reg_alias<WMsk, int>();
#endif
#elif C04_PART == 18
        reg_eqops<WMsk, TI, TI, masks<TI>::m2>();
        reg_unops<WMsk, TI, masks<TI>::m2>();
        reg_cmpdops<WMsk, TI, TI, masks<TI>::m2, OPS_ALL>();
#else
#error "unknown C04_PART"
#endif
    }

    // ------------------------------------------------------------------ driver
    // value alphabets: same-type int / double, and the mixed-type ones (chosen so that a narrowing is visible)
    static std::vector<double> g_ai, g_ad, g_mi, g_md, g_ml;
    static bool g_replay = false;
    static long long g_eval = 0, g_nontrivial = 0, g_allpresent = 0, g_skipped = 0, g_forked = 0, g_noneval_judged = 0,
                     g_eq_on_missing = 0, g_traced_seen = 0, g_intflag = 0, g_intflag_truthy_not1 = 0, g_mixed = 0, g_mixed_fractional = 0, g_alias = 0, g_alias_selfunequal = 0;

    static void alphabets(bool thorough)
    {
        const double qi[] = {0, 1, -1, 2, 7, double(INT_MAX), double(INT_MIN)};
        const double ti[] = {-2, 3, -7, 255, double(INT_MAX - 1), double(INT_MIN + 1)};
        const double qd[] = {0.0, -0.0, 1.0, -2.5, DBL_MAX, HUGE_VAL, std::nan("")};
        const double td[] = {-1.0, 0.5, 2.0, -HUGE_VAL, DBL_MIN, 4.9406564584124654e-324};
        const double qmi[] = {0, 2, -3, 7, double(INT_MAX)};
        const double tmi[] = {1, -1, double(INT_MIN)};
        const double qmd[] = {0.5, 2.5, -2.5, 1e10, -0.0};
        const double tmd[] = {3.0, 1e300, HUGE_VAL, std::nan("")};
        const double qml[] = {0, 3, -5, 1099511627777.0 /* 2^40+1 */, -1099511627776.0};
        const double tml[] = {-1, 255, 4611686018427387904.0 /* 2^62 */};
        g_ai.assign(qi, qi + 7);
        g_ad.assign(qd, qd + 7);
        g_mi.assign(qmi, qmi + 5);
        g_md.assign(qmd, qmd + 5);
        g_ml.assign(qml, qml + 5);
        if (thorough)
        {
            g_ai.insert(g_ai.end(), ti, ti + 6);
            g_ad.insert(g_ad.end(), td, td + 6);
            g_mi.insert(g_mi.end(), tmi, tmi + 3);
            g_md.insert(g_md.end(), tmd, tmd + 4);
            g_ml.insert(g_ml.end(), tml, tml + 3);
        }
    }

    static const std::vector<double>& alpha(const Case& c, int i)
    {
        static const std::vector<double> cond = {0.0, 1.0};
        switch (c.ec[i])
        {
        case EC_BOOL: return cond;
        case EC_INT: return c.mixed ? g_mi : g_ai;
        case EC_LL: return g_ml;
        default: return c.mixed ? g_md : g_ad;
        }
    }

    static std::string dstr(double d, bool is_int)
    {
        char b[64];
        if (is_int) std::snprintf(b, sizeof b, "%.0f", d);
        else std::snprintf(b, sizeof b, "%.17g", d);
        return b;
    }
    static std::string hexd(double d)
    {
        char b[64];
        if (std::isnan(d)) return std::signbit(d) ? "-nan" : "nan";
        std::snprintf(b, sizeof b, "%a", d);
        return b;
    }

    // is the underlying builtin operation defined for these values? (IEEE double arithmetic is total)
    static bool defined(const Case& c, const double* v)
    {
        bool anyd = false;
        for (int i = 0; i < c.arity; ++i) anyd = anyd || c.ec[i] == EC_DBL;
        if (c.kind == K_CMPD && c.ec[0] != EC_DBL && anyd)
        {
            // integer target, double right-hand side: computed in double, converted back to int
            double a = v[0], b = v[1], r;
            switch (c.dom)
            {
            case D_ADD: r = a + b; break;
            case D_SUB: r = a - b; break;
            case D_MUL: r = a * b; break;
            case D_DIV: r = a / b; break;
            default: return true;
            }
            return std::isfinite(r) && r > -2147483649.0 && r < 2147483648.0;
        }
        if (anyd) return true;
        if (c.kind == K_SELECT || c.kind == K_VALUE_OR) return true;
        long long a = (long long)v[0], b = c.arity > 1 ? (long long)v[1] : 0, r;
        switch (c.dom)
        {
        case D_ADD: r = a + b; break;
        case D_SUB: r = a - b; break;
        case D_MUL: r = a * b; break;
        case D_DIV: return b != 0 && !(a == INT_MIN && b == -1);
        case D_NEG: r = -a; break;
        default: return true;
        }
        return r >= INT_MIN && r <= INT_MAX;
    }

    static Outcome execute(const Case& c, const double* v, const int* p, bool forked)
    {
        Outcome o;
        std::memset(&o, 0, sizeof o);
        o.self = 1;
        if (!forked)
        {
            c.eval(v, p, o);
            o.asan = vf::take_asan() ? 1 : 0;
            return o;
        }
        int fd[2];
        if (pipe(fd) != 0) { std::perror("pipe"); std::exit(3); }
        std::fflush(stdout);
        std::fflush(stderr);
        pid_t pid = fork();
        if (pid < 0) { std::perror("fork"); std::exit(3); }
        if (pid == 0)
        {
            close(fd[0]);
            c.eval(v, p, o);
            o.asan = vf::take_asan() ? 1 : 0;
            ssize_t w = write(fd[1], &o, sizeof o);
            _exit(w == (ssize_t)sizeof o ? 0 : 4);
        }
        close(fd[1]);
        Outcome r;
        std::memset(&r, 0, sizeof r);
        ssize_t n = read(fd[0], &r, sizeof r);
        close(fd[0]);
        int st = 0;
        waitpid(pid, &st, 0);
        ++g_forked;
        if (WIFSIGNALED(st)) { o.sig = WTERMSIG(st); return o; }
        if (n != (ssize_t)sizeof r || !WIFEXITED(st) || WEXITSTATUS(st) != 0) { o.sig = -1; return o; }
        return r;
    }

    static bool tri(char k) { return k == 'I' || k == 'J'; }

    static std::string describe(const Case& c, const double* v, const int* p)
    {
        std::string s = c.wrapper + "<" + c.elem + "> " + c.op + " operands[";
        for (int i = 0; i < c.arity; ++i)
        {
            if (i) s += ", ";
            char k = c.pat[i];
            if (k == 'P') s += "plain ";
            else
            {
                s += (k == 'V' || k == 'I') ? "value-closure " : k == 'C' ? "const-ref-closure " : "ref-closure ";
                if (tri(k)) s += "int-flag=" + vf::str(p[i]) + (p[i] ? " present " : " MISSING ");
                else s += p[i] ? "present " : "MISSING ";
            }
            s += dstr(v[i], c.ec[i] != EC_DBL);
        }
        s += "]";
        if (c.alias) s += std::string(" [aliasing: ") + amode_name(c.alias) + "]";
        return s;
    }

    static void report(const Case& c, const double* v, const int* p, const char* what, const std::string& detail)
    {
        std::string pos, pr, pb;
        for (int i = 0; i < c.arity; ++i)
        {
            pos += c.pat[i] == 'P' ? 'P' : (tri(c.pat[i]) ? 'N' : 'O');
            pr += c.pat[i] == 'P' ? 'p' : char('0' + p[i]);
            pb += char('0' + p[i]);
        }
        if (c.alias) pos += std::string("/alias=") + amode_name(c.alias);
        std::string sig = "C04/" + c.wrapper + "<" + c.elem + ">/" + c.op + "/" + pos + "/pres=" + pr + "/" + what;
        std::vector<std::string> rp;
        rp.push_back("--one");
        rp.push_back(c.name());
        rp.push_back(pb);
        for (int i = 0; i < c.arity; ++i) rp.push_back(hexd(v[i]));
        vf::violation(sig, describe(c, v, p) + ": " + detail, rp);
    }

    static std::string resstr(const Case& c, const Outcome& o)
    {
        if (c.kind == K_EQ || c.kind == K_NE) return o.val != 0 ? "true" : "false";
        if (!o.present) return "missing";
        return "present " + dstr(o.val, false);
    }

    static void run_one(const Case& c, const double* v, const int* p, int verbose)
    {
        // an operand is present when its flag converts to true (p is the flag value: 0/1 for bool flags, 0/1/2 for int flags)
        bool all_present = true;
        for (int i = 0; i < c.arity; ++i) all_present = all_present && p[i] != 0;
        const bool def = defined(c, v);
        // the underlying builtin operation is undefined for these values: only run the case when the property
        // says the operation must not be evaluated at all (some operand missing and not a unary operator)
        if (!def && (all_present || c.kind == K_UNOP)) { ++g_skipped; return; }
        const bool forked = g_replay || (!def && !c.traced);
        Outcome o = execute(c, v, p, forked);
        ++g_eval;
        if (all_present) ++g_allpresent; else ++g_nontrivial;
        bool has_tri = false, truthy2 = false, frac = false;
        for (int i = 0; i < c.arity; ++i)
        {
            if (tri(c.pat[i])) { has_tri = true; if (p[i] > 1) truthy2 = true; }
            if (c.ec[i] == EC_DBL && std::isfinite(v[i]) && v[i] != std::floor(v[i])) frac = true;
        }
        if (has_tri) ++g_intflag;
        if (truthy2) ++g_intflag_truthy_not1;
        if (c.mixed) { ++g_mixed; if (frac && all_present) ++g_mixed_fractional; }
        if (c.alias) { ++g_alias; if (all_present && std::isnan(v[0])) ++g_alias_selfunequal; }

        if (o.sig != 0)
        {
            report(c, v, p, "trap", std::string("the call died with signal ") + vf::str(o.sig) + " (" + (o.sig > 0 ? strsignal(o.sig) : "child failed") +
                                        "); expected a missing result without evaluating the operation");
            return;
        }
        switch (c.kind)
        {
        case K_BINOP: case K_UNOP: case K_FN1: case K_FN2: case K_FN3:
        {
            if ((o.present != 0) != all_present)
                report(c, v, p, "presence-wrong", std::string("result is ") + resstr(c, o) + ", expected " + (all_present ? "present" : "missing"));
            else if (all_present)
            {
                double e = c.ref(v);
                if (!same_d(o.val, e))
                    report(c, v, p, "value-wrong", "result value " + dstr(o.val, false) + ", the same operation on the underlying values gives " + dstr(e, false));
                if (c.traced && o.calls >= 1) ++g_traced_seen;
            }
            if (!all_present && c.kind != K_UNOP && c.traced)
            {
                ++g_noneval_judged;
                if (o.calls != 0)
                    report(c, v, p, "evaluated-on-missing", "the underlying operation was evaluated " + vf::str(o.calls) + " time(s) although an operand is missing" +
                                                                (o.would_trap ? " (on builtin int this division traps)" : ""));
            }
            break;
        }
        case K_EQ: case K_NE:
        {
            int nopt = 0, nmiss = 0;
            for (int i = 0; i < 2; ++i) if (c.pat[i] != 'P') { ++nopt; if (!p[i]) ++nmiss; }
            bool eq;
            if (nmiss == 0) eq = c.ref(v) != 0;
            else eq = (nopt == 2 && nmiss == 2);
            bool e = (c.kind == K_EQ) ? eq : !eq;
            if ((o.val != 0) != e)
                report(c, v, p, "result-wrong", std::string("returned ") + resstr(c, o) + ", expected " + (e ? "true" : "false"));
            if (nmiss && o.eq_calls) ++g_eq_on_missing;
            break;
        }
        case K_CMPD:
        {
            bool after = p[0] != 0 && p[1] != 0;
            if ((o.present != 0) != after)
                report(c, v, p, "flag-wrong", std::string("target is ") + (o.present ? "present" : "missing") + " afterwards, expected " + (after ? "present" : "missing"));
            else if (after)
            {
                double e = c.ref(v);
                if (!same_d(o.val, e))
                    report(c, v, p, "value-wrong", "target value " + dstr(o.val, false) + " afterwards, the same operation on the underlying values gives " + dstr(e, false));
                if (c.traced && o.calls >= 1) ++g_traced_seen;
            }
            if (!after)
            {
                double before = canon(v[0], c.ec[0]);
                if (!same_d(o.val, before))
                    report(c, v, p, "target-altered", "target value changed from " + dstr(before, false) + " to " + dstr(o.val, false) + " although the result is missing");
                if (c.traced)
                {
                    ++g_noneval_judged;
                    if (o.calls != 0)
                        report(c, v, p, "evaluated-on-missing", "the underlying operation was evaluated " + vf::str(o.calls) + " time(s) although an operand is missing" +
                                                                    (o.would_trap ? " (on builtin int this division traps)" : ""));
                }
            }
            if (!o.self) report(c, v, p, "return-not-self", "compound assignment did not return its target");
            break;
        }
        case K_VALUE_OR:
        {
            double e = canon(p[0] ? v[0] : v[1], c.ec[0]);
            if (!same_d(o.val, e))
                report(c, v, p, "value-wrong", "returned " + dstr(o.val, false) + ", expected " + dstr(e, false) + (p[0] ? " (the value)" : " (the default)"));
            break;
        }
        case K_SELECT:
        {
            bool ep;
            double e = 0;
            if (!p[0]) ep = false;
            else
            {
                int k = v[0] != 0 ? 1 : 2;
                ep = p[k] != 0;
                e = canon(v[k], c.ec[k]);
            }
            if ((o.present != 0) != ep)
                report(c, v, p, "presence-wrong", std::string("result is ") + resstr(c, o) + ", expected " + (ep ? "present" : "missing") +
                                                      (!p[0] ? " (condition missing)" : " (the chosen branch, unchanged)"));
            else if (ep && !same_d(o.val, e))
                report(c, v, p, "value-wrong", "result value " + dstr(o.val, false) + ", the chosen branch holds " + dstr(e, false));
            break;
        }
        }
        if (!o.intact) report(c, v, p, "operand-modified", "an operand (or the lvalues it refers to) was modified by the call");
        if (o.asan) report(c, v, p, "asan", "AddressSanitizer reported an error during this call");
        if (verbose)
            std::printf("%s -> %s calls=%ld eq_calls=%ld would_trap=%ld intact=%d self=%d\n", describe(c, v, p).c_str(), resstr(c, o).c_str(), o.calls,
                        o.eq_calls, o.would_trap, o.intact, o.self);
        else
        {
            // a few actual cases for the evidence file
            static bool s_missing = false, s_present = false, s_forked = false, s_other = false, s_flag = false, s_mixed = false, s_alias = false;
            bool* slot = nullptr;
            if (c.alias) { if (all_present && std::isnan(v[0]) && (c.kind == K_EQ || c.kind == K_NE)) slot = &s_alias; }
            else if (truthy2 && !all_present) { if ((g_eval % 37) == 11) slot = &s_flag; }
            else if (c.mixed && frac && all_present) { if ((g_eval % 29) == 3) slot = &s_mixed; }
            else if (forked) slot = &s_forked;
            else if (c.kind == K_CMPD || c.kind == K_SELECT || c.kind == K_EQ) { if (!all_present && (g_eval % 53) == 7) slot = &s_other; }
            else if (!all_present) { if ((g_eval % 101) == 5) slot = &s_missing; }
            else if ((g_eval % 211) == 3) slot = &s_present;
            if (slot && !*slot)
            {
                *slot = true;
                vf::sample(describe(c, v, p) + " -> " + resstr(c, o) + (c.traced ? ", traced evaluations=" + vf::str(o.calls) : "") + (forked ? " [forked child]" : ""), 6);
            }
        }
    }

    static void run_case(const Case& c)
    {
        const std::vector<double>* al[3] = {&alpha(c, 0), &alpha(c, c.arity > 1 ? 1 : 0), &alpha(c, c.arity > 2 ? 2 : 0)};
        int nopt = 0, optpos[3], radix[3];
        long combos = 1;
        for (int i = 0; i < c.arity; ++i)
            if (c.pat[i] != 'P') { optpos[nopt] = i; radix[nopt] = tri(c.pat[i]) ? 3 : 2; combos *= radix[nopt]; ++nopt; }
        double v[3] = {0, 0, 0};
        int p[3] = {1, 1, 1};
        size_t n0 = al[0]->size(), n1 = c.arity > 1 ? al[1]->size() : 1, n2 = c.arity > 2 ? al[2]->size() : 1;
        if (c.alias)
        {
            n1 = 1;   // both operands designate the same value
            if (amode_tied_flag(c.alias)) { nopt = 1; combos = 2; }   // ... and the same flag
        }
        for (long m = 0; m < combos; ++m)
        {
            for (int i = 0; i < 3; ++i) p[i] = 1;
            long r = m;
            for (int j = 0; j < nopt; ++j) { p[optpos[j]] = int(r % radix[j]); r /= radix[j]; }
            if (c.alias && amode_tied_flag(c.alias)) p[1] = p[0];
            for (size_t i0 = 0; i0 < n0; ++i0)
                for (size_t i1 = 0; i1 < n1; ++i1)
                    for (size_t i2 = 0; i2 < n2; ++i2)
                    {
                        v[0] = (*al[0])[i0];
                        if (c.arity > 1) v[1] = c.alias ? v[0] : (*al[1])[i1];
                        if (c.arity > 2) v[2] = (*al[2])[i2];
                        run_one(c, v, p, 0);
                    }
        }
        vf::stat("overload_instances", 1);
        if (c.mixed) vf::stat("overload_instances_mixed_element_types", 1);
        if (c.alias) vf::stat("overload_instances_aliased_operands", 1);
        bool t = false;
        for (int i = 0; i < c.arity; ++i) t = t || tri(c.pat[i]);
        if (t) vf::stat("overload_instances_with_int_flags", 1);
    }
}

int main(int argc, char** argv)
{
    using namespace c04;
    int shard = 0, nshard = 1;
    bool thorough = false, list = false;
    double deadline = 0;
    const char* one = nullptr;
    const char* ob = nullptr;
    const char* ov[3] = {"0", "0", "0"};
    for (int i = 1; i < argc; ++i)
    {
        std::string s = argv[i];
        if (s == "--shard" && i + 2 < argc) { shard = atoi(argv[i + 1]); nshard = atoi(argv[i + 2]); i += 2; }
        else if (s == "--tier" && i + 1 < argc) { thorough = std::string(argv[++i]) == "thorough"; }
        else if (s == "--deadline" && i + 1 < argc) { deadline = atof(argv[++i]); }
        else if (s == "--list") list = true;
        else if (s == "--one" && i + 2 < argc)
        {
            one = argv[i + 1];
            ob = argv[i + 2];
            i += 2;
            for (int k = 0; k < 3 && i + 1 < argc && std::strncmp(argv[i + 1], "--", 2) != 0; ++k) ov[k] = argv[++i];
        }
    }
    alphabets(thorough);
    build_table();
    std::vector<Case>& t = table();
    if (list)
    {
        for (size_t i = 0; i < t.size(); ++i) std::printf("%s\n", t[i].name().c_str());
        return 0;
    }
    if (one)
    {
        g_replay = true;
        bool found = false;
        for (size_t i = 0; i < t.size(); ++i)
        {
            if (t[i].name() != one) continue;
            found = true;
            double v[3];
            int p[3] = {1, 1, 1};
            for (int k = 0; k < 3; ++k) v[k] = strtod(ov[k], nullptr);
            for (int k = 0; k < t[i].arity && ob[k]; ++k) p[k] = t[i].pat[k] == 'P' ? 1 : ob[k] - '0';
            run_one(t[i], v, p, 1);
        }
        if (!found) { std::printf("no such case in this part: %s\n", one); return 5; }
        vf::done();
        return 0;
    }
    time_t t0 = time(nullptr);
    size_t done_cases = 0;
    for (size_t i = 0; i < t.size(); ++i)
    {
        if (int(i % size_t(nshard)) != shard) continue;
        if (deadline > 0 && difftime(time(nullptr), t0) > deadline)
        {
            vf::cap("deadline reached in part " + vf::str(C04_PART) + " shard " + vf::str(shard) + "/" + vf::str(nshard) + " after " + vf::str(done_cases) +
                    " overload instances; the rest of the table was not enumerated");
            break;
        }
        run_case(t[i]);
        ++done_cases;
    }
    vf::stat("evaluations", g_eval);
    vf::stat("distinct_nontrivial", g_nontrivial);
    vf::stat("cases_all_present", g_allpresent);
    vf::stat("cases_some_operand_missing", g_nontrivial);
    vf::stat("cases_with_int_flag_operand", g_intflag);
    vf::stat("cases_with_truthy_int_flag_other_than_1", g_intflag_truthy_not1);
    vf::stat("cases_mixed_element_types", g_mixed);
    vf::stat("cases_mixed_all_present_with_fractional_operand", g_mixed_fractional);
    vf::stat("cases_aliased_operands", g_alias);
    vf::stat("cases_aliased_operands_all_present_nan", g_alias_selfunequal);
    vf::stat("skipped_underlying_operation_undefined", g_skipped);
    vf::stat("forked_cases", g_forked);
    vf::stat("non_evaluation_judged", g_noneval_judged);
    vf::stat("traced_present_cases_with_evaluation_seen", g_traced_seen);
    vf::stat("eq_underlying_compared_with_missing_operand_observed", g_eq_on_missing);
    vf::done();
    return 0;
}
