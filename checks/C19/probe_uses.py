#!/usr/bin/env python3
"""Probe tool for the use corpus of C19 unit U6 (uses.py).

    python3 checks/C19/probe_uses.py [header ...] [--probes] [--quick]

Builds and runs every batch of uses (with --probes: the capability probes instead) in all 12 configurations (--quick: the
6-row covering array) against XTL_VERIF_REPO (default /repo) and prints every use whose verdict is not 'ok' everywhere,
then what judge_uses would report.  This is how the 'probes' sets of uses.py were decided on the unchanged tree.  It writes
no evidence.
"""
import os
import sys
import time

sys.path.insert(0, os.path.join(os.path.dirname(os.path.dirname(os.path.dirname(os.path.abspath(__file__)))), "engine"))
sys.path.insert(0, os.path.dirname(os.path.abspath(__file__)))
import shutil

import vlib
import check
import uses as U


def main():
    hdrs = [a for a in sys.argv[1:] if not a.startswith("--")]
    ctx = vlib.Ctx("C19", "thorough", "exploration", 0)
    ctx.deadline = time.time() + 7200
    bud = check.Budget(ctx)
    bud.soft = time.time() + 7200
    jsondir = check.setup_ext(ctx)
    headers = [h for h in check.list_headers() if check.header_available(h, jsondir)]
    batches, probes = U.corpus()
    sel = probes if "--probes" in sys.argv else batches
    if hdrs:
        sel = [b for b in sel if b["header"] in hdrs]
    cfgs = check.COVERING6 if "--quick" in sys.argv else check.ALL_CFGS
    t = time.time()
    res = check.run_uses(ctx, bud, sel, cfgs, headers)
    print("%d programs (batch x configuration), %d uses, %.1f s, stats %s" % (len(res), sum(len(b["uses"]) for b in sel), time.time() - t, ctx.stats))
    for b in sel:
        for i, u in enumerate(b["uses"]):
            vs = [(c, res[(b["name"], c)][i]) for c in cfgs if (b["name"], c) in res and i in res[(b["name"], c)]]
            cls = set(check._vclass(v) for _, v in vs)
            if cls and (len(cls) > 1 or list(cls)[0][0] != "ok"):
                print("%-10s %s | %s | %s" % ("MIXED" if len(cls) > 1 else list(cls)[0][0].upper(), u["id"][0], u["id"][1], u["id"][2]))
                for c, v in vs:
                    print("      %-28s %s %s" % (check.cfg_slug(c), v[0], str(v[1])[:260]))
    if "--write-rejected" in sys.argv:
        import json
        rej = sorted(U.REJECTED_EVERYWHERE | set(u["id"] for b in sel for i, u in enumerate(b["uses"])
                                               if len(cfgs) == 12 and all((b["name"], c) in res and res[(b["name"], c)].get(i, ("?",))[0] == "rejected" for c in cfgs)))
        json.dump([list(x) for x in rej], open(os.path.join(os.path.dirname(os.path.abspath(__file__)), "uses_rejected.json"), "w"), indent=0)
        print("uses_rejected.json: %d cells" % len(rej))
    check.judge_uses(ctx, sel, res, probes="--probes" in sys.argv)
    for v in ctx.viols:
        print("VIOLATION", v["sig"], "\n   ", v["msg"][:900])
    print("%d violations; stats %s" % (len(ctx.viols), ctx.stats))
    shutil.rmtree(check.GENDIR, ignore_errors=True)


if __name__ == "__main__":
    main()
