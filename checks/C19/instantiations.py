"""C19 instantiation table (unit U5): what is instantiated per header, and HOW.

For every public header: the class templates it defines with 1-3 representative argument sets, and the function /
member / constructor templates, which an explicit instantiation of the class does not reach.

  mode "explicit"  `template class X<args>;` -- an explicit instantiation DEFINITION instantiates every non-template
                   member function, static data member and nested class of the specialisation, called or not.
                   Decided by probe (probe.py) on the unchanged tree: well-formed in all 12 configurations.
  mode "calls"     a non-inline function that calls things once.  Used (a) for what explicit instantiation never
                   reaches: constructor templates, member function templates, free function templates, operators,
                   friends; (b) as the fallback for a class whose explicit instantiation is ill-formed ON THE UNCHANGED
                   TREE because some members are only valid for some arguments -- then 'why' says which member, and
                   'explicit_probe' keeps the explicit form so that the thorough tier notices when it becomes
                   well-formed (a note, and the entry can be upgraded).

THE MODE COLUMN IS THE COMMITTED DECISION.  An entry that does not build is a violation
  C19/<header>:<id>/<member the compiler was instantiating>/instantiation-ill-formed@<configuration class>
and never a skipped case: a class that could be explicitly instantiated when this table was written and cannot today
is reported.  Entries are built -O0 with real code generation and LINKED (a missing out-of-class definition of an
odr-used static member only shows at link time, and in C++14 only at -O0).  Nothing is executed.

Every function here has external linkage on purpose (an unused inline function would not be emitted).
'post' = standard headers the ARGUMENTS need (std::map for xkey_iterator<std::map<..>> ...), included AFTER the header
under test; 'also' = other xtl headers a user of this header necessarily includes (xjson.hpp only forward-declares).
"""
import collections

INST = collections.OrderedDict()


def H(header, entries, post=(), prelude="", also=()):
    INST[header] = {"entries": entries, "post": list(post), "prelude": prelude, "also": list(also)}


def X(id, code, **kw):
    d = {"id": id, "mode": "explicit", "code": code}
    d.update(kw)
    return d


def C(id, code, **kw):
    d = {"id": id, "mode": "calls", "code": code}
    d.update(kw)
    return d


# ------------------------------------------------------------------------------------------------------------------
H("xany.hpp", post=["string", "utility"], prelude="struct c19_big { double d[8]; };", entries=[
    C("any/constructors-and-assignment", """
void c19_any_ctors()
{
    xtl::any a;                       // default
    xtl::any b(3);                    // small, in place
    xtl::any c(c19_big{});            // large, allocated
    xtl::any s(std::string("x"));     // non-trivial
    const int ci = 4;
    xtl::any d(ci);                   // const lvalue
    xtl::any e(b);                    // copy
    xtl::any f(std::move(c));         // move
    a = b; a = std::move(e); a = 5; a = c19_big{}; a = std::string("y"); a = ci;
    a.swap(f); std::swap(a, f);
    a.reset(); f.clear();
    (void) a.empty(); (void) a.has_value(); (void) (d.type() == typeid(int));
    (void) s;
}"""),
    C("any/any_cast-all-forms", """
int c19_any_casts()
{
    xtl::any a(3);
    const xtl::any ca(4);
    int r = xtl::any_cast<int>(a) + xtl::any_cast<int>(ca) + xtl::any_cast<int&>(a) + xtl::any_cast<const int&>(ca) + xtl::any_cast<int>(xtl::any(5));
    int* p = xtl::any_cast<int>(&a);
    const int* cp = xtl::any_cast<int>(&ca);
    xtl::any big(c19_big{});
    c19_big g = xtl::any_cast<c19_big>(std::move(big));
    std::string st = xtl::any_cast<std::string>(xtl::any(std::string("z")));
    return r + *p + *cp + int(g.d[0]) + int(st.size());
}"""),
])

H("xbase64.hpp", entries=[
    C("base64/encode-decode", "unsigned long c19_b64() { return xtl::base64encode(\"ab\").size() + xtl::base64decode(\"YWI=\").size(); }"),
])

_FS_CALLS = """
void c19_fs_calls_%(n)s()
{
    typedef %(t)s S;
    std::string std_s("hello");
    const char* cs = "world";
    const std::size_t z = 0, o = 1, t = 2;
    S a, b(3, 'x'), c(cs), d(cs, 2), e(std_s), f(std_s, 1, 2), g(c), h(c, 1), i(c, 1, 2), j(std::move(g)), k({'a', 'b'});
    S l(std_s.begin(), std_s.end());
    a = b; a = std::move(j); a = cs; a = 'q'; a = {'x', 'y'}; a = std_s;
    a.assign(t, 'z'); a.assign(b); a.assign(b, o, o); a.assign(std::move(h)); a.assign(cs, t); a.assign(cs); a.assign(std_s.begin(), std_s.end());
    a.assign({'p', 'q'}); a.assign(std_s); a.assign(std_s, o, t);
    a.insert(z, o, 'c'); a.insert(z, cs); a.insert(z, cs, o); a.insert(z, b); a.insert(z, b, z, o); a.insert(z, std_s); a.insert(z, std_s, z, o);
    a.insert(a.cbegin(), 'c'); a.insert(a.cbegin(), o, 'c'); a.insert(a.cbegin(), {'i'}); a.insert(a.cbegin(), std_s.begin(), std_s.begin() + o);
    a.erase(z, o); a.erase(a.cbegin()); a.erase(a.cbegin(), a.cbegin() + o);
    a.clear(); a.push_back('x'); a.pop_back();
    a.append(o, 'c'); a.append(b); a.append(b, z, o); a.append(cs, o); a.append(cs); a.append(std_s); a.append(std_s, z, o); a.append({'k'}); a.append(std_s.begin(), std_s.begin() + o);
    a += b; a += 'c'; a += cs; a += {'k'}; a += std_s;
    (void) a.compare(b); (void) a.compare(z, o, b); (void) a.compare(z, o, b, z, o); (void) a.compare(cs); (void) a.compare(z, o, cs); (void) a.compare(z, o, cs, o);
    (void) a.compare(std_s); (void) a.compare(z, o, std_s); (void) a.compare(z, o, std_s, z, o);
    a.replace(z, o, b); a.replace(a.cbegin(), a.cbegin() + o, b); a.replace(z, o, b, z, o); a.replace(z, o, cs, o); a.replace(a.cbegin(), a.cbegin() + o, cs, o);
    a.replace(z, o, cs); a.replace(a.cbegin(), a.cbegin() + o, cs); a.replace(z, o, o, 'r'); a.replace(a.cbegin(), a.cbegin() + o, o, 'r');
    a.replace(a.cbegin(), a.cbegin() + o, {'l'}); a.replace(a.cbegin(), a.cbegin() + o, std_s.begin(), std_s.begin() + o);
    a.replace(z, o, std_s); a.replace(a.cbegin(), a.cbegin() + o, std_s); a.replace(z, o, std_s, z, o);
    (void) a.substr(z, o); char buf[4]; (void) a.copy(buf, o, z); a.resize(t); a.resize(3, 'r'); a.swap(b);
    (void) a.find(b); (void) a.find(cs, z, o); (void) a.find(cs); (void) a.find('c'); (void) a.find(std_s);
    (void) a.rfind(b); (void) a.rfind(cs, z, o); (void) a.rfind(cs); (void) a.rfind('c'); (void) a.rfind(std_s);
    (void) a.find_first_of(b); (void) a.find_first_of(cs, z, o); (void) a.find_first_of(cs); (void) a.find_first_of('c'); (void) a.find_first_of(std_s);
    (void) a.find_first_not_of(b); (void) a.find_first_not_of(cs, z, o); (void) a.find_first_not_of(cs); (void) a.find_first_not_of('c'); (void) a.find_first_not_of(std_s);
    (void) a.find_last_of(b); (void) a.find_last_of(cs, z, o); (void) a.find_last_of(cs); (void) a.find_last_of('c'); (void) a.find_last_of(std_s);
    (void) a.find_last_not_of(b); (void) a.find_last_not_of(cs, z, o); (void) a.find_last_not_of(cs); (void) a.find_last_not_of('c'); (void) a.find_last_not_of(std_s);
    (void) (a == b); (void) (a != b); (void) (a < b); (void) (a <= b); (void) (a > b); (void) (a >= b);
    (void) (a == cs); (void) (cs == a); (void) (a != cs); (void) (cs != a); (void) (a < cs); (void) (cs < a); (void) (a <= cs); (void) (cs <= a); (void) (a > cs); (void) (cs > a); (void) (a >= cs); (void) (cs >= a);
    (void) (a == std_s); (void) (std_s == a); (void) (a != std_s); (void) (std_s != a); (void) (a < std_s); (void) (std_s < a);
    (void) (a + b); (void) (a + cs); (void) (cs + a); (void) (a + 'c'); (void) ('c' + a);
    std::ostringstream os; os << a; std::istringstream is("tok"); is >> a; std::istringstream is2("line"); getline(is2, a); std::istringstream is3("l;x"); getline(is3, a, ';');
    swap(a, b);
    (void) std::hash<S>()(a);
    (void) c; (void) d; (void) e; (void) f; (void) i; (void) k; (void) l;
}"""

H("xbasic_fixed_string.hpp", post=["string", "sstream", "functional"], entries=[
    X("xbasic_fixed_string<char,16,buffer|store_size>(packed-size)", "template class xtl::xbasic_fixed_string<char, 16, xtl::buffer | xtl::store_size, xtl::string_policy::silent_error>;"),
    X("xbasic_fixed_string<char,300,buffer|store_size,throwing>(size-field)", "template class xtl::xbasic_fixed_string<char, 300, xtl::buffer | xtl::store_size, xtl::string_policy::throwing_error>;"),
    X("xbasic_fixed_string<char,16,buffer>(strlen)", "template class xtl::xbasic_fixed_string<char, 16, xtl::buffer, xtl::string_policy::throwing_error>;"),
    X("string_policy::silent_error<16>", "template struct xtl::string_policy::silent_error<16>;"),
    X("string_policy::throwing_error<16>", "template struct xtl::string_policy::throwing_error<16>;"),
    C("xbasic_fixed_string(packed-size)/member-templates-and-operators", _FS_CALLS % {"n": "packed", "t": "xtl::xbasic_fixed_string<char, 16, xtl::buffer | xtl::store_size, xtl::string_policy::silent_error>"}),
    C("xbasic_fixed_string(size-field)/member-templates-and-operators", _FS_CALLS % {"n": "sized", "t": "xtl::xbasic_fixed_string<char, 300, xtl::buffer | xtl::store_size, xtl::string_policy::throwing_error>"}),
    C("xbasic_fixed_string(strlen)/member-templates-and-operators", _FS_CALLS % {"n": "strlen", "t": "xtl::xbasic_fixed_string<char, 16, xtl::buffer, xtl::string_policy::throwing_error>"}),
])

H("xclosure.hpp", post=["utility"], entries=[
    X("closure_type<int&>", "template struct xtl::closure_type<int&>;\ntemplate struct xtl::closure_type<int>;\ntemplate struct xtl::const_closure_type<int&>;\ntemplate struct xtl::const_closure_type<int>;"),
    X("ptr_closure_type<int&>", "template struct xtl::ptr_closure_type<int&>;\ntemplate struct xtl::ptr_closure_type<int*>;\ntemplate struct xtl::const_ptr_closure_type<int&>;\ntemplate struct xtl::const_ptr_closure_type<int*>;"),
    X("xclosure_wrapper<int&>", "template class xtl::xclosure_wrapper<int&>;"),
    X("xclosure_wrapper<int>", "template class xtl::xclosure_wrapper<int>;"),
    C("xclosure_wrapper<const int&>", """
int c19_closure_const_ref()
{
    const int k = 3;
    xtl::xclosure_wrapper<const int&> a(k), b(a), c(std::move(b));
    const xtl::xclosure_wrapper<const int&>& ca = a;
    const int& r1 = a; const int& r2 = ca; const int& r3 = a.get(); const int& r4 = ca.get(); const int& r5 = std::move(c).get();
    const int* p1 = &a;
    return r1 + r2 + r3 + r4 + r5 + *p1 + int(a.equal(ca));
}""", why="operator=(const self_type&) assigns through the wrapped const reference (xclosure.hpp, `deref(m_wrappee) = ...`): ill-formed for a const closure, valid only if never instantiated",
      explicit_probe="template class xtl::xclosure_wrapper<const int&>;"),
    C("xclosure_pointer<int&>", """
int c19_closure_pointer_ref()
{
    int i = 1;
    xtl::xclosure_pointer<int&> a(i), b(a);
    const xtl::xclosure_pointer<int&>& ca = a;
    return *a + *ca + *a.operator->() + *ca.operator->() + *b;
}""", why="the constructor xclosure_pointer(value_type&&) binds an rvalue to the stored int& (xclosure.hpp): ill-formed for a reference closure unless never instantiated",
      explicit_probe="template class xtl::xclosure_pointer<int&>;"),
    X("xclosure_pointer<int>", "template class xtl::xclosure_pointer<int>;"),
    C("xclosure/function-templates-and-operators", """
int c19_closure_calls()
{
    int i = 1, j = 2;
    const int k = 3;
    auto a = xtl::closure(i);
    auto b = xtl::closure(5);
    auto c = xtl::const_closure(i);
    auto d = xtl::closure(k);
    auto pa = xtl::closure_pointer(i);
    auto pb = xtl::closure_pointer(7);
    auto pc = xtl::const_closure_pointer(i);
    a = 4; b = j; a = b;
    xtl::xclosure_wrapper<int&> w(j);
    (void) (a == w); (void) (a != w); (void) (a < w); (void) (a <= w); (void) (a > w); (void) (a >= w);
    std::add_lvalue_reference_t<int&> r = a.get();
    int* p = &a;
    return r + *p + b.get() + c.get() + d.get() + *pa + *pb + *pc + int(a.equal(w)) + *pa.operator->();
}"""),
])

H("xcompare.hpp", entries=[
    C("cmp_*/all-signedness-combinations", """
bool c19_cmp_calls()
{
    return xtl::cmp_equal(-1, 1u) | xtl::cmp_equal(1u, -1) | xtl::cmp_equal(1, 2L) | xtl::cmp_equal(1u, 2ul)
         | xtl::cmp_not_equal(-1, 1u) | xtl::cmp_not_equal(1u, -1) | xtl::cmp_not_equal(1, 2L) | xtl::cmp_not_equal(1u, 2ul)
         | xtl::cmp_less(-1, 1u) | xtl::cmp_less(1u, -1) | xtl::cmp_less(1, 2L) | xtl::cmp_less(1u, 2ul)
         | xtl::cmp_greater(-1, 1u) | xtl::cmp_greater(1u, -1) | xtl::cmp_greater(1, 2L) | xtl::cmp_greater(1u, 2ul)
         | xtl::cmp_less_equal(-1, 1u) | xtl::cmp_less_equal(1u, -1) | xtl::cmp_less_equal(1, 2L) | xtl::cmp_less_equal(1u, 2ul)
         | xtl::cmp_greater_equal(-1, 1u) | xtl::cmp_greater_equal(1u, -1) | xtl::cmp_greater_equal(1, 2L) | xtl::cmp_greater_equal(1u, 2ul)
         | xtl::cmp_less(static_cast<signed char>(-1), 1ull) | xtl::cmp_less(static_cast<unsigned short>(1), -1LL);
}"""),
])

_CPLX_CALLS = """
double c19_complex_calls_%(n)s()
{
    typedef xtl::xcomplex<double, double, %(b)s> Z;
    typedef xtl::xcomplex<double&, double&, %(b)s> ZR;
    typedef xtl::xcomplex<float, float, %(b)s> ZF;
    double re = 1., im = 2.;
    Z a, b(1.), c(1., 2.), d(c), e(std::move(d)), f(std::complex<double>(1., 2.)), g(ZF(1.f, 2.f));
    const Z k(3., 4.);
    ZR r(re, im);
    Z fromref(r);
    std::complex<double> sc = c;
    a = 2.; a = c; a = Z(1., 1.); a = r; a = std::complex<double>(0., 1.); r = c; r = 5.;
    a += c; a -= c; a *= c; a /= c; a += 1.; a -= 1.; a *= 2.; a /= 2.; a += r; a *= r;
    double x = a.real() + a.imag() + k.real() + k.imag() + Z(1., 2.).real() + Z(1., 2.).imag() + r.real() + r.imag()
             + xtl::real(a) + xtl::imag(a) + xtl::real(2.) + xtl::imag(2.) + xtl::real(sc) + xtl::imag(sc);
    (void) (&a); (void) (&k); (void) (&Z(1., 2.));
    bool q = (a == c) | (a != c) | (a == r) | (r != a);
    Z s = +a; s = -a; s = a + c; s = a + 1.; s = 1. + a; s = a - c; s = a - 1.; s = 1. - a; s = a * c; s = a * 2.; s = 2. * a; s = a / c; s = a / 2.; s = 2. / a;
    s = a + r; s = r * a; s = a + g;
    x += xtl::abs(a) + xtl::arg(a) + xtl::norm(a);
    s = xtl::conj(a); s = xtl::proj(a); s = xtl::exp(a); s = xtl::log(a); s = xtl::log10(a); s = xtl::pow(a, c); s = xtl::pow(a, 2.); s = xtl::pow(2., a); s = xtl::sqrt(a);
    s = xtl::sin(a); s = xtl::cos(a); s = xtl::tan(a); s = xtl::asin(a); s = xtl::acos(a); s = xtl::atan(a);
    s = xtl::sinh(a); s = xtl::cosh(a); s = xtl::tanh(a); s = xtl::asinh(a); s = xtl::acosh(a); s = xtl::atanh(a);
    x += xtl::abs(r) + xtl::norm(r);
    std::ostringstream os; os << a << r;
    (void) b; (void) e; (void) f; (void) fromref;
    return x + s.real() + q;
}"""

H("xcomplex.hpp", post=["complex", "sstream", "utility"], entries=[
    X("xcomplex<double,double,false>", "template class xtl::xcomplex<double, double, false>;"),
    X("xcomplex<double,double,true>", "template class xtl::xcomplex<double, double, true>;"),
    X("xcomplex<float,float,false>", "template class xtl::xcomplex<float, float, false>;"),
    X("xcomplex<double&,double&,false>", "template class xtl::xcomplex<double&, double&, false>;"),
    X("xcomplex<const double&,const double&,true>", "template class xtl::xcomplex<const double&, const double&, true>;"),
    X("xcomplex-traits", "template struct xtl::is_complex<std::complex<double> >;\ntemplate struct xtl::is_xcomplex<xtl::xcomplex<double, double, false> >;\n"
                         "template struct xtl::is_gen_complex<double>;\ntemplate struct xtl::common_xcomplex<double, double, false, float, float, true>;\n"
                         "template struct xtl::temporary_xcomplex<double&, double&, false>;\ntemplate struct xtl::complex_value_type<xtl::xcomplex<double, double, false> >;\n"
                         "template struct xtl::complex_value_type<std::complex<float> >;\ntemplate struct xtl::complex_value_type<double>;"),
    C("xcomplex<ieee=false>/constructor-templates-operators-functions", _CPLX_CALLS % {"n": "plain", "b": "false"}),
    C("xcomplex<ieee=true>/constructor-templates-operators-functions", _CPLX_CALLS % {"n": "ieee", "b": "true"}),
])

H("xcomplex_sequence.hpp", post=["vector", "array", "complex"], entries=[
    X("xcomplex_sequence<std::vector<double>,false>", "template class xtl::xcomplex_sequence<std::vector<double>, false>;"),
    X("xcomplex_vector<double>", "template class xtl::xcomplex_vector<double>;"),
    X("xcomplex_vector<float,true>", "template class xtl::xcomplex_vector<float, true>;"),
    X("xcomplex_array<double,3>", "template class xtl::xcomplex_array<double, 3>;"),
    X("xcomplex_iterator<std::vector<double>::iterator,false>", "template class xtl::xcomplex_iterator<std::vector<double>::iterator, false>;\n"
      "template class xtl::xcomplex_iterator<std::vector<double>::const_iterator, true>;"),
    C("xcomplex_vector/constructors-iteration-operators", """
double c19_cseq_calls()
{
    typedef xtl::xcomplex<double, double, false> Z;
    xtl::xcomplex_vector<double> a, b(2), c(2, Z(1., 2.)), d({Z(1., 2.), Z(3., 4.)}), e(2, xtl::xcomplex<float, float, true>(1.f, 2.f)), f(c), g(std::move(f));
    const xtl::xcomplex_vector<double>& cc = c;
    a = b; a = std::move(g);
    a.resize(3); a.resize(4, Z(0., 1.)); a.resize(5, xtl::xcomplex<float, float, true>(1.f, 1.f));
    double x = 0.;
    for (auto it = c.begin(); it != c.end(); ++it) { x += (*it).real() + it->imag(); }
    for (auto it = cc.begin(); it != cc.end(); it++) { x += (*it).real(); }
    for (auto it = cc.cbegin(); it != cc.cend(); ++it) { x += (*it).imag(); }
    for (auto it = c.rbegin(); it != c.rend(); ++it) { x += (*it).real(); }
    for (auto it = cc.rbegin(); it != cc.rend(); ++it) { x += (*it).real(); }
    for (auto it = cc.crbegin(); it != cc.crend(); ++it) { x += (*it).real(); }
    auto it = c.begin(); it += 1; it -= 1; --it; ++it; auto it2 = it + 1; auto it3 = 1 + it; auto it4 = it2 - 1; x += double(it2 - it) + it[0].real(); it--;
    c[0] = Z(5., 6.); c.at(1) = Z(7., 8.); c.front() = c.back();
    x += cc[0].real() + cc.at(1).imag() + cc.front().real() + cc.back().imag() + c.real()[0] + cc.imag()[0] + xtl::xcomplex_vector<double>(1).real().size();
    x += double(c.size() + c.max_size() + c.empty()) + double(c == d) + double(c != d);
    (void) e; (void) it3; (void) it4;
    return x;
}"""),
    C("xcomplex_array/constructors-access", """
double c19_carr_calls()
{
    typedef xtl::xcomplex<double, double, false> Z;
    xtl::xcomplex_array<double, 3> a, b(3), c(3, Z(1., 2.)), d(3, xtl::xcomplex<float, float, true>(1.f, 2.f)), e(c);
    const xtl::xcomplex_array<double, 3>& cc = c;
    a = b;
    c[0] = Z(5., 6.); c.at(1) = Z(7., 8.); c.front() = c.back();
    return cc[0].real() + cc.at(1).imag() + cc.front().real() + cc.back().imag() + c.real()[0] + cc.imag()[0] + double(c.size() + c.empty()) + double(c == d) + double(c != e);
}"""),
])

H("xdynamic_bitset.hpp", post=["cstdint", "vector", "memory"], entries=[
    X("xdynamic_bitset<uint8_t>", "template class xtl::xdynamic_bitset<std::uint8_t>;"),
    X("xdynamic_bitset<uint64_t>", "template class xtl::xdynamic_bitset<std::uint64_t>;"),
    X("xdynamic_bitset_base<xdynamic_bitset<uint8_t>>", "template class xtl::xdynamic_bitset_base<xtl::xdynamic_bitset<std::uint8_t> >;"),
    X("xdynamic_bitset_view<uint32_t>", "template class xtl::xdynamic_bitset_view<std::uint32_t>;"),
    X("xdynamic_bitset_base<xdynamic_bitset_view<uint32_t>>", "template class xtl::xdynamic_bitset_base<xtl::xdynamic_bitset_view<std::uint32_t> >;"),
    X("xbitset_reference<xdynamic_bitset<uint8_t>,false/true>", "template class xtl::xbitset_reference<xtl::xdynamic_bitset<std::uint8_t>, false>;\ntemplate class xtl::xbitset_reference<xtl::xdynamic_bitset<std::uint8_t>, true>;"),
    X("xbitset_iterator<xdynamic_bitset<uint8_t>,false/true>", "template class xtl::xbitset_iterator<xtl::xdynamic_bitset<std::uint8_t>, false>;\ntemplate class xtl::xbitset_iterator<xtl::xdynamic_bitset<std::uint8_t>, true>;"),
    C("xdynamic_bitset/constructor-templates-operators", """
unsigned long c19_bitset_calls()
{
    typedef xtl::xdynamic_bitset<std::uint8_t> B;
    std::uint8_t blocks[2] = {0x0f, 0xf0};
    std::vector<std::uint8_t> bv(2, 0x55);
    std::uint32_t vblk[2] = {1u, 2u};
    xtl::xdynamic_bitset_view<std::uint32_t> v(vblk, 40), v2(v);
    B a, b(std::allocator<std::uint8_t>()), c(10, true), d(10), e({true, false, true}), f(blocks, blocks + 2), g(bv.begin(), bv.end()), h(c), i(std::move(h)), j(v);
    const B& cc = c;
    a = c; a = std::move(i);
    a.assign(5, true); a.assign(blocks, blocks + 2); a.assign({true, true});
    a.resize(12); a.resize(14, true); a.push_back(true); a.pop_back(); a.reserve(64); a.clear(); a = c;
    a &= d; a |= d; a ^= d; a &= B(10); a <<= 1; a >>= 1; B s = a << 2; s = a >> 2; s = ~a; s = a & d; s = a | d; s = a ^ d;
    B w(40), t(40); w &= v; t = v & w; t = v | v2; t = v ^ w; t = ~v; v &= w; v |= v2; v ^= w; v <<= 1; v >>= 1;
    a.set(); a.set(1); a.set(1, false); a.reset(); a.reset(1); a.flip(); a.flip(1);
    a[0] = true; a.at(1) = cc[2]; a.front() = cc.back(); a.back() = cc.front(); a[2] &= true; a[2] |= false; a[2] ^= true; a[2].flip();
    bool q = a.all() | a.any() | a.none() | cc.at(0) | bool(~a[0]) | (a == d) | (a != d) | (v == w) | (w != v) | (a[0] == cc[0]) | a.empty();
    unsigned long n = a.count() + a.size() + a.block_count() + a.max_size() + a.capacity() + *a.data() + *cc.data() + v.count() + v.size();
    for (auto it = a.begin(); it != a.end(); ++it) { n += *it; }
    for (auto it = cc.begin(); it != cc.end(); it++) { n += *it; }
    for (auto it = cc.cbegin(); it != cc.cend(); ++it) { n += *it; }
    for (auto it = a.rbegin(); it != a.rend(); ++it) { n += *it; }
    for (auto it = cc.rbegin(); it != cc.rend(); ++it) { n += *it; }
    for (auto it = cc.crbegin(); it != cc.crend(); ++it) { n += *it; }
    for (auto it = cc.block_begin(); it != cc.block_end(); ++it) { n += *it; }
    auto it = a.begin(); it += 2; it -= 1; --it; auto it2 = it + 1; n += (it2 - it) + (it < it2) + (it <= it2) + (it > it2) + (it >= it2) + it[1];
    a.swap(s); swap(a, s); (void) a.get_allocator();
    v.resize(40);
    (void) b; (void) e; (void) f; (void) g; (void) j;
    return n + q;
}"""),
])

H("xfunctional.hpp", entries=[
    C("identity-select", """
double c19_functional_calls()
{
    xtl::identity id;
    int i = 2;
    const int& r = id(i);
    return id(3) + r + xtl::select(true, 1, 2.5) + xtl::select(false, 1.f, 2.f) + xtl::select(i > 1, i, 4);
}"""),
])

_HALF_CALLS = """
double c19_half_calls()
{
    using half_float::half;
    half a(1.5f), b(2.0), c(3), d(4L), e(5u), f(6LL), g(static_cast<short>(7)), h(1.0L), z;
    z = 1.f;
    float vf = a; double vd = static_cast<double>(a); int vi = static_cast<int>(a); long vl = static_cast<long>(a); unsigned vu = static_cast<unsigned>(a);
    long long vll = static_cast<long long>(a); bool vb = static_cast<bool>(a); long double vld = static_cast<long double>(a);
    a += 1.f; a -= 1.f; a *= 2.f; a /= 2.f; a += b; a -= b; a *= b; a /= b;
    half r = half_float::half_cast<half>(3.25);
    r = half_float::half_cast<half, std::round_toward_zero>(3.25f);
    r = half_float::half_cast<half>(7);
    double x = half_float::half_cast<double>(r) + half_float::half_cast<int>(r) + half_float::half_cast<float, std::round_to_nearest>(r) + half_float::half_cast<long long>(r);
    r = half_float::fma(a, b, c); r = half_float::pow(a, b); r = half_float::nexttoward(a, 2.0L); r = half_float::ldexp(a, 1); r = half_float::scalbln(a, 1L);
    std::ostringstream os; os << a; std::istringstream is("1.5"); is >> a;
    x += (a == b) + (a != b) + (a < b) + (a > b) + (a <= b) + (a >= b) + std::numeric_limits<half>::digits + std::hash<half>()(a) %% 2;
    (void) d; (void) e; (void) f; (void) g; (void) h;
    return x + vf + vd + vi + vl + vu + vll + vb + double(vld) + float(z);
}"""

H("xhalf_float_impl.hpp", post=["sstream", "limits", "functional"], entries=[
    C("half/constructor-templates-conversions-half_cast", _HALF_CALLS),
])

H("xhalf_float.hpp", post=["sstream", "limits", "functional"], entries=[
    C("half/constructor-templates-conversions-half_cast", _HALF_CALLS),
    X("type-traits-for-half", "template struct xtl::is_scalar<xtl::half_float>;\ntemplate struct xtl::is_arithmetic<xtl::half_float>;\ntemplate struct xtl::is_signed<xtl::half_float>;\ntemplate struct xtl::is_floating_point<xtl::half_float>;"),
])

H("xhash.hpp", post=["string"], entries=[
    C("hash-functions", """
unsigned long c19_hash_calls()
{
    const char buf[] = "0123456789abcdefg";
    unsigned long r = 0;
    for (unsigned long n = 0; n < sizeof(buf); ++n) { r += xtl::hash_bytes(buf, n, 1) + xtl::murmur2_x86(buf, n, 1u) + xtl::murmur2_x64(buf, n, 1ull); }
    return r;
}"""),
])

H("xhierarchy_generator.hpp", post=["utility"], prelude="""
template <class T> struct c19_unit { T value; };
template <class T, class B> struct c19_link : B { c19_link() {} template <class... A> c19_link(A&&... a) : B(std::forward<A>(a)...) {} T value; };
struct c19_root { c19_root() : tag(0) {} explicit c19_root(int t) : tag(t) {} int tag; };
""", entries=[
    X("xscatter_hierarchy_generator<vector<int,char,double>>", "template class xtl::xscatter_hierarchy_generator<xtl::mpl::vector<int, char, double>, c19_unit>;\ntemplate class xtl::xscatter_hierarchy_generator<xtl::mpl::vector<>, c19_unit>;"),
    X("xlinear_hierarchy_generator<vector<int,char>>", "template class xtl::xlinear_hierarchy_generator<xtl::mpl::vector<int, char>, c19_link>;\ntemplate class xtl::xlinear_hierarchy_generator<xtl::mpl::vector<>, c19_link, c19_root>;"),
    C("hierarchy-generators/constructor-templates", """
int c19_hier_calls()
{
    xtl::xscatter_hierarchy_generator<xtl::mpl::vector<int, char>, c19_unit> s;
    static_cast<c19_unit<int>&>(s).value = 1;
    static_cast<c19_unit<char>&>(s).value = 'c';
    xtl::xlinear_hierarchy_generator<xtl::mpl::vector<int, char>, c19_link> l;
    xtl::xlinear_hierarchy_generator<xtl::mpl::vector<int, char>, c19_link, c19_root> lr(5);
    l.value = 2;
    return static_cast<c19_unit<int>&>(s).value + l.value + lr.tag;
}"""),
])

H("xiterator_base.hpp", post=["map", "vector", "list", "iterator"], prelude="""
struct c19_bidir : xtl::xbidirectional_iterator_base<c19_bidir, int>
{
    int* p;
    explicit c19_bidir(int* q = nullptr) : p(q) {}
    c19_bidir& operator++() { ++p; return *this; }
    c19_bidir& operator--() { --p; return *this; }
    int& operator*() const { return *p; }
    int* operator->() const { return p; }
    bool operator==(const c19_bidir& o) const { return p == o.p; }
};
struct c19_ra : xtl::xrandom_access_iterator_base<c19_ra, int>
{
    int* p;
    explicit c19_ra(int* q = nullptr) : p(q) {}
    c19_ra& operator++() { ++p; return *this; }
    c19_ra& operator--() { --p; return *this; }
    c19_ra& operator+=(std::ptrdiff_t n) { p += n; return *this; }
    c19_ra& operator-=(std::ptrdiff_t n) { p -= n; return *this; }
    std::ptrdiff_t operator-(const c19_ra& o) const { return p - o.p; }
    int& operator*() const { return *p; }
    int* operator->() const { return p; }
    bool operator==(const c19_ra& o) const { return p == o.p; }
    bool operator<(const c19_ra& o) const { return p < o.p; }
};
""", entries=[
    X("xbidirectional_iterator_base<I,int>", "template class xtl::xbidirectional_iterator_base<c19_bidir, int>;"),
    X("xrandom_access_iterator_base<I,int>", "template class xtl::xrandom_access_iterator_base<c19_ra, int>;"),
    X("xkey_iterator<std::map<int,double>>", "template class xtl::xkey_iterator<std::map<int, double> >;"),
    X("xvalue_iterator<std::map<int,double>>", "template class xtl::xvalue_iterator<std::map<int, double> >;\ntemplate class xtl::xvalue_iterator<const std::map<int, double> >;"),
    X("xstepping_iterator<int*>", "template class xtl::xstepping_iterator<int*>;\ntemplate class xtl::xstepping_iterator<std::vector<double>::const_iterator>;"),
    X("common_iterator_tag", "template struct xtl::common_iterator_tag<int*, std::list<int>::iterator>;"),
    C("iterator-bases/friend-operators", """
long c19_iter_calls()
{
    int arr[6] = {0, 1, 2, 3, 4, 5};
    c19_bidir b(arr), b2(arr + 2);
    b++; b--; bool q = (b != b2);
    c19_ra r(arr), r2(arr + 3);
    r++; r--; auto r3 = r + 2; auto r4 = 2 + r; auto r5 = r2 - 1; q |= (r != r2) | (r <= r2) | (r >= r2) | (r > r2);
    long n = r[2] + *r3 + *r4 + *r5;
    std::map<int, double> m; m[1] = 2.; m[3] = 4.;
    const std::map<int, double>& cm = m;
    xtl::xkey_iterator<std::map<int, double> > k(m.cbegin()), ke(m.cend());
    for (; k != ke; ++k) { n += *k; }
    k--; --k; k++; n += *k.operator->();
    xtl::xvalue_iterator<std::map<int, double> > v(m.begin()), ve(m.end());
    for (; v != ve; ++v) { *v += 1.; n += long(*v); }
    v--; --v; v++; n += long(*v.operator->());
    xtl::xvalue_iterator<const std::map<int, double> > cv(cm.begin()), cve(cm.end());
    for (; cv != cve; ++cv) { n += long(*cv); }
    auto s = xtl::make_stepping_iterator(arr, 2), s2 = xtl::make_stepping_iterator(arr + 4, 2);
    ++s; --s; s++; s--; s += 1; s -= 1; auto s3 = s + 1; auto s4 = 1 + s; auto s5 = s2 - 1;
    n += (s2 - s) + s[1] + *s3 + *s4 + *s5 + *s.operator->() + (s == s2) + (s != s2) + (s < s2) + (s <= s2) + (s > s2) + (s >= s2);
    static_assert(std::is_same<xtl::common_iterator_tag_t<int*, std::list<int>::iterator>, std::bidirectional_iterator_tag>::value, "tag");
    return n + q;
}"""),
])
