"""C19 instantiation table (unit U5): what is instantiated per header, and HOW.

For every public header: the class templates it defines with 1-3 representative argument sets, and the function /
member / constructor templates, which an explicit instantiation of the class does not reach.

  mode "explicit"  `template class X<args>;` -- an explicit instantiation DEFINITION instantiates every non-template
                   member function, static data member and nested class of the specialisation, called or not.
                   Decided by probe (probe.py) on the unchanged tree: well-formed in all 12 configurations.
  mode "calls"     a non-inline function that calls things once.  Used (a) for what explicit instantiation never
                   reaches: constructor templates, member function templates, free function templates, operators,
                   friends; (b) as the fallback for a class whose explicit instantiation is ill-formed ON THE UNCHANGED
                   TREE because some members are only valid for some arguments -- then 'why' says which member, and
                   'explicit_probe' keeps the explicit form so that the thorough tier notices when it becomes
                   well-formed (a note, and the entry can be upgraded).

THE MODE COLUMN IS THE COMMITTED DECISION.  An entry that does not build is a violation
  C19/<header>:<id>/<member the compiler was instantiating>/instantiation-ill-formed@<configuration class>
and never a skipped case: a class that could be explicitly instantiated when this table was written and cannot today
is reported.  Entries are built -O0 with real code generation and LINKED (a missing out-of-class definition of an
odr-used static member only shows at link time, and in C++14 only at -O0).  Nothing is executed.

Every function here has external linkage on purpose (an unused inline function would not be emitted).
'post' = standard headers the ARGUMENTS need (std::map for xkey_iterator<std::map<..>> ...), included AFTER the header
under test; 'also' = other xtl headers a user of this header necessarily includes (xjson.hpp only forward-declares).
"""
import collections

INST = collections.OrderedDict()


def H(header, entries, post=(), prelude="", also=()):
    INST[header] = {"entries": entries, "post": list(post), "prelude": prelude, "also": list(also)}


def X(id, code, **kw):
    d = {"id": id, "mode": "explicit", "code": code}
    d.update(kw)
    return d


def C(id, code, **kw):
    d = {"id": id, "mode": "calls", "code": code}
    d.update(kw)
    return d


def N(id, code, why):
    """mode "excluded": ill-formed on the unchanged tree for EVERY argument set tried (a latent defect of the member itself,
    outside what C19 states); never judged, only probed in the thorough tier so that the evidence says when it becomes well-formed."""
    return {"id": id, "mode": "excluded", "code": "", "explicit_probe": code, "why": why}


# ------------------------------------------------------------------------------------------------------------------
H("xany.hpp", post=["string", "utility"], prelude="struct c19_big { double d[8]; };", entries=[
    C("any/constructors-and-assignment", """
void c19_any_ctors()
{
    xtl::any a;                       // default
    xtl::any b(3);                    // small, in place
    xtl::any c(c19_big{});            // large, allocated
    xtl::any s(std::string("x"));     // non-trivial
    const int ci = 4;
    xtl::any d(ci);                   // const lvalue
    xtl::any e(b);                    // copy
    xtl::any f(std::move(c));         // move
    a = b; a = std::move(e); a = 5; a = c19_big{}; a = std::string("y"); a = ci;
    a.swap(f); std::swap(a, f);
    a.reset(); f.clear();
    (void) a.empty(); (void) a.has_value(); (void) (d.type() == typeid(int));
    (void) s;
}"""),
    C("any/any_cast-all-forms", """
int c19_any_casts()
{
    xtl::any a(3);
    const xtl::any ca(4);
    int r = xtl::any_cast<int>(a) + xtl::any_cast<int>(ca) + xtl::any_cast<int&>(a) + xtl::any_cast<const int&>(ca) + xtl::any_cast<int>(xtl::any(5));
    int* p = xtl::any_cast<int>(&a);
    const int* cp = xtl::any_cast<int>(&ca);
    xtl::any big(c19_big{});
    c19_big g = xtl::any_cast<c19_big>(std::move(big));
    std::string st = xtl::any_cast<std::string>(xtl::any(std::string("z")));
    return r + *p + *cp + int(g.d[0]) + int(st.size());
}"""),
])

H("xbase64.hpp", entries=[
    C("base64/encode-decode", "unsigned long c19_b64() { return xtl::base64encode(\"ab\").size() + xtl::base64decode(\"YWI=\").size(); }"),
])

_FS_CALLS = """
void c19_fs_calls_%(n)s()
{
    typedef %(t)s S;
    std::string std_s("hello");
    const char* cs = "world";
    const std::size_t z = 0, o = 1, t = 2;
    S a, b(3, 'x'), c(cs), d(cs, 2), e(std_s), f(std_s, 1, 2), g(c), h(c, 1), i(c, 1, 2), j(std::move(g)), k({'a', 'b'});
    S l(std_s.begin(), std_s.end());
    a = b; a = std::move(j); a = cs; a = 'q'; a = {'x', 'y'}; a = std_s;
    a.assign(t, 'z'); a.assign(b); a.assign(b, o, o); a.assign(std::move(h)); a.assign(cs, t); a.assign(cs); a.assign(std_s.begin(), std_s.end());
    a.assign({'p', 'q'}); a.assign(std_s); a.assign(std_s, o, t);
    a.insert(z, o, 'c'); a.insert(z, cs); a.insert(z, cs, o); a.insert(z, b); a.insert(z, b, z, o); a.insert(z, std_s); a.insert(z, std_s, z, o);
    a.insert(a.cbegin(), 'c'); a.insert(a.cbegin(), o, 'c'); a.insert(a.cbegin(), {'i'}); a.insert(a.cbegin(), std_s.begin(), std_s.begin() + o);
    a.erase(z, o); a.erase(a.cbegin()); a.erase(a.cbegin(), a.cbegin() + o);
    a.clear(); a.push_back('x'); a.pop_back();
    a.append(o, 'c'); a.append(b); a.append(b, z, o); a.append(cs, o); a.append(cs); a.append(std_s); a.append(std_s, z, o); a.append({'k'}); a.append(std_s.begin(), std_s.begin() + o);
    a += b; a += 'c'; a += cs; a += {'k'}; a += std_s;
    (void) a.compare(b); (void) a.compare(z, o, b); (void) a.compare(z, o, b, z, o); (void) a.compare(cs); (void) a.compare(z, o, cs); (void) a.compare(z, o, cs, o);
    (void) a.compare(std_s); (void) a.compare(z, o, std_s); (void) a.compare(z, o, std_s, z, o);
    a.replace(z, o, b); a.replace(a.cbegin(), a.cbegin() + o, b); a.replace(z, o, b, z, o); a.replace(z, o, cs, o); a.replace(a.cbegin(), a.cbegin() + o, cs, o);
    a.replace(z, o, cs); a.replace(a.cbegin(), a.cbegin() + o, cs); a.replace(z, o, o, 'r'); a.replace(a.cbegin(), a.cbegin() + o, o, 'r');
    a.replace(a.cbegin(), a.cbegin() + o, {'l'}); a.replace(a.cbegin(), a.cbegin() + o, std_s.begin(), std_s.begin() + o);
    a.replace(z, o, std_s); a.replace(a.cbegin(), a.cbegin() + o, std_s); a.replace(z, o, std_s, z, o);
    (void) a.substr(z, o); char buf[4]; (void) a.copy(buf, o, z); a.resize(t); a.resize(3, 'r'); a.swap(b);
    (void) a.find(b); (void) a.find(cs, z, o); (void) a.find(cs); (void) a.find('c'); (void) a.find(std_s);
    (void) a.rfind(b); (void) a.rfind(cs, z, o); (void) a.rfind(cs); (void) a.rfind('c'); (void) a.rfind(std_s);
    (void) a.find_first_of(b); (void) a.find_first_of(cs, z, o); (void) a.find_first_of(cs); (void) a.find_first_of('c'); (void) a.find_first_of(std_s);
    (void) a.find_first_not_of(b); (void) a.find_first_not_of(cs, z, o); (void) a.find_first_not_of(cs); (void) a.find_first_not_of('c'); (void) a.find_first_not_of(std_s);
    (void) a.find_last_of(b); (void) a.find_last_of(cs, z, o); (void) a.find_last_of(cs); (void) a.find_last_of('c'); (void) a.find_last_of(std_s);
    (void) a.find_last_not_of(b); (void) a.find_last_not_of(cs, z, o); (void) a.find_last_not_of(cs); (void) a.find_last_not_of('c'); (void) a.find_last_not_of(std_s);
    (void) (a == b); (void) (a != b); (void) (a < b); (void) (a <= b); (void) (a > b); (void) (a >= b);
    (void) (a == cs); (void) (cs == a); (void) (a != cs); (void) (cs != a); (void) (a < cs); (void) (cs < a); (void) (a <= cs); (void) (cs <= a); (void) (a > cs); (void) (cs > a); (void) (a >= cs); (void) (cs >= a);
    (void) (a == std_s); (void) (std_s == a); (void) (a != std_s); (void) (std_s != a); (void) (a < std_s); (void) (std_s < a);
    (void) (a + b); (void) (a + cs); (void) (cs + a); (void) (a + 'c'); (void) ('c' + a);
    std::ostringstream os; os << a; std::istringstream is("tok"); is >> a; std::istringstream is2("line"); getline(is2, a); std::istringstream is3("l;x"); getline(is3, a, ';');
    swap(a, b);
    (void) std::hash<S>()(a);
    (void) c; (void) d; (void) e; (void) f; (void) i; (void) k; (void) l;
}"""

H("xbasic_fixed_string.hpp", post=["string", "sstream", "functional"], entries=[
    X("xbasic_fixed_string<char,16,buffer|store_size>(packed-size)", "template class xtl::xbasic_fixed_string<char, 16, xtl::buffer | xtl::store_size, xtl::string_policy::silent_error>;"),
    X("xbasic_fixed_string<char,300,buffer|store_size,throwing>(size-field)", "template class xtl::xbasic_fixed_string<char, 300, xtl::buffer | xtl::store_size, xtl::string_policy::throwing_error>;"),
    X("xbasic_fixed_string<char,16,buffer>(strlen)", "template class xtl::xbasic_fixed_string<char, 16, xtl::buffer, xtl::string_policy::throwing_error>;"),
    X("string_policy::silent_error<16>", "template struct xtl::string_policy::silent_error<16>;"),
    X("string_policy::throwing_error<16>", "template struct xtl::string_policy::throwing_error<16>;"),
    C("xbasic_fixed_string(packed-size)/member-templates-and-operators", _FS_CALLS % {"n": "packed", "t": "xtl::xbasic_fixed_string<char, 16, xtl::buffer | xtl::store_size, xtl::string_policy::silent_error>"}),
    C("xbasic_fixed_string(size-field)/member-templates-and-operators", _FS_CALLS % {"n": "sized", "t": "xtl::xbasic_fixed_string<char, 300, xtl::buffer | xtl::store_size, xtl::string_policy::throwing_error>"}),
    C("xbasic_fixed_string(strlen)/member-templates-and-operators", _FS_CALLS % {"n": "strlen", "t": "xtl::xbasic_fixed_string<char, 16, xtl::buffer, xtl::string_policy::throwing_error>"}),
])

H("xclosure.hpp", post=["utility"], entries=[
    X("closure_type<int&>", "template struct xtl::closure_type<int&>;\ntemplate struct xtl::closure_type<int>;\ntemplate struct xtl::const_closure_type<int&>;\ntemplate struct xtl::const_closure_type<int>;"),
    X("ptr_closure_type<int&>", "template struct xtl::ptr_closure_type<int&>;\ntemplate struct xtl::ptr_closure_type<int*>;\ntemplate struct xtl::const_ptr_closure_type<int&>;\ntemplate struct xtl::const_ptr_closure_type<int*>;"),
    X("xclosure_wrapper<int&>", "template class xtl::xclosure_wrapper<int&>;"),
    X("xclosure_wrapper<int>", "template class xtl::xclosure_wrapper<int>;"),
    C("xclosure_wrapper<const int&>", """
int c19_closure_const_ref()
{
    const int k = 3;
    xtl::xclosure_wrapper<const int&> a(k), b(a), c(std::move(b));
    const xtl::xclosure_wrapper<const int&>& ca = a;
    const int& r1 = a; const int& r2 = ca; const int& r3 = a.get(); const int& r4 = ca.get(); const int& r5 = std::move(c).get();
    const int* p1 = &a;
    return r1 + r2 + r3 + r4 + r5 + *p1 + int(a.equal(ca));
}""", why="operator=(const self_type&) assigns through the wrapped const reference (xclosure.hpp, `deref(m_wrappee) = ...`): ill-formed for a const closure, valid only if never instantiated",
      explicit_probe="template class xtl::xclosure_wrapper<const int&>;"),
    C("xclosure_pointer<int&>", """
int c19_closure_pointer_ref()
{
    int i = 1;
    xtl::xclosure_pointer<int&> a(i), b(a);
    const xtl::xclosure_pointer<int&>& ca = a;
    return *a + *ca + *a.operator->() + *ca.operator->() + *b;
}""", why="the constructor xclosure_pointer(value_type&&) binds an rvalue to the stored int& (xclosure.hpp): ill-formed for a reference closure unless never instantiated",
      explicit_probe="template class xtl::xclosure_pointer<int&>;"),
    X("xclosure_pointer<int>", "template class xtl::xclosure_pointer<int>;"),
    C("xclosure/function-templates-and-operators", """
int c19_closure_calls()
{
    int i = 1, j = 2;
    const int k = 3;
    auto a = xtl::closure(i);
    auto b = xtl::closure(5);
    auto c = xtl::const_closure(i);
    auto d = xtl::closure(k);
    auto pa = xtl::closure_pointer(i);
    auto pb = xtl::closure_pointer(7);
    auto pc = xtl::const_closure_pointer(i);
    a = 4; b = j; a = b;
    xtl::xclosure_wrapper<int&> w(j);
    (void) (a == w); (void) (a != w); (void) (a < w); (void) (a <= w); (void) (a > w); (void) (a >= w);
    std::add_lvalue_reference_t<int&> r = a.get();
    int* p = &a;
    return r + *p + b.get() + c.get() + d.get() + *pa + *pb + *pc + int(a.equal(w)) + *pa.operator->();
}"""),
])

H("xcompare.hpp", entries=[
    C("cmp_*/all-signedness-combinations", """
bool c19_cmp_calls()
{
    return xtl::cmp_equal(-1, 1u) | xtl::cmp_equal(1u, -1) | xtl::cmp_equal(1, 2L) | xtl::cmp_equal(1u, 2ul)
         | xtl::cmp_not_equal(-1, 1u) | xtl::cmp_not_equal(1u, -1) | xtl::cmp_not_equal(1, 2L) | xtl::cmp_not_equal(1u, 2ul)
         | xtl::cmp_less(-1, 1u) | xtl::cmp_less(1u, -1) | xtl::cmp_less(1, 2L) | xtl::cmp_less(1u, 2ul)
         | xtl::cmp_greater(-1, 1u) | xtl::cmp_greater(1u, -1) | xtl::cmp_greater(1, 2L) | xtl::cmp_greater(1u, 2ul)
         | xtl::cmp_less_equal(-1, 1u) | xtl::cmp_less_equal(1u, -1) | xtl::cmp_less_equal(1, 2L) | xtl::cmp_less_equal(1u, 2ul)
         | xtl::cmp_greater_equal(-1, 1u) | xtl::cmp_greater_equal(1u, -1) | xtl::cmp_greater_equal(1, 2L) | xtl::cmp_greater_equal(1u, 2ul)
         | xtl::cmp_less(static_cast<signed char>(-1), 1ull) | xtl::cmp_less(static_cast<unsigned short>(1), -1LL);
}"""),
])

_CPLX_CALLS = """
double c19_complex_calls_%(n)s()
{
    typedef xtl::xcomplex<double, double, %(b)s> Z;
    typedef xtl::xcomplex<double&, double&, %(b)s> ZR;
    typedef xtl::xcomplex<float, float, %(b)s> ZF;
    double re = 1., im = 2.;
    Z a, b(1.), c(1., 2.), d(c), e(std::move(d)), f(std::complex<double>(1., 2.)), g(ZF(1.f, 2.f));
    const Z k(3., 4.);
    ZR r(re, im);
    Z fromref(r);
    std::complex<double> sc = c;
    a = 2.; a = c; a = Z(1., 1.); a = std::complex<double>(0., 1.); r = 5.;
    a += c; a -= c; a *= c; a /= c; a += 1.; a -= 1.; a *= 2.; a /= 2.;
    double x = a.real() + a.imag() + k.real() + k.imag() + Z(1., 2.).real() + Z(1., 2.).imag() + r.real() + r.imag()
             + xtl::real(a) + xtl::imag(a) + xtl::real(2.) + xtl::imag(2.) + xtl::real(sc) + xtl::imag(sc);
    (void) (&a); (void) (&k); (void) (&Z(1., 2.));
    bool q = (a == c) | (a != c) | (a == r) | (r != a);
    Z s = +a; s = -a; s = a + c; s = a + 1.; s = 1. + a; s = a - c; s = a - 1.; s = 1. - a; s = a * c; s = a * 2.; s = 2. * a; s = a / c; s = a / 2.; s = 2. / a;
    s = a + g;
    x += xtl::abs(a) + xtl::arg(a) + xtl::norm(a);
    s = xtl::conj(a); s = xtl::proj(a); s = xtl::exp(a); s = xtl::log(a); s = xtl::log10(a); s = xtl::pow(a, c); s = xtl::pow(a, 2.); s = xtl::pow(2., a); s = xtl::sqrt(a);
    s = xtl::sin(a); s = xtl::cos(a); s = xtl::tan(a); s = xtl::asin(a); s = xtl::acos(a); s = xtl::atan(a);
    s = xtl::sinh(a); s = xtl::cosh(a); s = xtl::tanh(a); s = xtl::asinh(a); s = xtl::acosh(a); s = xtl::atanh(a);
    x += xtl::abs(r) + xtl::norm(r);
    std::ostringstream os; os << a << r;
    (void) b; (void) e; (void) f; (void) fromref;
    return x + s.real() + q;
}"""

H("xcomplex.hpp", post=["complex", "sstream", "utility"], entries=[
    X("xcomplex<double,double,false>", "template class xtl::xcomplex<double, double, false>;"),
    X("xcomplex<double,double,true>", "template class xtl::xcomplex<double, double, true>;"),
    X("xcomplex<float,float,false>", "template class xtl::xcomplex<float, float, false>;"),
    C("xcomplex<double&,double&,false>", """
double c19_complex_ref()
{
    double re = 1., im = 2.;
    const double cre = 3., cim = 4.;
    xtl::xcomplex<double&, double&, false> r(re, im), r2(r);
    const xtl::xcomplex<double&, double&, false>& cr = r;
    xtl::xcomplex<const double&, const double&, true> k(cre, cim);
    std::complex<double> sc = r, sk = k;
    r = 5.; r += 1.; r -= 1.; r *= 2.; r /= 2.;
    (void) (&r); (void) (&cr); (void) (&k);
    return r.real() + r.imag() + cr.real() + cr.imag() + k.real() + k.imag() + std::move(r2).real() + std::move(r2).imag() + sc.real() + sk.imag();
}""", why="the default constructor value-initialises m_real/m_imag (xcomplex.hpp `xcomplex() : m_real(), m_imag()`): ill-formed for reference closures unless never instantiated",
      explicit_probe="template class xtl::xcomplex<double&, double&, false>;\ntemplate class xtl::xcomplex<const double&, const double&, true>;"),
    N("xcomplex::operator=(xcomplex<other closure types>)", """
void c19_complex_cross_assign()
{
    double re = 1., im = 2.;
    xtl::xcomplex<double, double, false> a(1., 2.);
    xtl::xcomplex<double&, double&, false> r(re, im);
    a = r;
    r = xtl::xcomplex<double, double, false>(3., 4.);
    a += r; a -= r; a *= r; a /= r;
    a = a + r; a = r * a; a = a - r; a = a / r;
}""", "the converting assignment and compound-assignment templates (and the binary operators built on them) read rhs.m_real / rhs.m_imag of a DIFFERENT specialisation, which are private (xcomplex.hpp operator= / operator+= ... templates); ill-formed for every pair of distinct specialisations"),
    X("xcomplex-traits", "template struct xtl::is_complex<std::complex<double> >;\ntemplate struct xtl::is_xcomplex<xtl::xcomplex<double, double, false> >;\n"
                         "template struct xtl::common_xcomplex<double, double, false, float, float, true>;\n"
                         "template struct xtl::temporary_xcomplex<double&, double&, false>;\ntemplate struct xtl::complex_value_type<xtl::xcomplex<double, double, false> >;\n"
                         "template struct xtl::complex_value_type<std::complex<float> >;\ntemplate struct xtl::complex_value_type<double>;"),
    C("xcomplex<ieee=false>/constructor-templates-operators-functions", _CPLX_CALLS % {"n": "plain", "b": "false"}),
    C("xcomplex<ieee=true>/constructor-templates-operators-functions", _CPLX_CALLS % {"n": "ieee", "b": "true"}),
])

H("xcomplex_sequence.hpp", post=["vector", "array", "complex"], entries=[
    X("xcomplex_sequence<std::vector<double>,false>", "template class xtl::xcomplex_sequence<std::vector<double>, false>;"),
    X("xcomplex_vector<double>", "template class xtl::xcomplex_vector<double>;"),
    X("xcomplex_vector<float,true>", "template class xtl::xcomplex_vector<float, true>;"),
    X("xcomplex_array<double,3>", "template class xtl::xcomplex_array<double, 3>;"),
    X("xcomplex_iterator<std::vector<double>::iterator,false>", "template class xtl::xcomplex_iterator<std::vector<double>::iterator, false>;\n"
      "template class xtl::xcomplex_iterator<std::vector<double>::const_iterator, true>;"),
    C("xcomplex_vector/constructors-iteration-operators", """
double c19_cseq_calls()
{
    typedef xtl::xcomplex<double, double, false> Z;
    xtl::xcomplex_vector<double> a, b(2), c(2, Z(1., 2.)), d({Z(1., 2.), Z(3., 4.)}), e(2, xtl::xcomplex<float, float, true>(1.f, 2.f)), f(c), g(std::move(f));
    const xtl::xcomplex_vector<double>& cc = c;
    a = b; a = std::move(g);
    a.resize(3); a.resize(4, Z(0., 1.)); a.resize(5, xtl::xcomplex<float, float, true>(1.f, 1.f));
    double x = 0.;
    for (auto it = c.begin(); it != c.end(); ++it) { x += (*it).real() + it->imag(); }
    for (auto it = cc.begin(); it != cc.end(); it++) { x += (*it).real(); }
    for (auto it = cc.cbegin(); it != cc.cend(); ++it) { x += (*it).imag(); }
    for (auto it = c.rbegin(); it != c.rend(); ++it) { x += (*it).real(); }
    for (auto it = cc.rbegin(); it != cc.rend(); ++it) { x += (*it).real(); }
    for (auto it = cc.crbegin(); it != cc.crend(); ++it) { x += (*it).real(); }
    auto it = c.begin(); it += 1; it -= 1; --it; ++it; auto it2 = it + 1; auto it3 = 1 + it; auto it4 = it2 - 1; x += double(it2 - it) + it[0].real(); it--;
    c[0].real() = 5.; c.at(1).imag() = 8.; c.front().real() = c.back().imag();
    x += cc[0].real() + cc.at(1).imag() + cc.front().real() + cc.back().imag() + c.real()[0] + cc.imag()[0] + xtl::xcomplex_vector<double>(1).real().size();
    x += double(c.size() + c.max_size() + c.empty()) + double(c == d) + double(c != d);
    (void) e; (void) it3; (void) it4;
    return x;
}"""),
    C("xcomplex_array/constructors-access", """
double c19_carr_calls()
{
    typedef xtl::xcomplex<double, double, false> Z;
    xtl::xcomplex_array<double, 3> a, b(3), c(3, Z(1., 2.)), d(3, xtl::xcomplex<float, float, true>(1.f, 2.f)), e(c);
    const xtl::xcomplex_array<double, 3>& cc = c;
    a = b;
    c[0].real() = 5.; c.at(1).imag() = 8.; c.front().real() = c.back().imag();
    return cc[0].real() + cc.at(1).imag() + cc.front().real() + cc.back().imag() + c.real()[0] + cc.imag()[0] + double(c.size() + c.empty()) + double(c == d) + double(c != e);
}"""),
])

H("xdynamic_bitset.hpp", post=["cstdint", "vector", "memory"], entries=[
    X("xdynamic_bitset<uint8_t>", "template class xtl::xdynamic_bitset<std::uint8_t>;"),
    X("xdynamic_bitset<uint64_t>", "template class xtl::xdynamic_bitset<std::uint64_t>;"),
    X("xdynamic_bitset_base<xdynamic_bitset<uint8_t>>", "template class xtl::xdynamic_bitset_base<xtl::xdynamic_bitset<std::uint8_t> >;"),
    X("xdynamic_bitset_view<uint32_t>", "template class xtl::xdynamic_bitset_view<std::uint32_t>;"),
    X("xdynamic_bitset_base<xdynamic_bitset_view<uint32_t>>", "template class xtl::xdynamic_bitset_base<xtl::xdynamic_bitset_view<std::uint32_t> >;"),
    X("xbitset_reference<xdynamic_bitset<uint8_t>,false>", "template class xtl::xbitset_reference<xtl::xdynamic_bitset<std::uint8_t>, false>;"),
    C("xbitset_reference<xdynamic_bitset<uint8_t>,true>", """
bool c19_bitset_const_ref()
{
    const xtl::xdynamic_bitset<std::uint8_t> b(10, true);
    xtl::xbitset_reference<xtl::xdynamic_bitset<std::uint8_t>, true> r = b[1], r2(r);
    return bool(r) | ~r | (r == r2) | (r != r2) | *(&r);
}""", why="assignment, &=, |=, ^= and flip() write through m_block, which is a const reference when is_const is true (xdynamic_bitset.hpp): valid only if never instantiated",
      explicit_probe="template class xtl::xbitset_reference<xtl::xdynamic_bitset<std::uint8_t>, true>;"),
    X("xbitset_iterator<xdynamic_bitset<uint8_t>,false/true>", "template class xtl::xbitset_iterator<xtl::xdynamic_bitset<std::uint8_t>, false>;\ntemplate class xtl::xbitset_iterator<xtl::xdynamic_bitset<std::uint8_t>, true>;"),
    C("xdynamic_bitset/constructor-templates-operators", """
unsigned long c19_bitset_calls()
{
    typedef xtl::xdynamic_bitset<std::uint8_t> B;
    std::uint8_t blocks[2] = {0x0f, 0xf0};
    std::vector<std::uint8_t> bv(2, 0x55);
    std::uint32_t vblk[2] = {1u, 2u};
    xtl::xdynamic_bitset_view<std::uint32_t> v(vblk, 40), v2(v);
    B a, b(std::allocator<std::uint8_t>()), c(10, true), d(10), e({true, false, true}), f(blocks, blocks + 2), g(bv.begin(), bv.end()), h(c), i(std::move(h)), j(v);
    const B& cc = c;
    a = c; a = std::move(i);
    a.assign(5, true); a.assign(blocks, blocks + 2); a.assign({true, true});
    a.resize(12); a.resize(14, true); a.push_back(true); a.pop_back(); a.reserve(64); a.clear(); a = c;
    a &= d; a |= d; a ^= d; a &= B(10); a <<= 1; a >>= 1; B s = a << 2; s = a >> 2; s = ~a; s = a & d; s = a | d; s = a ^ d;
    B w(40), t(40); w &= v; t = v & w; t = v | v2; t = v ^ w; t = ~v; v &= w; v |= v2; v ^= w; v <<= 1; v >>= 1;
    a.set(); a.set(1); a.set(1, false); a.reset(); a.reset(1); a.flip(); a.flip(1);
    a[0] = true; a.at(1) = cc[2]; a.front() = cc.back(); a.back() = cc.front(); a[2] &= true; a[2] |= false; a[2] ^= true; a[2].flip();
    bool q = a.all() | a.any() | a.none() | cc.at(0) | bool(~a[0]) | (a == d) | (a != d) | (v == w) | (w != v) | (a[0] == cc[0]) | a.empty();
    unsigned long n = a.count() + a.size() + a.block_count() + a.max_size() + a.capacity() + *a.data() + *cc.data() + v.count() + v.size();
    for (auto it = a.begin(); it != a.end(); ++it) { n += *it; }
    for (auto it = cc.begin(); it != cc.end(); it++) { n += *it; }
    for (auto it = cc.cbegin(); it != cc.cend(); ++it) { n += *it; }
    for (auto it = a.rbegin(); it != a.rend(); ++it) { n += *it; }
    for (auto it = cc.rbegin(); it != cc.rend(); ++it) { n += *it; }
    for (auto it = cc.crbegin(); it != cc.crend(); ++it) { n += *it; }
    for (auto it = cc.block_begin(); it != cc.block_end(); ++it) { n += *it; }
    auto it = a.begin(); it += 2; it -= 1; --it; auto it2 = it + 1; n += (it2 - it) + (it < it2) + (it <= it2) + (it > it2) + (it >= it2) + it[1];
    a.swap(s); swap(a, s); (void) a.get_allocator();
    v.resize(40);
    (void) b; (void) e; (void) f; (void) g; (void) j;
    return n + q;
}"""),
])

H("xfunctional.hpp", entries=[
    C("identity-select", """
double c19_functional_calls()
{
    xtl::identity id;
    int i = 2;
    const int& r = id(i);
    return id(3) + r + xtl::select(true, 1, 2.5) + xtl::select(false, 1.f, 2.f) + xtl::select(i > 1, i, 4);
}"""),
])

_HALF_CALLS = """
double c19_half_calls()
{
    using half_float::half;
    half a(1.5f), b(2.0), c(3), d(4L), e(5u), f(6LL), g(static_cast<short>(7)), h(1.0L), z;
    z = 1.f;
    float vf = a; double vd = static_cast<double>(a); int vi = static_cast<int>(a); long vl = static_cast<long>(a); unsigned vu = static_cast<unsigned>(a);
    long long vll = static_cast<long long>(a); bool vb = static_cast<bool>(a); long double vld = static_cast<long double>(a);
    a += 1.f; a -= 1.f; a *= 2.f; a /= 2.f; a += b; a -= b; a *= b; a /= b;
    half r = half_float::half_cast<half>(3.25);
    r = half_float::half_cast<half, std::round_toward_zero>(3.25f);
    r = half_float::half_cast<half>(7);
    double x = half_float::half_cast<double>(r) + half_float::half_cast<int>(r) + half_float::half_cast<float, std::round_to_nearest>(r) + half_float::half_cast<long long>(r);
    r = half_float::fma(a, b, c); r = half_float::pow(a, b); r = half_float::nexttoward(a, 2.0L); r = half_float::ldexp(a, 1); r = half_float::scalbln(a, 1L);
    std::ostringstream os; os << a; std::istringstream is("1.5"); is >> a;
    x += (a == b) + (a != b) + (a < b) + (a > b) + (a <= b) + (a >= b) + std::numeric_limits<half>::digits + std::hash<half>()(a) % 2;
    (void) d; (void) e; (void) f; (void) g; (void) h;
    return x + vf + vd + vi + vl + vu + vll + vb + double(vld) + float(z);
}"""

H("xhalf_float_impl.hpp", post=["sstream", "limits", "functional"], entries=[
    C("half/constructor-templates-conversions-half_cast", _HALF_CALLS),
])

H("xhalf_float.hpp", post=["sstream", "limits", "functional"], entries=[
    C("half/constructor-templates-conversions-half_cast", _HALF_CALLS),
    X("type-traits-for-half", "template struct xtl::is_scalar<xtl::half_float>;\ntemplate struct xtl::is_arithmetic<xtl::half_float>;\ntemplate struct xtl::is_signed<xtl::half_float>;\ntemplate struct xtl::is_floating_point<xtl::half_float>;"),
])

H("xhash.hpp", post=["string"], entries=[
    C("hash-functions", """
unsigned long c19_hash_calls()
{
    const char buf[] = "0123456789abcdefg";
    unsigned long r = 0;
    for (unsigned long n = 0; n < sizeof(buf); ++n) { r += xtl::hash_bytes(buf, n, 1) + xtl::murmur2_x86(buf, n, 1u) + xtl::murmur2_x64(buf, n, 1ull); }
    return r;
}"""),
])

H("xhierarchy_generator.hpp", post=["utility"], prelude="""
template <class T> struct c19_unit { T value; };
template <class T, class B> struct c19_link : B { c19_link() {} template <class... A> c19_link(A&&... a) : B(std::forward<A>(a)...) {} T value; };
struct c19_root { c19_root() : tag(0) {} explicit c19_root(int t) : tag(t) {} int tag; };
""", entries=[
    X("xscatter_hierarchy_generator<vector<int,char,double>>", "template class xtl::xscatter_hierarchy_generator<xtl::mpl::vector<int, char, double>, c19_unit>;\ntemplate class xtl::xscatter_hierarchy_generator<xtl::mpl::vector<>, c19_unit>;"),
    X("xlinear_hierarchy_generator<vector<int,char>>", "template class xtl::xlinear_hierarchy_generator<xtl::mpl::vector<int, char>, c19_link>;\ntemplate class xtl::xlinear_hierarchy_generator<xtl::mpl::vector<>, c19_link, c19_root>;"),
    C("hierarchy-generators/constructor-templates", """
int c19_hier_calls()
{
    xtl::xscatter_hierarchy_generator<xtl::mpl::vector<int, char>, c19_unit> s;
    static_cast<c19_unit<int>&>(s).value = 1;
    static_cast<c19_unit<char>&>(s).value = 'c';
    xtl::xlinear_hierarchy_generator<xtl::mpl::vector<int, char>, c19_link> l;
    xtl::xlinear_hierarchy_generator<xtl::mpl::vector<int, char>, c19_link, c19_root> lr(5);
    l.value = 2;
    return static_cast<c19_unit<int>&>(s).value + l.value + lr.tag;
}"""),
])

H("xiterator_base.hpp", post=["map", "vector", "list", "iterator"], prelude="""
struct c19_bidir : xtl::xbidirectional_iterator_base<c19_bidir, int>
{
    int* p;
    explicit c19_bidir(int* q = nullptr) : p(q) {}
    c19_bidir& operator++() { ++p; return *this; }
    c19_bidir& operator--() { --p; return *this; }
    int& operator*() const { return *p; }
    int* operator->() const { return p; }
    bool operator==(const c19_bidir& o) const { return p == o.p; }
};
struct c19_ra : xtl::xrandom_access_iterator_base<c19_ra, int>
{
    int* p;
    explicit c19_ra(int* q = nullptr) : p(q) {}
    c19_ra& operator++() { ++p; return *this; }
    c19_ra& operator--() { --p; return *this; }
    c19_ra& operator+=(std::ptrdiff_t n) { p += n; return *this; }
    c19_ra& operator-=(std::ptrdiff_t n) { p -= n; return *this; }
    std::ptrdiff_t operator-(const c19_ra& o) const { return p - o.p; }
    int& operator*() const { return *p; }
    int* operator->() const { return p; }
    bool operator==(const c19_ra& o) const { return p == o.p; }
    bool operator<(const c19_ra& o) const { return p < o.p; }
};
""", entries=[
    X("xbidirectional_iterator_base<I,int>", "template class xtl::xbidirectional_iterator_base<c19_bidir, int>;"),
    X("xrandom_access_iterator_base<I,int>", "template class xtl::xrandom_access_iterator_base<c19_ra, int>;"),
    X("xkey_iterator<std::map<int,double>>", "template class xtl::xkey_iterator<std::map<int, double> >;"),
    X("xvalue_iterator<std::map<int,double>>", "template class xtl::xvalue_iterator<std::map<int, double> >;\ntemplate class xtl::xvalue_iterator<const std::map<int, double> >;"),
    X("xstepping_iterator<int*>", "template class xtl::xstepping_iterator<int*>;\ntemplate class xtl::xstepping_iterator<const double*>;"),
    C("xstepping_iterator<std::vector<double>::const_iterator>", """
double c19_stepping_class_iterator()
{
    std::vector<double> v(6, 1.);
    xtl::xstepping_iterator<std::vector<double>::const_iterator> s(v.cbegin(), 2), e(v.cbegin() + 4, 2), d;
    ++s; --s; s += 1; s -= 1; d = s;
    return *s + s[1] + double(e - s) + s.equal(e) + s.less_than(e) + (s == e) + (s < e);
}""", why="operator->() returns the sub-iterator m_it as `pointer` (xiterator_base.hpp): only well-formed when the wrapped iterator IS a raw pointer",
      explicit_probe="template class xtl::xstepping_iterator<std::vector<double>::const_iterator>;"),
    X("common_iterator_tag", "template struct xtl::common_iterator_tag<int*, std::list<int>::iterator>;"),
    C("iterator-bases/friend-operators", """
long c19_iter_calls()
{
    int arr[6] = {0, 1, 2, 3, 4, 5};
    c19_bidir b(arr), b2(arr + 2);
    b++; b--; bool q = (b != b2);
    c19_ra r(arr), r2(arr + 3);
    r++; r--; auto r3 = r + 2; auto r4 = 2 + r; auto r5 = r2 - 1; q |= (r != r2) | (r <= r2) | (r >= r2) | (r > r2);
    long n = r[2] + *r3 + *r4 + *r5;
    std::map<int, double> m; m[1] = 2.; m[3] = 4.;
    const std::map<int, double>& cm = m;
    xtl::xkey_iterator<std::map<int, double> > k(m.cbegin()), ke(m.cend());
    for (; k != ke; ++k) { n += *k; }
    k--; --k; k++; n += *k.operator->();
    xtl::xvalue_iterator<std::map<int, double> > v(m.begin()), ve(m.end());
    for (; v != ve; ++v) { *v += 1.; n += long(*v); }
    v--; --v; v++; n += long(*v.operator->());
    xtl::xvalue_iterator<const std::map<int, double> > cv(cm.begin()), cve(cm.end());
    for (; cv != cve; ++cv) { n += long(*cv); }
    auto s = xtl::make_stepping_iterator(arr, 2), s2 = xtl::make_stepping_iterator(arr + 4, 2);
    ++s; --s; s++; s--; s += 1; s -= 1; auto s3 = s + 1; auto s4 = 1 + s; auto s5 = s2 - 1;
    n += (s2 - s) + s[1] + *s3 + *s4 + *s5 + *s.operator->() + (s == s2) + (s != s2) + (s < s2) + (s <= s2) + (s > s2) + (s >= s2);
    static_assert(std::is_same<xtl::common_iterator_tag_t<int*, std::list<int>::iterator>, std::bidirectional_iterator_tag>::value, "tag");
    return n + q;
}"""),
])

H("xjson.hpp", also=["xoptional.hpp", "xbasic_fixed_string.hpp"], post=["string"], entries=[
    C("to_json-from_json/variant-xoptional-fixed_string", """
int c19_json_calls()
{
    nlohmann::json j;
    xtl::variant<int, double, std::string> v(std::string("s"));
    j["v"] = v;
    xtl::xoptional<int> o(3), m = xtl::missing<int>(), back;
    j["o"] = o; j["m"] = m;
    back = j["o"].get<xtl::xoptional<int> >();
    xtl::from_json(j["m"], back);
    xtl::xfixed_string<16> fs("abc"), fs2;
    j["f"] = fs;
    xtl::from_json(j["f"], fs2);
    xtl::to_json(j["g"], fs2);
    return int(j.size()) + back.has_value() + int(fs2.size());
}"""),
])

_MASKED_CALLS = """
double c19_masked_calls()
{
    typedef xtl::xmasked_value<double> M;
    typedef xtl::xmasked_value<int> I;
    double d = 2.; bool vis = true;
    M a(1.), b(2., false), c, e(a), f(std::move(e));
    xtl::xmasked_value<double&, bool&> r(d, vis);
    I i(3), k(4, true);
    const M cm(5.);
    auto mk = xtl::masked_value(3.), mk2 = xtl::masked_value(3., true), mm = xtl::masked<double>();
    a = 2.; a = b; a += 1.; a -= 1.; a *= 2.; a /= 2.; a += b; a -= b; a *= b; a /= b; r = 3.; r += a;
    i %= 2; i &= 3; i |= 1; i ^= 1; i %= k; i &= k; i |= k; i ^= k; i = k;
    double x = a.value() + cm.value() + M(1.).value() + a.visible() + cm.visible() + M(1.).visible() + r.value() + double(static_cast<double>(a));
    bool q = a.equal(b) | a.equal(1.) | (a == b) | (a == 1.) | (1. == a) | (a != b) | (a != 1.) | (1. != a);
    a.swap(b); swap(a, b);
    M s = +a; s = -a; I t = ~i; auto nt = !i;
    s = a + b; s = a + 1.; s = 1. + a; s = a - b; s = a - 1.; s = 1. - a; s = a * b; s = a * 2.; s = 2. * a; s = a / b; s = a / 2.; s = 2. / a;
    t = i % k; t = i % 2; t = 7 % i; t = i & k; t = i & 1; t = 1 & i; t = i | k; t = i | 1; t = 1 | i; t = i ^ k; t = i ^ 1; t = 1 ^ i;
    auto b1 = (a || b); auto b2 = (a || true); auto b3 = (true || a); auto b4 = (a && b); auto b5 = (a && true); auto b6 = (true && a);
    auto c1 = (a < b); auto c2 = (a < 1.); auto c3 = (1. < a); auto c4 = (a <= b); auto c5 = (a <= 1.); auto c6 = (1. <= a);
    auto c7 = (a > b); auto c8 = (a > 1.); auto c9 = (1. > a); auto c10 = (a >= b); auto c11 = (a >= 1.); auto c12 = (1. >= a);
    s = abs(a); s = fabs(a); s = exp(a); s = exp2(a); s = expm1(a); s = log(a); s = log10(a); s = log2(a); s = log1p(a); s = sqrt(a); s = cbrt(a);
    s = sin(a); s = cos(a); s = tan(a); s = acos(a); s = asin(a); s = atan(a); s = sinh(a); s = cosh(a); s = tanh(a); s = acosh(a); s = asinh(a); s = atanh(a);
    s = erf(a); s = erfc(a); s = tgamma(a); s = lgamma(a); s = ceil(a); s = floor(a); s = trunc(a); s = round(a); s = nearbyint(a); s = rint(a);
    auto u1 = isfinite(a); auto u2 = isinf(a); auto u3 = isnan(a);
    s = fmod(a, b); s = fmod(a, 2.); s = fmod(2., a); s = remainder(a, b); s = fmax(a, b); s = fmin(a, b); s = fdim(a, b); s = pow(a, b); s = pow(a, 2.); s = pow(2., a); s = hypot(a, b); s = atan2(a, b);
    s = fma(a, b, cm); s = fma(a, b, 1.); s = fma(a, 1., b); s = fma(1., a, b); s = fma(1., 2., a); s = fma(1., a, 2.); s = fma(a, 1., 2.);
    std::ostringstream os; os << a << mm;
    (void) c; (void) f; (void) mk; (void) mk2; (void) nt; (void) b1; (void) b2; (void) b3; (void) b4; (void) b5; (void) b6;
    (void) c1; (void) c2; (void) c3; (void) c4; (void) c5; (void) c6; (void) c7; (void) c8; (void) c9; (void) c10; (void) c11; (void) c12; (void) u1; (void) u2; (void) u3;
    return x + q + s.value() + t.value();
}"""

H("xmasked_value.hpp", post=["sstream", "cmath"], entries=[
    X("xmasked_value<double,bool>", "template class xtl::xmasked_value<double, bool>;"),
    X("xmasked_value<int,bool>", "template class xtl::xmasked_value<int, bool>;"),
    C("xmasked_value<double&,bool&>", """
double c19_masked_ref()
{
    double d = 2.; bool vis = true;
    xtl::xmasked_value<double&, bool&> r(d, vis);
    const xtl::xmasked_value<double&, bool&>& cr = r;
    xtl::xmasked_value<double&, bool&> r2(cr);
    r = 3.; r += 1.; r -= 1.; r *= 2.; r /= 2.; r = xtl::xmasked_value<double>(4.); r += xtl::xmasked_value<double>(1.);
    return r.value() + cr.value() + r.visible() + cr.visible() + std::move(r2).value() + std::move(r2).visible() + r.equal(cr) + r.equal(2.) + double(static_cast<double>(r));
}""", why="the default constructor initialises m_value(0), m_visible(true) (xmasked_value.hpp): ill-formed for reference closures unless never instantiated",
      explicit_probe="template class xtl::xmasked_value<double&, bool&>;"),
    C("xmasked_value/constructor-templates-operators-functions", _MASKED_CALLS),
])

H("xmasked_value_meta.hpp", entries=[
    X("is_xmasked_value", "namespace xtl { template <class T, class B> class xmasked_value {}; }\ntemplate struct xtl::detail::is_xmasked_value_impl<int>;\ntemplate struct xtl::detail::is_xmasked_value_impl<xtl::xmasked_value<int, bool> >;\n"
      "static_assert(xtl::is_xmasked_value<xtl::xmasked_value<int, bool> >::value && !xtl::is_xmasked_value<int>::value, \"meta\");"),
])

H("xmeta_utils.hpp", post=["type_traits"], entries=[
    X("mpl-metafunctions", """
template struct xtl::mpl::vector<int, char, double>;
template struct xtl::mpl::size<xtl::mpl::vector<int, char> >;
template struct xtl::mpl::empty<xtl::mpl::vector<> >;
template struct xtl::mpl::count<xtl::mpl::vector<int, char, int>, int>;
template struct xtl::mpl::contains<xtl::mpl::vector<int, char>, char>;
template struct xtl::mpl::front<xtl::mpl::vector<int, char> >;
template struct xtl::mpl::back<xtl::mpl::vector<int, char> >;
template struct xtl::mpl::push_front<xtl::mpl::vector<int, char>, double>;
template struct xtl::mpl::push_back<xtl::mpl::vector<int, char>, double>;
template struct xtl::mpl::pop_front<xtl::mpl::vector<int, char> >;
template struct xtl::mpl::transform<std::add_const, xtl::mpl::vector<int, char> >;
template struct xtl::mpl::merge_set<xtl::mpl::vector<int, char>, xtl::mpl::vector<char, double> >;
template struct xtl::mpl::find_if<std::is_floating_point, xtl::mpl::vector<int, double> >;
template struct xtl::mpl::split<1, xtl::mpl::vector<int, char, double> >;
template struct xtl::mpl::unique<xtl::mpl::vector<int, int, char> >;
template struct xtl::mpl::index_of<xtl::mpl::vector<int, char>, char>;
template struct xtl::mpl::cast<xtl::mpl::vector<int, char>, xtl::mpl::vector>;
template struct xtl::mpl::if_<xtl::mpl::bool_<true>, int, char>;
template struct xtl::mpl::eval_if<xtl::mpl::bool_<false>, std::add_const<int>, std::add_pointer<int> >;
template struct xtl::mpl::switch_<std::is_integral<double>, int, std::is_floating_point<double>, char, xtl::mpl::default_t, void>;
template struct xtl::make_void<int, char>;
template struct xtl::conjunction<std::true_type, std::false_type>;
template struct xtl::disjunction<std::false_type, std::true_type>;
template struct xtl::negation<std::true_type>;
"""),
    C("static_if-and-constexpr-helpers", """
int c19_meta_calls()
{
    int a = xtl::mpl::static_if<true>([](auto self) { return self(1); }, [](auto self) { return self(2); });
    int b = xtl::mpl::static_if<false>([](auto self) { return self(1); }, [](auto self) { return self(2); });
    int c = xtl::mpl::static_if(std::true_type(), [](auto self) { return self(3); }, [](auto self) { return self(4); });
    return a + b + c + int(xtl::mpl::size<xtl::mpl::vector<int> >::value);
}"""),
])

_MM_PRELUDE = """
namespace c19mm
{
    struct shape { XTL_IMPLEMENT_INDEXABLE_CLASS() virtual ~shape() {} };
    struct circle : shape { XTL_IMPLEMENT_INDEXABLE_CLASS() };
    struct square : shape { XTL_IMPLEMENT_INDEXABLE_CLASS() };
    struct extra { int v; };
    struct exec
    {
        template <class A, class B> int run(A&, B&) const { return 1; }
        int on_error(shape&, shape&) const { return -1; }
    };
    inline int cs(circle&, square&) { return 2; }
    inline int cse(circle&, square&, extra& e) { return e.v; }
    typedef std::function<int(shape&, shape&)> cb_t;
}
"""

H("xmultimethods.hpp", post=["functional"], prelude=_MM_PRELUDE, entries=[
    X("static_dispatcher<antisymmetric/symmetric>", "template class xtl::static_dispatcher<c19mm::exec, c19mm::shape, xtl::mpl::vector<c19mm::circle, c19mm::square>, int>;\n"
      "template class xtl::static_dispatcher<c19mm::exec, c19mm::shape, xtl::mpl::vector<c19mm::circle, c19mm::square>, int, xtl::symmetric_dispatch>;"),
    X("basic_dispatcher<vector<shape,shape>,int,vector<>,function>", "template class xtl::basic_dispatcher<xtl::mpl::vector<c19mm::shape, c19mm::shape>, int, xtl::mpl::vector<>, c19mm::cb_t>;"),
    X("basic_fast_dispatcher<vector<shape,shape>,int,vector<>,function>", "template class xtl::basic_fast_dispatcher<xtl::mpl::vector<c19mm::shape, c19mm::shape>, int, xtl::mpl::vector<>, c19mm::cb_t>;"),
    X("functor_dispatcher<basic/fast>", "template class xtl::functor_dispatcher<xtl::mpl::vector<c19mm::shape, c19mm::shape>, int>;\n"
      "template class xtl::functor_dispatcher<xtl::mpl::vector<c19mm::shape, c19mm::shape>, int, xtl::mpl::vector<>, xtl::static_caster, xtl::basic_fast_dispatcher>;\n"
      "template class xtl::functor_dispatcher<xtl::mpl::vector<c19mm::shape, c19mm::shape>, int, xtl::mpl::vector<c19mm::extra>, xtl::dynamic_caster, xtl::basic_dispatcher>;"),
    X("static_caster/dynamic_caster", "template struct xtl::static_caster<c19mm::circle, c19mm::shape>;\ntemplate struct xtl::dynamic_caster<c19mm::circle, c19mm::shape>;"),
    C("dispatchers/member-templates", """
int c19_mm_calls()
{
    using namespace c19mm;
    circle c; square s; shape& a = c; shape& b = s; extra e = {5}; exec ex;
    int r = xtl::static_dispatcher<exec, shape, xtl::mpl::vector<circle, square>, int>::dispatch(a, b, ex)
          + xtl::static_dispatcher<exec, shape, xtl::mpl::vector<circle, square>, int, xtl::symmetric_dispatch>::dispatch(b, a, ex)
          + xtl::static_dispatcher<exec, shape, xtl::mpl::vector<circle>, int, xtl::antisymmetric_dispatch, shape, xtl::mpl::vector<square> >::dispatch(a, b, ex);
    xtl::functor_dispatcher<xtl::mpl::vector<shape, shape>, int> d1;
    d1.insert<circle, square>(&cs); d1.insert<square, circle>([](square&, circle&) { return 3; }); r += d1.dispatch(a, b) + d1.dispatch(b, a); d1.erase<square, circle>();
    xtl::functor_dispatcher<xtl::mpl::vector<shape, shape>, int, xtl::mpl::vector<>, xtl::static_caster> d2;
    d2.insert<circle, square>(&cs); r += d2.dispatch(a, b); d2.erase<circle, square>();
    xtl::functor_dispatcher<xtl::mpl::vector<shape, shape>, int, xtl::mpl::vector<>, xtl::static_caster, xtl::basic_fast_dispatcher> d3;
    d3.insert<circle, square>(&cs); r += d3.dispatch(a, b);
    xtl::functor_dispatcher<xtl::mpl::vector<shape, shape>, int, xtl::mpl::vector<extra> > d4;
    d4.insert<circle, square>(&cse); r += d4.dispatch(a, b, e);
    xtl::functor_dispatcher<xtl::mpl::vector<shape, shape>, int, xtl::mpl::vector<extra>, xtl::static_caster, xtl::basic_fast_dispatcher> d5;
    d5.insert<circle, square>(&cse); r += d5.dispatch(a, b, e);
    xtl::basic_dispatcher<xtl::mpl::vector<shape, shape>, int, xtl::mpl::vector<>, cb_t> raw;
    raw.insert<circle, square>(cb_t([](shape&, shape&) { return 4; })); r += raw.dispatch(a, b); raw.erase<circle, square>();
    return r;
}"""),
])

_OPT_CALLS = """
double c19_optional_calls()
{
    typedef xtl::xoptional<double> O;
    typedef xtl::xoptional<int> I;
    double d = 2.; bool fl = true; const double cd = 3.; const bool cf = true;
    O a, b(1.), c(2., true), e(b), f(std::move(e)), g(I(3)), h(d, fl), i2(4., fl), j(d, true);
    xtl::xoptional<double&, bool&> r(d, fl), r2(r);
    xtl::xoptional<const double&, const bool&> cr(cd, cf);
    O fromref(r), fromcref(cr);
    I i(3), k(4, true);
    const O co(5.);
    auto mk = xtl::optional(3., true), ms = xtl::missing<double>();
    a = 2.; a = b; a = std::move(f); a = r; a = I(2); r = 3.; r = b;
    a += 1.; a -= 1.; a *= 2.; a /= 2.; a += b; a -= b; a *= b; a /= b; a += r; r += a; r *= 2.;
    i %= 2; i &= 3; i |= 1; i ^= 1; i %= k; i &= k; i |= k; i ^= k;
    double x = a.value() + co.value() + O(1.).value() + a.has_value() + co.has_value() + O(1.).has_value() + r.value() + cr.value() + a.value_or(1.) + O(2.).value_or(3)
             + xtl::value(a) + xtl::value(co) + xtl::value(O(1.)) + xtl::value(2.) + xtl::has_value(a) + xtl::has_value(co) + xtl::has_value(O(1.)) + xtl::has_value(2.);
    bool q = a.equal(b) | a.equal(1.) | a.equal(r);
    (void) (&a); (void) (&co); (void) (&O(1.));
    a.swap(b);
    auto e1 = (a == b); auto e2 = (a == 1.); auto e3 = (1. == a); auto e4 = (a != b); auto e5 = (a != 1.); auto e6 = (1. != a); auto e7 = (a == r);
    O s = +a; s = -a; I t = ~i; auto nt = !i;
    s = a + b; s = a + 1.; s = 1. + a; s = a - b; s = a - 1.; s = 1. - a; s = a * b; s = a * 2.; s = 2. * a; s = a / b; s = a / 2.; s = 2. / a; s = a + r; s = a + i;
    t = i % k; t = i % 2; t = 7 % i; t = i & k; t = i & 1; t = 1 & i; t = i | k; t = i | 1; t = 1 | i; t = i ^ k; t = i ^ 1; t = 1 ^ i;
    auto b1 = (a || b); auto b2 = (a || true); auto b3 = (true || a); auto b4 = (a && b); auto b5 = (a && true); auto b6 = (true && a);
    auto c1 = (a < b); auto c2 = (a < 1.); auto c3 = (1. < a); auto c4 = (a <= b); auto c5 = (a <= 1.); auto c6 = (1. <= a);
    auto c7 = (a > b); auto c8 = (a > 1.); auto c9 = (1. > a); auto c10 = (a >= b); auto c11 = (a >= 1.); auto c12 = (1. >= a);
    s = abs(a); s = fabs(a); s = exp(a); s = exp2(a); s = expm1(a); s = log(a); s = log10(a); s = log2(a); s = log1p(a); s = sqrt(a); s = cbrt(a);
    s = sin(a); s = cos(a); s = tan(a); s = acos(a); s = asin(a); s = atan(a); s = sinh(a); s = cosh(a); s = tanh(a); s = acosh(a); s = asinh(a); s = atanh(a);
    s = erf(a); s = erfc(a); s = tgamma(a); s = lgamma(a); s = ceil(a); s = floor(a); s = trunc(a); s = round(a); s = nearbyint(a); s = rint(a);
    auto u1 = isfinite(a); auto u2 = isinf(a); auto u3 = isnan(a);
    s = fmod(a, b); s = fmod(a, 2.); s = fmod(2., a); s = remainder(a, b); s = fmax(a, b); s = fmin(a, b); s = fdim(a, b); s = pow(a, b); s = pow(a, 2.); s = pow(2., a); s = hypot(a, b); s = atan2(a, b);
    s = fma(a, b, co); s = fma(a, b, 1.); s = fma(a, 1., b); s = fma(1., a, b); s = fma(1., 2., a); s = fma(1., a, 2.); s = fma(a, 1., 2.);
    s = xtl::select(true, a, b); s = xtl::select(false, a, 1.); s = xtl::select(true, 1., a);
    std::ostringstream os; os << a << ms;
    (void) c; (void) g; (void) h; (void) i2; (void) j; (void) r2; (void) fromref; (void) fromcref; (void) mk; (void) nt;
    (void) e1; (void) e2; (void) e3; (void) e4; (void) e5; (void) e6; (void) e7; (void) b1; (void) b2; (void) b3; (void) b4; (void) b5; (void) b6;
    (void) c1; (void) c2; (void) c3; (void) c4; (void) c5; (void) c6; (void) c7; (void) c8; (void) c9; (void) c10; (void) c11; (void) c12; (void) u1; (void) u2; (void) u3;
    return x + q + s.value() + t.value();
}"""

H("xoptional.hpp", post=["sstream", "cmath"], entries=[
    X("xoptional<int,bool>", "template class xtl::xoptional<int, bool>;"),
    X("xoptional<double,bool>", "template class xtl::xoptional<double, bool>;"),
    C("xoptional<int&,bool&>", """
int c19_optional_ref()
{
    int v = 2; bool fl = true; const int cv = 3; const bool cf = true;
    xtl::xoptional<int&, bool&> r(v, fl), r2(r);
    const xtl::xoptional<int&, bool&>& cr = r;
    xtl::xoptional<const int&, const bool&> k(cv, cf), k2(r);
    r = 3; r += 1; r -= 1; r *= 2; r /= 2; r %= 5; r &= 7; r |= 1; r ^= 1; r = xtl::xoptional<int>(4); r += xtl::xoptional<int>(1);
    (void) (&r); (void) (&cr); (void) (&k);
    return r.value() + cr.value() + k.value() + k2.value() + r.has_value() + cr.has_value() + k.has_value() + std::move(r2).value() + std::move(r2).has_value() + r.value_or(1) + r.equal(cr) + r.equal(k) + r.equal(2);
}""", why="the default constructor value-initialises m_value (xoptional.hpp `xoptional() : m_value(), m_flag(false)`): ill-formed for reference closures unless never instantiated",
      explicit_probe="template class xtl::xoptional<int&, bool&>;\ntemplate class xtl::xoptional<const int&, const bool&>;"),
    C("xoptional/constructor-templates-operators-functions", _OPT_CALLS),
])

H("xoptional_meta.hpp", entries=[
    X("is_xoptional-and-friends", "template struct xtl::detail::is_xoptional_impl<int>;\ntemplate struct xtl::detail::is_xoptional_impl<xtl::xoptional<int, bool> >;\n"
      "static_assert(xtl::is_xoptional<xtl::xoptional<int, bool> >::value && !xtl::is_xoptional<int>::value, \"meta\");\n"
      "static_assert(xtl::is_not_xoptional_nor_xmasked_value<int>::value, \"meta\");\n"
      "template struct xtl::common_optional<int, xtl::xoptional<double, bool> >;\ntemplate struct xtl::common_optional<int, double>;\n"
      "template struct xtl::at_least_one_xoptional<int, xtl::xoptional<double, bool> >;"),
])

H("xoptional_sequence.hpp", post=["vector", "array"], entries=[
    X("xoptional_vector<int>", "template class xtl::xoptional_vector<int>;"),
    X("xoptional_vector<double,allocator,xdynamic_bitset<uint8_t>>", "template class xtl::xoptional_vector<double, std::allocator<double>, xtl::xdynamic_bitset<unsigned char> >;"),
    X("xoptional_array<int,3>", "template class xtl::xoptional_array<int, 3>;"),
    X("xoptional_sequence<std::vector<int>,xdynamic_bitset<size_t>>", "template class xtl::xoptional_sequence<std::vector<int>, xtl::xdynamic_bitset<std::size_t> >;"),
    X("xoptional_iterator<vector<int>::iterator,bitset-iterator>", "template class xtl::xoptional_iterator<std::vector<int>::iterator, xtl::xdynamic_bitset<std::size_t>::iterator>;\n"
      "template class xtl::xoptional_iterator<std::vector<int>::const_iterator, xtl::xdynamic_bitset<std::size_t>::const_iterator>;"),
    C("xoptional_vector/constructors-iteration-operators", """
long c19_oseq_calls()
{
    typedef xtl::xoptional_vector<int> V;
    V a, b(2, 1), c(2, xtl::xoptional<int>(3)), d(2, xtl::missing<int>()), e(c), f(std::move(e));
    const V& cc = c;
    a = b; a = std::move(f);
    a.resize(3); a.resize(4, 7); a.resize(5, xtl::xoptional<int>(8)); a.resize(6, xtl::missing<int>());
    long x = 0;
    for (auto it = c.begin(); it != c.end(); ++it) { x += (*it).value() + it->has_value(); }
    for (auto it = cc.begin(); it != cc.end(); it++) { x += (*it).value(); }
    for (auto it = cc.cbegin(); it != cc.cend(); ++it) { x += (*it).value(); }
    for (auto it = c.rbegin(); it != c.rend(); ++it) { x += (*it).value(); }
    for (auto it = cc.rbegin(); it != cc.rend(); ++it) { x += (*it).value(); }
    for (auto it = cc.crbegin(); it != cc.crend(); ++it) { x += (*it).value(); }
    auto it = c.begin(); it += 1; it -= 1; ++it; --it; auto it2 = it + 1; auto it3 = 1 + it; auto it4 = it2 - 1;
    x += (it2 - it) + it[0].value() + (it < it2) + (it <= it2) + (it > it2) + (it >= it2) + (it == it2); it++; it--;
    c[0] = 5; c.at(1) = xtl::missing<int>(); c.front() = 6; c.back() = xtl::xoptional<int>(7); c[0] = xtl::xoptional<int>(4); c[1].value() = 2; c[1].has_value() = true;
    x += cc[0].value() + cc.at(1).has_value() + cc.front().value() + cc.back().value() + c.value()[0] + cc.value()[0] + c.has_value()[0] + cc.has_value()[0] + V(1, 1).value().size() + V(1, 1).has_value().size();
    x += long(c.size() + c.max_size() + c.empty()) + (c == d) + (c != d) + (c < d) + (c <= d) + (c > d) + (c >= d);
    (void) it3; (void) it4;
    return x;
}"""),
    C("xoptional_array/constructors-access", """
long c19_oarr_calls()
{
    typedef xtl::xoptional_array<int, 3> A;
    A a, b(3, 1), c(3, xtl::xoptional<int>(2)), d(3, xtl::missing<int>()), e(c);
    const A& cc = c;
    a = b;
    c[0] = 5; c.at(1) = xtl::missing<int>(); c.front() = 6; c.back() = xtl::xoptional<int>(7);
    return cc[0].value() + cc.at(1).has_value() + cc.front().value() + cc.back().value() + c.value()[0] + cc.has_value()[0] + long(c.size() + c.empty()) + (c == d) + (c != e) + (c < d);
}"""),
])

H("xplatform.hpp", entries=[
    C("endianness", "int c19_platform() { return static_cast<int>(xtl::endianness()) + (xtl::endianness() == xtl::endian::big_endian) + (xtl::endianness() == xtl::endian::mixed); }"),
])

H("xproxy_wrapper.hpp", post=["utility"], prelude="struct c19_proxy { int x; int get() const { return x; } };", entries=[
    X("xproxy_wrapper_impl<P>", "template class xtl::xproxy_wrapper_impl<c19_proxy>;"),
    C("proxy_wrapper/class-and-scalar", """
int c19_proxy_calls()
{
    auto w = xtl::proxy_wrapper(c19_proxy{1});
    auto p = &w;
    auto p2 = &xtl::proxy_wrapper(c19_proxy{2});
    auto sc = xtl::proxy_wrapper(3);
    static_assert(std::is_same<xtl::xproxy_wrapper<int>, xtl::xclosure_wrapper<int> >::value, "scalar proxies are closures");
    return w.x + p->get() + p2->x + sc.get();
}"""),
])

H("xsequence.hpp", post=["vector", "array", "list", "initializer_list"], entries=[
    C("make_sequence-forward_sequence-sequence_size", """
unsigned long c19_sequence_calls()
{
    auto v1 = xtl::make_sequence<std::vector<int> >(3);
    auto v2 = xtl::make_sequence<std::vector<int> >(3, 1);
    auto v3 = xtl::make_sequence<std::vector<int> >({1, 2, 3});
    auto a1 = xtl::make_sequence<std::array<int, 3> >(3);
    auto a2 = xtl::make_sequence<std::array<int, 3> >(3, 1);
    auto a3 = xtl::make_sequence<std::array<int, 3> >({1, 2, 3});
    int raw[4] = {1, 2, 3, 4};
    std::vector<int>& same = xtl::forward_sequence<std::vector<int>, std::vector<int>&>(v1);
    std::vector<int> moved = xtl::forward_sequence<std::vector<int>, std::vector<int> >(std::move(v2));
    std::array<int, 3> arr_from_vec = xtl::forward_sequence<std::array<int, 3>, std::vector<int>&>(v3);
    std::vector<int> vec_from_arr = xtl::forward_sequence<std::vector<int>, std::array<int, 3>&>(a1);
    std::vector<int> vec_from_rv = xtl::forward_sequence<std::vector<int>, std::array<int, 3> >(std::move(a2));
    return same.size() + moved.size() + arr_from_vec.size() + vec_from_arr.size() + vec_from_rv.size() + xtl::sequence_size(v3) + xtl::sequence_size(a3) + xtl::sequence_size(raw);
}"""),
])

_SPAN_CALLS = """
long c19_span_calls_%(n)s()
{
    int arr[4] = {1, 2, 3, 4};
    const int carr[3] = {1, 2, 3};
    std::array<int, 4> sa = {{1, 2, 3, 4}};
    const std::array<int, 4> csa = {{1, 2, 3, 4}};
    std::vector<int> v(4, 1);
    const std::vector<int> cv(4, 2);
    %(ns)s::span<int> a, b(arr, 4), c(arr, arr + 4), d(arr), e(sa), f(v), g(b);
    %(ns)s::span<const int> h(carr), i(csa), j(cv), k(b), l(sa), m(v), n2(arr);
    %(ns)s::span<int, 4> s4(arr), s4b(sa), s4c(arr, 4), s4d(arr, arr + 4);
    %(ns)s::span<const int, 4> cs4(s4), cs4b(csa), cs4c(arr);
    %(ns)s::span<int, 0> z;
    %(ns)s::span<const int> fromfixed(s4);
    a = b;
    long r = b.size() + b.size_bytes() + b.empty() + b[1] + b(1) + b.at(2) + b.front() + b.back() + *b.data() + *b.begin() + *(b.end() - 1) + *b.cbegin() + *(b.cend() - 1)
           + *b.rbegin() + *(b.rend() - 1) + *b.crbegin() + *(b.crend() - 1);
    r += b.first(2).size() + b.last(2).size() + b.subspan(1).size() + b.subspan(1, 2).size() + b.first<2>().size() + b.last<2>().size() + b.subspan<1>().size() + b.subspan<1, 2>().size();
    r += s4.first<2>().size() + s4.last(1).size() + s4.subspan<1>().size() + s4.subspan<1, 2>().size() + s4.size() + s4[0] + z.size() + z.empty();
    r += %(ns)s::make_span(b).size() + %(ns)s::make_span(arr).size() + %(ns)s::make_span(sa).size() + %(ns)s::make_span(csa).size() + %(ns)s::make_span(v).size() + %(ns)s::make_span(cv).size();
    r += %(ns)s::as_bytes(b).size() + %(ns)s::as_writable_bytes(b).size() + %(ns)s::as_bytes(cs4).size();
    r += %(ns)s::get<1>(s4);
    (void) c; (void) d; (void) e; (void) f; (void) g; (void) h; (void) i; (void) j; (void) k; (void) l; (void) m; (void) n2; (void) s4b; (void) s4c; (void) s4d; (void) cs4b; (void) cs4c; (void) fromfixed;
    return r;
}"""

H("xspan_impl.hpp", post=["vector", "array"], entries=[
    X("tcb::span<int>", "template class tcb::span<int>;"),
    X("tcb::span<const double,3>", "template class tcb::span<const double, 3>;"),
    X("tcb::span<int,0>", "template class tcb::span<int, 0>;"),
    C("tcb::span/constructor-templates-member-templates-free-functions", _SPAN_CALLS % {"n": "tcb", "ns": "tcb"}),
])

H("xspan.hpp", post=["vector", "array"], entries=[
    X("xtl::span<int>", "template class xtl::span<int>;"),
    X("xtl::span<const double,3>", "template class xtl::span<const double, 3>;"),
    C("xtl::span/constructor-templates-member-templates", """
long c19_xspan_calls()
{
    int arr[4] = {1, 2, 3, 4};
    std::vector<int> v(4, 1);
    std::array<int, 4> sa = {{1, 2, 3, 4}};
    xtl::span<int> a(arr, 4), b(arr, arr + 4), c(arr), d(v), e(sa);
    xtl::span<const int> k(a);
    xtl::span<int, 4> s4(arr);
    xtl::span<int, xtl::dynamic_extent> dyn(a);
    return a.size() + b[0] + c.first(1).size() + d.last<2>().size() + e.subspan(1, 2).size() + k.at(0) + s4.subspan<1, 2>().size() + dyn.size() + (xtl::dynamic_extent < 0);
}"""),
])

H("xsystem.hpp", entries=[
    C("executable_path-prefix_path", "unsigned long c19_system() { return xtl::executable_path().size() + xtl::prefix_path().size(); }"),
])

H("xtl_config.hpp", post=["stdexcept"], entries=[
    C("XTL_THROW-and-version-macros", """
#if !defined(XTL_VERSION_MAJOR) || !defined(XTL_VERSION_MINOR) || !defined(XTL_VERSION_PATCH)
#error "version macros missing"
#endif
int c19_config(int x)
{
    if (x == 12345)
        XTL_THROW(std::runtime_error, "c19");
    if (x == 12346) { XTL_THROW(std::out_of_range, "c19"); } else { x += 1; }
    return XTL_VERSION_MAJOR * 10000 + XTL_VERSION_MINOR * 100 + XTL_VERSION_PATCH + x;
}"""),
])

H("xtype_traits.hpp", post=["complex", "chrono"], entries=[
    X("traits", """
template struct xtl::is_scalar<int>;
template struct xtl::is_arithmetic<double>;
template struct xtl::is_fundamental<void>;
template struct xtl::is_signed<unsigned>;
template struct xtl::is_floating_point<float>;
template struct xtl::is_integral<long>;
template struct xtl::promote_type<int, double>;
template struct xtl::promote_type<std::complex<float>, double>;
template struct xtl::promote_type<unsigned char, signed char, short>;
template struct xtl::promote_type<bool>;
template struct xtl::big_promote_type<float>;
template struct xtl::real_promote_type<int>;
template struct xtl::bool_promote_type<int>;
template struct xtl::apply_cv<const int&, double>;
template struct xtl::constify<int&>;
template struct xtl::constify<int*>;
template struct xtl::conjunction<std::true_type>;
template struct xtl::all_scalar<int, double>;
template struct xtl::disjunction<std::false_type, std::true_type>;
template struct xtl::negation<std::false_type>;
template struct xtl::promote_type<std::complex<float>, std::complex<double> >;
template struct xtl::big_promote_type<std::complex<float> >;
"""),
    C("traits/aliases-and-constexpr", """
int c19_traits_calls()
{
    static_assert(std::is_same<xtl::promote_type_t<int, float>, float>::value, "promote");
    static_assert(std::is_same<xtl::apply_cv_t<const int, double>, const double>::value, "apply_cv");
    static_assert(std::is_same<xtl::constify_t<int&>, const int&>::value, "constify");
    static_assert(xtl::is_scalar<int>::value, "traits");
    return sizeof(xtl::big_promote_type_t<float>) + sizeof(xtl::real_promote_type_t<int>) + sizeof(xtl::bool_promote_type_t<int>);
}"""),
])

_VARIANT_CALLS = """
long c19_variant_calls_%(n)s()
{
    typedef %(ns)s::variant<int, double> V;
    typedef %(ns)s::variant<%(ns)s::monostate, int, std::string> W;
    V a, b(1), c(2.5), d(b), e(std::move(d)), f(%(ns)s::in_place_index_t<1>(), 3.5), g(%(ns)s::in_place_type_t<int>(), 4);
    W w, w2(std::string("x")), w3(%(ns)s::in_place_type_t<std::string>(), 3u, 'c'), w4(w2), w5(std::move(w4));
    const V cv(7);
    a = b; a = std::move(e); a = 2; a = 2.5; w = w2; w = std::string("y"); w = "literal";
    a.emplace<0>(5); a.emplace<int>(6); a.emplace<double>(1.5); w.emplace<std::string>("abc"); w.emplace<2>(2u, 'q');
    a.swap(b); swap(a, b);
    long r = a.index() + a.valueless_by_exception() + %(ns)s::holds_alternative<int>(a) + %(ns)s::holds_alternative<double>(cv);
    a = 1;
    r += %(ns)s::get<0>(a) + %(ns)s::get<int>(a) + %(ns)s::get<0>(cv) + %(ns)s::get<int>(cv) + %(ns)s::get<0>(V(3)) + %(ns)s::get<int>(V(3));
    r += *%(ns)s::get_if<0>(&a) + *%(ns)s::get_if<int>(&a) + *%(ns)s::get_if<0>(&cv) + *%(ns)s::get_if<int>(&cv) + (%(ns)s::get_if<double>(&a) == nullptr);
    r += %(ns)s::visit([](auto x) { return long(x); }, a) + %(ns)s::visit([](auto x, auto y) { return long(x + y); }, a, cv) + %(ns)s::visit([](const auto& x) { return long(sizeof(x)); }, w);
    r += (a == b) + (a != b) + (a < b) + (a <= b) + (a > b) + (a >= b) + (w == w2) + (w < w2);
    r += std::hash<V>()(a) %% 2 + std::hash<W>()(w) %% 2 + std::hash<%(ns)s::monostate>()(%(ns)s::monostate()) %% 2;
    r += %(ns)s::variant_size<V>::value + sizeof(%(ns)s::variant_alternative_t<1, V>) + (%(ns)s::variant_npos == static_cast<std::size_t>(-1));
    %(ns)s::monostate m1, m2; r += (m1 == m2) + (m1 != m2) + (m1 < m2) + (m1 <= m2) + (m1 > m2) + (m1 >= m2);
    %(ns)s::bad_variant_access bva; r += bva.what()[0];
    (void) c; (void) f; (void) g; (void) w3; (void) w5;
    return r;
}"""

H("xvariant_impl.hpp", post=["string", "functional"], entries=[
    X("mpark::variant<int,double>", "template class mpark::variant<int, double>;"),
    X("mpark::variant<monostate,int,std::string>", "template class mpark::variant<mpark::monostate, int, std::string>;"),
    C("mpark::variant/constructor-templates-get-visit-operators", (_VARIANT_CALLS % {"n": "mpark", "ns": "mpark"})),
])

H("xvariant.hpp", post=["string", "functional"], entries=[
    X("xtl::variant<int,double>", "template class xtl::variant<int, double>;"),
    C("xtl::variant/constructor-templates-get-visit-operators", (_VARIANT_CALLS % {"n": "xtl", "ns": "xtl"}).replace("xtl::in_place_index_t<1>()", "mpark::in_place_index_t<1>()").replace("xtl::in_place_type_t<", "mpark::in_place_type_t<")),
    C("xget-and-overload-helpers", """
int c19_xget_calls()
{
    int i = 1; const int ci = 2;
    typedef xtl::variant<int, xtl::xclosure_wrapper<int&>, xtl::xclosure_wrapper<const int&> > V;
    V byval(3), byref(xtl::closure(i)), bycref(xtl::closure(ci));
    const V cbyval(4), cbyref(xtl::closure(i)), cbycref(xtl::closure(ci));
    int r = xtl::xget<int>(byval) + xtl::xget<int>(cbyval) + xtl::xget<int>(V(5)) + xtl::xget<int&>(byref) + xtl::xget<int&>(cbyref) + xtl::xget<int&>(V(xtl::closure(i)))
          + xtl::xget<const int&>(bycref) + xtl::xget<const int&>(byref) + xtl::xget<const int&>(cbyref) + xtl::xget<const int&>(V(xtl::closure(ci)))
          + xtl::xget<int>(std::move(cbyval)) + xtl::xget<int&>(std::move(cbyref)) + xtl::xget<const int&>(std::move(cbycref));
    auto ov = xtl::make_overload([](int x) { return x; }, [](double) { return -1; });
    return r + ov(3) + ov(2.5);
}"""),
])

_VIS_PRELUDE = """
namespace c19v
{
    struct node : xtl::base_visitable<int> {};
    struct leaf1 : node { XTL_DEFINE_VISITABLE() };
    struct leaf2 : node { XTL_DEFINE_VISITABLE() };
    struct cnode : xtl::base_visitable<int, true, xtl::throwing_catch_all> {};
    struct cleaf : cnode { XTL_DEFINE_CONST_VISITABLE() };
    struct vnode : xtl::base_visitable<> {};
    struct vleaf : vnode { XTL_DEFINE_VISITABLE() };
    struct vis12 : xtl::base_visitor, xtl::visitor<xtl::mpl::vector<leaf1, leaf2>, int, false>
    {
        int visit(leaf1&) override { return 1; }
        int visit(leaf2&) override { return 2; }
    };
    struct cvis : xtl::base_visitor, xtl::visitor<cleaf, int, true> { int visit(const cleaf&) override { return 3; } };
    struct vvis : xtl::base_visitor, xtl::visitor<vleaf, void, false> { void visit(vleaf&) override {} };
    struct cyc1; struct cyc2;
    struct cycvis : xtl::cyclic_visitor<xtl::mpl::vector<cyc1, cyc2>, int, false>
    {
        int visit(cyc1&) override { return 4; }
        int visit(cyc2&) override { return 5; }
    };
    struct cycbase { virtual ~cycbase() {} virtual int accept(cycvis&) = 0; };
    struct cyc1 : cycbase { XTL_DEFINE_CYCLIC_VISITABLE(cycvis) };
    struct cyc2 : cycbase { XTL_DEFINE_CYCLIC_VISITABLE(cycvis) };
}
"""

H("xvisitor.hpp", prelude=_VIS_PRELUDE, entries=[
    X("visitor<T,R,is_const>", "template class xtl::visitor<c19v::leaf1, int, false>;\ntemplate class xtl::visitor<c19v::cleaf, int, true>;\ntemplate class xtl::visitor<xtl::mpl::vector<c19v::leaf1, c19v::leaf2>, int, false>;\ntemplate class xtl::visitor<xtl::mpl::vector<>, int, true>;"),
    X("base_visitable<R,const,catch_all>", "template class xtl::base_visitable<int, false, xtl::default_catch_all>;\ntemplate class xtl::base_visitable<int, true, xtl::throwing_catch_all>;\ntemplate class xtl::base_visitable<void, false, xtl::default_catch_all>;"),
    X("catch_all-policies", "template struct xtl::default_catch_all<int, c19v::leaf1>;\ntemplate struct xtl::throwing_catch_all<int, const c19v::cleaf>;\ntemplate struct xtl::default_catch_all<void, c19v::vleaf>;"),
    X("cyclic_visitor<vector<...>,int,false>", "template class xtl::cyclic_visitor<xtl::mpl::vector<c19v::cyc1, c19v::cyc2>, int, false>;"),
    C("visitors/accept-and-generic_visit", """
int c19_visitor_calls()
{
    using namespace c19v;
    leaf1 l1; leaf2 l2; const cleaf cl; vleaf vl; cyc1 c1; cyc2 c2;
    vis12 v; cvis cv; vvis vv; cycvis cy;
    node& n1 = l1; node& n2 = l2; const cnode& cn = cl; vnode& vn = vl; cycbase& b1 = c1; cycbase& b2 = c2;
    vn.accept(vv); vn.accept(v);
    return n1.accept(v) + n2.accept(v) + n1.accept(cv) + cn.accept(cv) + b1.accept(cy) + b2.accept(cy);
}"""),
])
