"""C19 every header is self-contained in every supported build configuration: exhaustive CONFIGURATION enumeration.

The 'execution' is a compiler / linker / program run.  Six units, each the full cartesian product of a stated
finite space (see NOTES.md):

  U1 include   every header under include/xtl x {single, double include} x {g++, clang++} x {c++14,17,20}
               x {exceptions, -fno-exceptions}: -fsyntax-only -Werror=return-type on a generated TU whose only
               includes are the header (once / twice), followed by a tiny witness that uses the header.
  U2 pairs     every ordered pair (a, b), a != b, of headers in one TU, followed by both witnesses (thorough tier: all
               12 configurations; the quick tier has no U2, see tier_space()).
  U3 link      per configuration: two TUs that include ALL headers (alphabetical / reverse order) and use every
               non-template function (link_body.inc), linked as a 1-TU and as a 2-TU program, both run; for g++
               additionally TU0 with -fkeep-inline-functions (every non-template inline function is emitted) whose
               symbol table must not refer to any xtl symbol it does not define.
  U4 errpaths  per configuration one program with 17 error-path scenarios (errpaths.cpp), each run in its own
               process: with exceptions the documented exception must arrive (anti-vacuity, noted only); with
               -fno-exceptions the process must end inside the failing call.

  U5 instantiate per header one TU with every entry of the committed table instantiations.py (explicit instantiation
               definitions of the class templates + calls of every constructor / member / function template), built -O0
               and linked; a failing TU is rebuilt entry by entry and reported as header:entry/member.

  U6 invariance  the corpus of use programs generated from the tables of uses.py (header x entry point x kind of argument /
               template argument), batched into programs that are compiled -O0, linked and RUN per configuration: the verdict of
               a use (builds / exit status / returned value) must be the same in every configuration; a use that builds under one
               configuration and is rejected (or behaves differently) under another is the violation.

Oracle: exit status and diagnostics of compiler and linker, exit status / signal / printed markers of the programs; for U6 the
verdict of the same source text in the other configurations.
"""
import collections
import itertools
import json
import os
import re
import shutil
import signal
import subprocess
import threading
import time

import vlib
from witnesses import WITNESS, MACRO_ONLY

LEVEL = "exploration"
HERE = os.path.dirname(os.path.abspath(__file__))
GENDIR = os.path.join(vlib.BUILD, "C19", "run-%d" % os.getpid())
EXTINC = os.path.join(GENDIR, "ext")
WORKERS = int(os.environ.get("VERIF_JOBS", "0") or 0) or min(vlib.NCPU, 16)

CCS = ("g++", "clang++")
STDS = ("c++14", "c++17", "c++20")
EXCS = ("exceptions", "fno-exceptions")
ALL_CFGS = [(cc, std, exc) for cc in CCS for std in STDS for exc in EXCS]

# own wall-clock budgets (seconds after the start of the run); the driver's deadline applies as well
BUDGET = {"quick": 170, "thorough": 1680}
JSON_DIRS = ["/root/miniconda/include", "/usr/include", "/usr/local/include"]

_lock = threading.Lock()


def stat(ctx, k, v):
    with _lock:
        ctx.stat(k, v)


# ---- tools ---------------------------------------------------------------------------------------------------

def cfg_name(cfg):
    return "%s -std=%s %s" % (cfg[0], cfg[1], "-fno-exceptions" if cfg[2] == "fno-exceptions" else "(exceptions on)")


def cfg_slug(cfg):
    return "%s-%s-%s" % (cfg[0].replace("+", "x"), cfg[1].replace("+", "x"), "noexc" if cfg[2] == "fno-exceptions" else "exc")


def cc_cmd(cfg, extra=()):
    cc, std, exc = cfg
    cmd = [cc, "-std=" + std]
    if exc == "fno-exceptions":
        cmd.append("-fno-exceptions")
    cmd += ["-I" + vlib.INCLUDE, "-isystem", EXTINC, "-Werror=return-type"]
    if cc.startswith("clang"):
        cmd += ["-fno-caret-diagnostics", "-ferror-limit=8"]
    else:
        cmd += ["-fno-diagnostics-show-caret", "-fmax-errors=8"]
    return cmd + list(extra)


def run_tool(cmd, timeout=600, cwd=None):
    """-> (rc, stdout, stderr); rc < 0 = killed by that signal. A timeout is a harness error (never a verdict)."""
    try:
        r = subprocess.run(cmd, stdout=subprocess.PIPE, stderr=subprocess.PIPE, timeout=timeout, cwd=cwd)
    except subprocess.TimeoutExpired:
        raise vlib.HarnessError("tool timeout after %ss: %s" % (timeout, " ".join(cmd)))
    return r.returncode, r.stdout.decode("utf-8", "replace"), r.stderr.decode("utf-8", "replace")


def first_error(err):
    for ln in err.splitlines():
        if re.search(r"\berror\b|multiple definition|undefined reference", ln):
            ln = ln.strip().replace(GENDIR + "/", "").replace(vlib.INCLUDE + "/", "")
            return re.sub(r"\s+", " ", ln)[:300]
    return re.sub(r"\s+", " ", err.strip())[:300]


def write_file(path, text):
    os.makedirs(os.path.dirname(path), exist_ok=True)
    with open(path, "w") as f:
        f.write(text)


def setup_ext(ctx):
    """Private include directory that exposes ONLY nlohmann/ (the optional dependency of xjson.hpp), so that nothing
    else of the directory it was found in (other installed packages) can leak into a compile."""
    os.makedirs(EXTINC, exist_ok=True)
    for d in JSON_DIRS:
        if os.path.exists(os.path.join(d, "nlohmann", "json.hpp")):
            link = os.path.join(EXTINC, "nlohmann")
            if not os.path.lexists(link):
                os.symlink(os.path.join(d, "nlohmann"), link)
            return d
    return None


def list_headers():
    d = os.path.join(vlib.INCLUDE, "xtl")
    return sorted(f for f in os.listdir(d) if f.endswith(".hpp") or f.endswith(".h"))


def include_closure(headers):
    """header -> set of xtl headers it includes, transitively (textual scan of the tree as it is now)."""
    direct = {}
    for h in headers:
        txt = open(os.path.join(vlib.INCLUDE, "xtl", h), errors="replace").read()
        inc = set()
        for m in re.finditer(r'^\s*#\s*include\s*[<"](?:xtl/)?([A-Za-z0-9_]+\.hpp)[>"]', txt, re.M):
            if m.group(1) in headers:
                inc.add(m.group(1))
        direct[h] = inc
    clo = {}
    for h in headers:
        seen, todo = set(), [h]
        while todo:
            x = todo.pop()
            for y in direct.get(x, ()):
                if y not in seen:
                    seen.add(y)
                    todo.append(y)
        clo[h] = seen
    return clo


def cfgclass(fail, run):
    """Stable description of the set of failing configurations relative to those that were run."""
    fail, run = sorted(set(fail)), sorted(set(run))
    if fail == run:
        return "all-configurations"
    dims = [sorted(set(c[i] for c in fail)) for i in range(3)]
    rdims = [sorted(set(c[i] for c in run)) for i in range(3)]
    prod = sorted(c for c in itertools.product(*dims) if c in run)
    if prod == fail:
        parts = ["|".join(dims[i]) for i in range(3) if dims[i] != rdims[i]]
        return ",".join(parts) if parts else "all-configurations"
    return "mixed:" + ",".join(cfg_slug(c) for c in fail)


class Budget(object):
    def __init__(self, ctx):
        self.ctx = ctx
        self.soft = ctx.t0 + float(os.environ.get("C19_BUDGET_S", BUDGET[ctx.tier]))

    def left(self):
        return min(self.ctx.time_left() - 20, self.soft - time.time())


# ---- U1 / U2: generated include TUs -----------------------------------------------------------------------------

def tu_text(hdrs, witness=True):
    lines = ["// generated by checks/C19/check.py: the includes below are the only includes of this translation unit"]
    for h in hdrs:
        lines.append("#include <xtl/%s>" % h)
    if witness:
        seen = []
        for h in hdrs:
            if h in WITNESS and h not in seen:
                seen.append(h)
                lines.append("// witness for %s" % h)
                lines.append(WITNESS[h])
    return "\n".join(lines) + "\n"


def compile_include_tu(tag, hdrs, cfg):
    """-> ('ok', '') | ('does-not-compile', diag) | ('facility-unusable', diag)"""
    path = os.path.join(GENDIR, "inc", cfg_slug(cfg), tag + ".cpp")
    write_file(path, tu_text(hdrs, True))
    try:
        rc, _, err = run_tool(cc_cmd(cfg, ["-fsyntax-only", path]))
        if rc == 0:
            return "ok", ""
        bare = path[:-4] + "-bare.cpp"
        write_file(bare, tu_text(hdrs, False))
        try:
            rc2, _, err2 = run_tool(cc_cmd(cfg, ["-fsyntax-only", bare]))
        finally:
            os.unlink(bare)
        if rc2 != 0:
            return "does-not-compile", first_error(err2)
        return "facility-unusable", first_error(err)
    finally:
        os.unlink(path)


def header_available(h, jsondir):
    return not (h == "xjson.hpp" and jsondir is None)


def run_includes(ctx, bud, cases, workers=WORKERS):
    """U1. cases = [(header, 'single'|'double', cfg)] -> results[case] = (status, diag)."""
    results = {}
    skipped = [0]

    def job(case):
        h, m, c = case
        if bud.left() < 0:
            with _lock:
                skipped[0] += 1
            return
        r = compile_include_tu("%s-%s" % (h.replace(".", "_"), m), [h] * (2 if m == "double" else 1), c)
        with _lock:
            results[case] = r

    vlib.parallel([(lambda case=case: job(case)) for case in cases], workers=workers)
    if skipped[0]:
        ctx.cap("U1 include: deadline reached, %d of %d (header, include mode, configuration) cases were not compiled" % (skipped[0], len(cases)))
    return results


def judge_includes(ctx, results, clo=None, declared=None):
    """violations of U1. Returns the set of (header, cfg) whose single include fails (everything else built on such a
    header in that configuration is an implied failure and is not reported again).
    clo: header -> xtl headers it includes transitively; a header that fails in a configuration in which a header it
    includes fails too is an implied failure (one broken header = one report, not one per header that includes it).
    declared: (header, mode) -> configurations of the original run (replay: only the failing ones are re-executed, the
    configuration class of the signature is relative to the declared ones)."""
    clo = clo or {}
    by_hm = collections.defaultdict(dict)
    for (h, m, c), r in results.items():
        by_hm[(h, m)][c] = r
    broken = set()
    for (h, m), per in sorted(by_hm.items()):
        if m == "single":
            for c, r in per.items():
                if r[0] != "ok":
                    broken.add((h, c))
    n_implied = 0
    for (h, m), per in sorted(by_hm.items()):
        for kind in ("does-not-compile", "facility-unusable"):
            fail = []
            for c, r in per.items():
                if r[0] != kind:
                    continue
                if (m == "double" and (h, c) in broken) or any((g, c) in broken for g in clo.get(h, ())):
                    n_implied += 1
                    continue
                fail.append(c)
            if not fail:
                continue
            run = declared[(h, m)] if declared else [c for c in per]
            sig = "C19/%s/%s-include/%s@%s" % (h, m, kind, cfgclass(fail, run))
            c0 = sorted(fail)[0]
            what = ("the header does not compile when it is the only include of a translation unit" if kind == "does-not-compile" else
                    "the header compiles alone but its own facility cannot be used with no other include (witness: %s)" % (WITNESS.get(h, "") or "-").splitlines()[-1][:160])
            if m == "double":
                what = "the header compiles when included once but not when included twice in the same translation unit"
            msg = "%s, %s include: %s. Fails in %d of %d configurations (%s); first diagnostic [%s]: %s. Expected: compiles in every configuration." % (
                h, m, what, len(fail), len(run), "; ".join(cfg_name(c) for c in sorted(fail)), cfg_name(c0), per[c0][1])
            ctx.violation(sig, msg, harness="c19-include", args=[json.dumps({"kind": "include", "header": h, "mode": m, "fail": sorted(fail), "cfgs": sorted(run)})])
    if n_implied:
        stat(ctx, "implied_failures_not_reported_separately", n_implied)
    return broken


def run_pairs(ctx, bud, headers, cfgs, pairs=None):
    """U2. -> results[(a, b, cfg)] = (status, diag)"""
    if pairs is None:
        pairs = [(a, b) for a in headers for b in headers if a != b]
    results = {}
    skipped = collections.Counter()
    total = collections.Counter()

    def job(a, b, c):
        if bud.left() < 0:
            with _lock:
                skipped[c] += 1
            return
        r = compile_include_tu("%s-then-%s" % (a.replace(".", "_"), b.replace(".", "_")), [a, b], c)
        with _lock:
            results[(a, b, c)] = r

    jobs = []
    for c in cfgs:  # configuration-major: a deadline cuts whole configurations off the end, not a random subset
        for a, b in pairs:
            total[c] += 1
            jobs.append(lambda a=a, b=b, c=c: job(a, b, c))
    vlib.parallel(jobs, workers=WORKERS)
    done = [c for c in cfgs if not skipped[c]]
    for c in cfgs:
        if skipped[c]:
            ctx.cap("U2 pairs [%s]: deadline reached, %d of %d ordered pairs were not compiled" % (cfg_name(c), skipped[c], total[c]))
    return results, done


def group_pairs(failing):
    """failing: set of (a, b). -> list of (sig, [(a, b)...]); one bug in one header must not give dozens of signatures."""
    left = set(failing)
    out = []
    firsts = collections.defaultdict(list)
    for a, b in sorted(left):
        firsts[a].append((a, b))
    for a, ps in sorted(firsts.items()):
        if len(ps) >= 3:
            out.append(("C19/%s/included-first/breaks-following-headers" % a, ps))
            left -= set(ps)
    seconds = collections.defaultdict(list)
    for a, b in sorted(left):
        seconds[b].append((a, b))
    for b, ps in sorted(seconds.items()):
        if len(ps) >= 3:
            out.append(("C19/%s/included-second/broken-by-preceding-headers" % b, ps))
            left -= set(ps)
    for a, b in sorted(left):
        out.append(("C19/%s/included-before-%s/order-dependent" % (a, b), [(a, b)]))
    return out


def judge_pairs(ctx, results, broken):
    fail = collections.defaultdict(list)  # (a,b) -> [(cfg, status, diag)]
    implied = 0
    for (a, b, c), r in results.items():
        if r[0] == "ok":
            continue
        if (a, c) in broken or (b, c) in broken:
            implied += 1
            continue
        fail[(a, b)].append((c, r[0], r[1]))
    if implied:
        ctx.stat("implied_failures_not_reported_separately", implied)
    cfgs_run = sorted(set(c for (_, _, c) in results))
    for sig, ps in group_pairs(set(fail)):
        a, b = ps[0]
        c, st, diag = sorted(fail[(a, b)])[0]
        cf = sorted(set(x[0] for p in ps for x in fail[p]))
        msg = ("%d ordered pair(s) of headers fail in one translation unit although each header compiles alone in the same configuration: %s. "
               "Configurations: %s. Example '#include <xtl/%s>' then '#include <xtl/%s>' [%s] %s: %s. Expected: headers can be included in any order." % (
                   len(ps), ", ".join("%s->%s" % p for p in ps[:12]) + (" ..." if len(ps) > 12 else ""), "; ".join(cfg_name(x) for x in cf), a, b, cfg_name(c), st, diag))
        ctx.violation(sig, msg, harness="c19-pairs", args=[json.dumps({"kind": "pairs", "pairs": ps, "cfgs": [c]})])


# ---- U5: instantiation TUs ---------------------------------------------------------------------------------------------

def inst_tu_text(header, entries):
    from instantiations import INST
    spec = INST[header]
    lines = ["// generated by checks/C19/check.py from instantiations.py: header under test first, then what the instantiation arguments need"]
    lines.append("#include <xtl/%s>" % header)
    for h in spec.get("also", ()):
        lines.append("#include <xtl/%s>  // a user of the header under test includes this one as well" % h)
    for h in spec.get("post", ()):
        lines.append("#include <%s>" % h)
    if spec.get("prelude"):
        lines.append(spec["prelude"])
    for e in entries:
        lines.append("// ---- %s [%s]" % (e["id"], e["mode"]))
        lines.append(e["code"])
    lines.append("int main() { return 0; }")
    return "\n".join(lines) + "\n"


def build_inst_tu(tag, header, entries, cfg):
    """Compile (-O0, real code generation) and link one instantiation TU. -> (ok, first diagnostic)."""
    d = os.path.join(GENDIR, "inst", cfg_slug(cfg))
    src = os.path.join(d, "%s-%s.cpp" % (header.replace(".", "_"), tag))
    exe = src[:-4]
    write_file(src, inst_tu_text(header, entries))
    try:
        rc, _, err = run_tool(cc_cmd(cfg, ["-O0", src, "-o", exe]), timeout=900)
        return (rc == 0), ("" if rc == 0 else diag_with_member(err))
    finally:
        for f in (src, exe):
            if os.path.exists(f):
                os.unlink(f)


def diag_with_member(err):
    """first error line, prefixed with the member function the compiler was instantiating (when it says so)"""
    member = member_of(err)
    return ("[in %s] " % member if member else "") + first_error(err)


def member_of(err):
    """Best-effort name of the member whose instantiation failed, from g++ / clang++ / ld diagnostics; identifiers only."""
    lines = err.replace("\u2018", "'").replace("\u2019", "'").splitlines()
    idx = next((i for i, ln in enumerate(lines) if re.search(r"\berror\b|undefined reference", ln)), None)
    if idx is None:
        return None
    m = re.search(r"undefined reference to [`']([^']+)'", lines[idx])
    if m:
        return re.sub(r"\(.*$", "", re.sub(r"<[^<>]*>", "", re.sub(r"<[^<>]*>", "", m.group(1)))).strip()
    cands = []
    for ln in lines[max(0, idx - 12):idx + 12]:
        for pat in (r"In instantiation of '(?:constexpr |static |virtual |inline )*(?:[\w:<>,\s\*&]+? )?([\w:~]+(?:<[^']*?>)?::~?[\w]+|[\w:]+::operator[^\(]+)\(",
                    r"in instantiation of member function '([^']+)'", r"in instantiation of function template specialization '([^']+)'",
                    r"In member function '(?:[\w:<>,\s\*&]+? )?([\w:~<>, ]+::~?\w+)\(", r"In instantiation of '([^']+)'"):
            m = re.search(pat, ln)
            if m:
                cands.append(m.group(1))
                break
    if not cands:
        return None
    name = cands[0]
    for _ in range(4):
        name = re.sub(r"<[^<>]*>", "", name)
    name = re.sub(r"\(.*$", "", name).strip()
    name = name.split(" ")[-1] if "operator" not in name else name[name.index(name.split("operator")[0].split(" ")[-1]):]
    return name[:80] or None


def run_inst(ctx, bud, headers, cfgs, workers=WORKERS):
    """U5. One TU per (header, configuration) with every judged entry of the table; on failure every entry is built alone
    to attribute it. -> results[(header, cfg)] = list of (entry, diag) that fail ([] = all entries fine), n_entries judged."""
    from instantiations import INST
    results = {}
    skipped = [0]
    cases = [(h, c) for c in cfgs for h in headers if h in INST]

    def job(h, c):
        if bud.left() < 0:
            with _lock:
                skipped[0] += 1
            return
        entries = [e for e in INST[h]["entries"] if e["mode"] != "excluded"]
        ok, diag = build_inst_tu("all", h, entries, c)
        stat(ctx, "tool_runs", 1)
        bad = []
        if not ok:
            for i, e in enumerate(entries):
                ok1, d1 = build_inst_tu("e%d" % i, h, [e], c)
                stat(ctx, "tool_runs", 1)
                if not ok1:
                    bad.append((e, d1))
            if not bad:
                bad.append(({"id": "all-entries-together", "mode": "combined", "code": ""}, diag))
        with _lock:
            results[(h, c)] = bad

    vlib.parallel([(lambda h=h, c=c: job(h, c)) for h, c in cases], workers=workers)
    if skipped[0]:
        ctx.cap("U5 instantiation: deadline reached, %d of %d (header, configuration) translation units were not built" % (skipped[0], len(cases)))
    missing = [h for h in headers if h not in INST]
    if missing:
        ctx.note("headers without an entry in instantiations.py (U5 does not cover them): %s" % ", ".join(missing))
    return results


def judge_inst(ctx, results, broken=(), clo=None):
    from instantiations import INST
    clo = clo or {}
    agg = collections.OrderedDict()  # (header, entry id) -> [(cfg, diag, mode)]
    run = collections.defaultdict(list)
    for (h, c), bad in sorted(results.items()):
        run[h].append(c)
        for e, diag in bad:
            if (h, c) in broken or any((g, c) in broken for g in clo.get(h, ())) or any((g, c) in broken for g in INST[h].get("also", ())):
                stat(ctx, "implied_failures_not_reported_separately", 1)
                continue
            agg.setdefault((h, e["id"]), []).append((c, diag, e["mode"]))
    # one defect in a base class or in a shared helper fails several entries of the header at the same source location:
    # report it once, under the first entry (table order) that hits it, and name the others in the message
    order = {}
    for h in INST:
        for n, e in enumerate(INST[h]["entries"]):
            order[(h, e["id"])] = n
    groups = collections.OrderedDict()
    for (h, eid), lst in sorted(agg.items(), key=lambda kv: (kv[0][0], order.get(kv[0], 999))):
        lst.sort()
        c0, diag0, mode = lst[0]
        m = re.match(r"\[in ([^\]]+)\] ", diag0)
        member = (m.group(1).split("::")[-1] if m else "unattributed").replace("/", "_")
        loc = re.search(r"([\w/]+\.hpp:\d+)", diag0)
        key = (h, member, loc.group(1) if loc else diag0[-80:])
        groups.setdefault(key, []).append((eid, lst, mode))
    for (h, member, _), items in groups.items():
        eid, lst, mode = items[0]
        c0, diag0, _m = lst[0]
        fail = sorted(set(c for _, l, _ in items for c, _, _ in l))
        sig = "C19/%s:%s/%s/instantiation-ill-formed" % (h, eid.replace("/", "|"), member)
        what = {"explicit": "the explicit instantiation definition of this class (every non-template member) built on the unchanged tree in all 12 configurations when instantiations.py was written and does not build now",
                "calls": "the calls to the constructor / member / function templates of this entry built on the unchanged tree in all 12 configurations and do not build now",
                "combined": "every entry builds alone but the translation unit with all entries of the header does not"}[mode]
        others = "" if len(items) == 1 else " The same diagnostic also fails the entries: %s." % "; ".join("'%s'" % x[0] for x in items[1:])
        msg = "%s, entry '%s' [%s]: %s. Fails in %d of %d configurations of this tier (%s; class: %s). First diagnostic [%s]: %s.%s Expected: compiles -O0 and links in every configuration." % (
            h, eid, mode, what, len(fail), len(run[h]), "; ".join(cfg_name(c) for c in fail), cfgclass(fail, run[h]), cfg_name(c0), diag0, others)
        ctx.violation(sig, msg, harness="c19-inst", args=[json.dumps({"kind": "inst", "header": h, "entry": eid, "cfg": list(c0)})])


def probe_excluded(ctx, bud, cfgs):
    """entries in mode 'calls' that are a FALLBACK, and 'excluded' entries, keep the ill-formed explicit form: tell the evidence when it became well-formed"""
    from instantiations import INST
    jobs = [(h, e, c) for h in INST for e in INST[h]["entries"] if e.get("explicit_probe") for c in cfgs]
    if bud.left() < 60:
        return

    def job(i, h, e, c):
        ok, _ = build_inst_tu("xp%d" % i, h, [dict(e, code=e["explicit_probe"])], c)
        stat(ctx, "tool_runs", 1)
        return ok

    res = vlib.parallel([(lambda i=i, j=j: job(i, *j)) for i, j in enumerate(jobs)], workers=WORKERS)
    n_ill = 0
    for (h, e, c), ok in zip(jobs, res):
        if ok:
            ctx.note("capability probe: %s '%s' is NOW WELL-FORMED as an explicit instantiation / excluded member under %s; instantiations.py can be upgraded (recorded reason it was not: %s)" % (h, e["id"], cfg_name(c), e.get("why")))
        else:
            n_ill += 1
    stat(ctx, "u5_capability_probes_still_ill_formed", n_ill)
    stat(ctx, "u5_capability_probes", len(jobs))


# ---- U6: configuration invariance of USE programs ------------------------------------------------------------------------

def _unlimited_errors(cfg):
    return ["-ferror-limit=0"] if cfg[0].startswith("clang") else ["-fmax-errors=0"]


def build_use_tus(tag, batch, uses, cfg):
    """Build (compile -O0, link) and run the translation unit(s) of `uses` in one configuration.
    -> ('ok', [value per use]) | ('build', candidate indices named by the diagnostics, first diagnostic)
       | ('run', [values of the uses that completed], index of the use that did not complete, fate)"""
    import uses as U
    d = os.path.join(GENDIR, "use", cfg_slug(cfg))
    base = os.path.join(d, "%s-%s" % (batch["name"], tag))
    srcs = [base + "-tu0.cpp"]
    text, linemap = U.tu_text(batch, uses, 0, True)
    write_file(srcs[0], text)
    if batch["two_tu"]:
        srcs.append(base + "-tu1.cpp")
        write_file(srcs[1], U.tu_text(batch, uses, 1, False)[0])
    exe = base + ".exe"
    try:
        rc, _, err = run_tool(cc_cmd(cfg, _unlimited_errors(cfg) + ["-O0"] + srcs + ["-o", exe]), timeout=900)
        if rc != 0:
            cand = set()
            names = [re.escape(os.path.basename(s)) for s in srcs]
            for m in re.finditer(r"(?:%s):(\d+)[:,]" % "|".join(names), err):
                if int(m.group(1)) in linemap:
                    cand.add(linemap[int(m.group(1))])
            for m in re.finditer(r"\bc19_[uv](\d+)\(\)", err):
                if int(m.group(1)) < len(uses):
                    cand.add(int(m.group(1)))
            return ("build", sorted(cand), diag_with_member(err))
        try:
            r = subprocess.run([exe], stdout=subprocess.PIPE, stderr=subprocess.PIPE, timeout=120)
            prc, out = r.returncode, r.stdout.decode("utf-8", "replace")
        except subprocess.TimeoutExpired:
            prc, out = "timeout", ""
        vals = {}
        for ln in out.splitlines():
            p = ln.split()
            if len(p) == 3 and p[0] in ("U", "V") and p[1].isdigit():
                vals.setdefault(int(p[1]), []).append(p[0] + "=" + p[2])
        need = 2 if batch["two_tu"] else 1
        done = []
        for i in range(len(uses)):
            if len(vals.get(i, ())) == need:
                done.append(",".join(vals[i]))
            else:
                fate = ("killed-by-signal-%d" % -prc) if isinstance(prc, int) and prc < 0 else ("exit-status-%s" % prc)
                return ("run", done, i, fate)
        if prc != 0:
            return ("run", done[:-1], len(uses) - 1, "exit-status-%s" % prc)
        return ("ok", done)
    finally:
        for f in srcs + [exe]:
            if os.path.exists(f):
                os.unlink(f)


def eval_use_batch(ctx, batch, cfg):
    """Verdict of every use of the batch in one configuration: idx -> ('ok', value) | ('rejected', diag) | ('run-fail', fate).
    The whole batch is built as one program; only if that fails are uses attributed (those the diagnostics name are built
    alone, the rest is rebuilt together), so the cost on a healthy tree is one build per (batch, configuration)."""
    verdict = {}
    pending = list(range(len(batch["uses"])))
    rounds = 0
    while pending:
        rounds += 1
        uses = [batch["uses"][i] for i in pending]
        r = build_use_tus("r%d" % rounds, batch, uses, cfg)
        stat(ctx, "tool_runs", 2)
        if rounds > 1:
            stat(ctx, "u6_attribution_builds", 1)
        if r[0] == "ok":
            for k, i in enumerate(pending):
                verdict[i] = ("ok", r[1][k])
            break
        if r[0] == "run":
            for k, v in enumerate(r[1]):
                verdict[pending[k]] = ("ok", v)
            verdict[pending[r[2]]] = ("run-fail", r[3])
            pending = pending[r[2] + 1:]
            continue
        if len(pending) == 1:
            verdict[pending[0]] = ("rejected", r[2])
            break
        cand = r[1] if (r[1] and rounds <= 8) else list(range(len(pending)))  # nothing attributable: every use alone
        for k in cand:
            r1 = build_use_tus("s%d-%d" % (rounds, k), batch, [uses[k]], cfg)
            stat(ctx, "tool_runs", 2)
            stat(ctx, "u6_attribution_builds", 1)
            verdict[pending[k]] = ("ok", r1[1][0]) if r1[0] == "ok" else ("rejected", r1[2]) if r1[0] == "build" else ("run-fail", r1[3])
        cs = set(cand)
        pending = [i for k, i in enumerate(pending) if k not in cs]
    return verdict


def run_uses(ctx, bud, batches, cfgs, headers, workers=WORKERS, what="U6 uses"):
    """-> results[(batch name, cfg)] = {use index: verdict}"""
    results = {}
    skipped = [0]
    cases = [(b, c) for c in cfgs for b in batches if b["header"] in headers and all(h in headers for h in b["also"])]

    def job(b, c):
        if bud.left() < 0:
            with _lock:
                skipped[0] += 1
            return
        v = eval_use_batch(ctx, b, c)
        with _lock:
            results[(b["name"], c)] = v

    vlib.parallel([(lambda b=b, c=c: job(b, c)) for b, c in cases], workers=workers)
    if skipped[0]:
        ctx.cap("%s: deadline reached, %d of %d (batch of uses, configuration) programs were not built" % (what, skipped[0], len(cases)))
    return results


def _vclass(v):
    return ("ok", v[1]) if v[0] == "ok" else ("rejected",) if v[0] == "rejected" else ("run-fail", v[1])


def judge_uses(ctx, batches, results, broken=(), clo=None, declared=None, probes=False):
    """Invariance oracle: the verdict of a use must be the same in all configurations in which it was evaluated.
    -> (number of (use, configuration) verdicts, set of non-trivial cases, number of uses rejected everywhere)"""
    clo = clo or {}
    n_cases = 0
    nt = set()
    n_rej_all = 0
    n_acc_all = 0
    classes = set()
    groups = collections.OrderedDict()
    for b in batches:
        hs = [b["header"]] + list(b["also"])
        for i, u in enumerate(b["uses"]):
            per = {}
            for c in ALL_CFGS:
                r = results.get((b["name"], c))
                if r is None or i not in r:
                    continue
                if any((h, c) in broken or any((g, c) in broken for g in clo.get(h, ())) for h in hs):
                    stat(ctx, "implied_failures_not_reported_separately", 1)
                    continue
                per[c] = r[i]
            if not per:
                continue
            n_cases += len(per)
            cl = collections.OrderedDict()
            for c in sorted(per, key=ALL_CFGS.index):
                cl.setdefault(_vclass(per[c]), []).append(c)
                classes.add((u["id"], _vclass(per[c])))
                if per[c][0] == "ok":
                    nt.add(("use", u["id"], c))
            run = declared if declared else sorted(per)
            if len(cl) == 1:
                k = list(cl)[0]
                if k[0] == "rejected":
                    n_rej_all += 1
                    if not probes:
                        ctx.note("U6 capability: use '%s | %s | %s' is rejected in every configuration evaluated (%d): not part of the corpus (first diagnostic: %s)" % (u["id"] + (len(per), list(per.values())[0][1][:200])))
                elif k[0] == "ok":
                    n_acc_all += 1
                    if probes and len(per) == len(ALL_CFGS):
                        ctx.note("U6 capability probe '%s | %s | %s' is NOW ACCEPTED in all %d configurations; uses.py can move it into the corpus" % (u["id"] + (len(per),)))
                else:
                    ctx.note("U6: use '%s | %s | %s' builds but does not complete in any configuration (%s): not configuration dependent, not judged" % (u["id"] + (k[1],)))
                continue
            # the verdict depends on the configuration
            if any(k[0] == "rejected" for k in cl) and any(k[0] != "rejected" for k in cl):
                kind, fail = "use-rejected", [c for k, cs in cl.items() if k[0] == "rejected" for c in cs]
            elif any(k[0] == "run-fail" for k in cl):
                kind, fail = "use-run-fails", [c for k, cs in cl.items() if k[0] == "run-fail" for c in cs]
            else:
                # all run, values differ: the configurations that disagree with the most common value (tie: with the first configuration)
                best = sorted(cl.items(), key=lambda kv: (-len(kv[1]), ALL_CFGS.index(kv[1][0])))[0][0]
                kind, fail = "use-value-differs", [c for k, cs in cl.items() if k != best for c in cs]
            c0 = sorted(fail, key=ALL_CFGS.index)[0]
            d0 = per[c0][1]
            loc = re.search(r"(x[\w]+\.hpp:\d+)", d0) if kind == "use-rejected" else None
            key = (b["header"], kind, loc.group(1) if loc else u["id"][1:])
            good = [c for c in sorted(per, key=ALL_CFGS.index) if c not in fail]
            groups.setdefault(key, []).append((u, fail, run, c0, per, good))
    for (h, kind, _), items in groups.items():
        u, fail, run, c0, per, good = items[0]
        sig = "C19/%s:%s/%s@%s" % (h, u["id"][1].replace("/", "|"), kind, cfgclass(fail, run))
        others = "" if len(items) == 1 else " The same happens for %d further use(s): %s%s." % (len(items) - 1, "; ".join("'%s' with %s" % (x[0]["id"][1], x[0]["id"][2]) for x in items[1:13]), " ..." if len(items) > 13 else "")
        if kind == "use-rejected":
            what = "compiles, links and runs in %d configuration(s) (%s) but is REJECTED in %d (%s; class: %s). First diagnostic [%s]: %s" % (
                len(good), "; ".join(cfg_name(c) for c in good[:3]) + (" ..." if len(good) > 3 else ""), len(fail), "; ".join(cfg_name(c) for c in fail), cfgclass(fail, run), cfg_name(c0), per[c0][1])
        elif kind == "use-run-fails":
            what = "builds everywhere but the program does not complete in %d configuration(s) (%s): %s%s" % (len(fail), "; ".join(cfg_name(c) for c in fail), per[c0][1], "; it completes under " + cfg_name(good[0]) if good else "")
        else:
            what = "builds and runs everywhere but returns a different value in %d configuration(s) (%s): %s there, %s under %s" % (len(fail), "; ".join(cfg_name(c) for c in fail), per[c0][1], per[good[0]][1], cfg_name(good[0]))
        msg = ("%s, entry point '%s' used with %s: the same source text %s. Use: { %s }.%s Expected: a program that uses a public header has the same compile / link / run verdict in every one of the 12 build configurations." % (
            h, u["id"][1], u["id"][2], what, u["code"][:400], others))
        ctx.violation(sig, msg, harness="c19-use", args=[json.dumps({"kind": "use", "id": list(u["id"]), "cfgs": [list(c) for c in run], "probe": bool(probes)})])
    stat(ctx, "u6_probe_uses_rejected_everywhere" if probes else "u6_uses_rejected_everywhere_not_in_corpus", n_rej_all)
    if not probes:
        stat(ctx, "u6_uses_same_verdict_everywhere", n_acc_all)
        stat(ctx, "u6_distinct_verdicts", len(classes))
    return n_cases, nt, n_rej_all


# ---- U3: link ------------------------------------------------------------------------------------------------------

STD_AFTER =["cfenv", "cstdio", "cstring", "functional", "limits", "string", "typeinfo", "utility"]



def link_tu_text(headers, n):
    order = list(headers) if n == 0 else list(reversed(headers))
    lines = ["// generated by checks/C19/check.py: translation unit %d of the link test, all public headers in %s order" % (n, "alphabetical" if n == 0 else "reverse")]
    lines += ["#include <xtl/%s>" % h for h in order]
    lines += ["// standard headers the link body itself needs, deliberately AFTER the headers under test"]
    lines += ["#include <%s>" % s for s in STD_AFTER]
    lines += ["#define C19_FN c19_use_tu%d" % n, '#include "link_body.inc"']
    return "\n".join(lines) + "\n"


MAIN1 = """#include <cstdio>
#include <string>
std::string c19_use_tu0();
int main() { std::string a = c19_use_tu0(); std::printf("DIGEST %s\\n", a.c_str()); return a.empty() ? 3 : 0; }
"""
MAIN2 = """#include <cstdio>
#include <string>
std::string c19_use_tu0();
std::string c19_use_tu1();
int main()
{
    std::string a = c19_use_tu0(), b = c19_use_tu1();
    std::printf("DIGEST %s\\n", a.c_str());
    if (a != b) { std::printf("DIFFERENT %s\\n", b.c_str()); return 4; }
    std::printf("SAME\\n");
    return a.empty() ? 3 : 0;
}
"""


def sym_of(line):
    m = re.search(r"(?:multiple definition of|undefined reference to) [`']([^']+)'", line)
    if not m:
        return None
    s = m.group(1)
    s = re.sub(r"\[abi:[^\]]*\]", "", s)
    s = re.sub(r"\(.*$", "", s)
    return s.strip().replace("/", "_") or None


XTL_SYM = re.compile(r"\b(xtl|half_float|mpark|tcb)::")


def run_keep_cfg(ctx, headers, cfg, bud):
    """g++ -fkeep-inline-functions variant of U3: every inline function of the headers that is not a template is emitted,
    whether the TU calls it or not, so the object's symbol table shows every symbol ANY of them refers to.  xtl is header-only:
    a symbol of an xtl namespace that the object refers to but does not define is one the linker cannot find anywhere.
    (The real link is not used for this variant: with the flag libstdc++'s own inline functions are kept as well, and under
    C++17/20 some of those refer to symbols libstdc++.so does not export; that is not xtl's business.)"""
    if bud.left() < 0:
        return None
    d = os.path.join(GENDIR, "link", cfg_slug(cfg) + "-keep")
    os.makedirs(d, exist_ok=True)
    src = os.path.join(d, "tu0.cpp")
    obj = os.path.join(d, "tu0.o")
    write_file(src, link_tu_text(headers, 0))
    rc, _, err = run_tool(cc_cmd(cfg, ["-I" + HERE, "-O0", "-c", "-fkeep-inline-functions", src, "-o", obj]), timeout=900)
    stat(ctx, "tool_runs", 2)
    if rc != 0:
        return [("tu-compile", "alphabetical", first_error(err))]
    finds = []
    rc, out, _ = run_tool(["nm", "-C", obj])
    if rc != 0:
        raise vlib.HarnessError("nm failed on %s" % obj)
    defined = set()
    for ln in out.splitlines():
        m = re.match(r"^\s*([0-9a-f]*)\s+([A-Za-z])\s+(.*)$", ln)
        if not m or not XTL_SYM.search(m.group(3)) or "nlohmann" in m.group(3):
            continue
        if m.group(2) == "U":
            s = re.sub(r"\(.*$", "", re.sub(r"\[abi:[^\]]*\]", "", m.group(3))).strip().replace("/", "_")
            finds.append(("keep-inline", (s, "undefined-symbol"), "object of a TU that includes all headers refers to '%s' but no xtl header defines it" % m.group(3)))
        else:
            defined.add(m.group(3))
    shutil.rmtree(d, ignore_errors=True)
    return [("nsyms", len(defined), "")] + finds


def run_link_cfg(ctx, headers, cfg, keep, bud):
    """One configuration of U3. -> list of findings (stage, key, diag) ; [] = all fine; None = skipped (deadline)."""
    if keep:
        return run_keep_cfg(ctx, headers, cfg, bud)
    if bud.left() < 0:
        return None
    d = os.path.join(GENDIR, "link", cfg_slug(cfg))
    os.makedirs(d, exist_ok=True)
    extra = ["-I" + HERE, "-O0", "-c"]
    finds = []
    objs = {}
    srcs = {"tu0": link_tu_text(headers, 0), "tu1": link_tu_text(headers, 1), "main1": MAIN1, "main2": MAIN2}
    for name in ("tu0", "tu1", "main1", "main2"):
        src = os.path.join(d, name + ".cpp")
        write_file(src, srcs[name])
        obj = os.path.join(d, name + ".o")
        rc, _, err = run_tool(cc_cmd(cfg, extra + [src, "-o", obj]), timeout=900)
        if rc != 0:
            if name.startswith("main"):
                raise vlib.HarnessError("C19 link driver main does not compile [%s]: %s" % (cfg_name(cfg), err[-2000:]))
            finds.append(("tu-compile", "alphabetical" if name == "tu0" else "reverse", first_error(err)))
        else:
            objs[name] = obj
    stat(ctx, "tool_runs", 4)
    if "tu0" not in objs or "tu1" not in objs:
        return finds
    for pname, parts in [("1tu", ["tu0", "main1"]), ("2tu", ["tu0", "tu1", "main2"])]:
        exe = os.path.join(d, "prog-" + pname)
        rc, _, err = run_tool([cfg[0]] + [objs[p] for p in parts] + ["-o", exe], timeout=900)
        stat(ctx, "tool_runs", 1)
        if rc != 0:
            syms = collections.OrderedDict()
            for ln in err.splitlines():
                s = sym_of(ln)
                if s:
                    syms.setdefault((s, "duplicate-definition" if "multiple definition" in ln else "undefined-symbol"), ln.strip()[:300])
            if not syms:
                finds.append(("link-" + pname, ("all-headers", "link-error"), first_error(err)))
            for (s, k), ln in list(syms.items())[:40]:
                finds.append(("link-" + pname, (s, k), re.sub(r"\s+", " ", ln.replace(GENDIR + "/", ""))))
            continue
        try:
            r = subprocess.run([exe], stdout=subprocess.PIPE, stderr=subprocess.PIPE, timeout=120)
        except subprocess.TimeoutExpired:
            raise vlib.HarnessError("C19 link program timeout: %s" % exe)
        stat(ctx, "tool_runs", 1)
        out = r.stdout.decode("utf-8", "replace")
        if r.returncode != 0 or "DIGEST " not in out or (pname == "2tu" and "SAME" not in out):
            fate = ("killed-by-signal-%d" % -r.returncode) if r.returncode < 0 else ("two-TUs-disagree" if "DIFFERENT" in out else "exit-status-%d" % r.returncode)
            finds.append(("run-" + pname, fate, (out[-300:] + " | " + r.stderr.decode("utf-8", "replace")[-300:]).replace("\n", " ")))
    if not finds:
        shutil.rmtree(d, ignore_errors=True)
    return finds


def exec_links(ctx, bud, headers, cfgs, keep_cfgs, workers):
    units = [(c, False) for c in cfgs] + [(c, True) for c in keep_cfgs]
    res = vlib.parallel([(lambda c=c, k=k: run_link_cfg(ctx, headers, c, k, bud)) for c, k in units], workers=workers)
    return units, res


def judge_links(ctx, headers, units, res, broken):
    agg = collections.OrderedDict()  # sig -> [(cfg, keep, diag)]
    done = []
    for (c, k), finds in zip(units, res):
        if finds is None:
            ctx.cap("U3 link [%s%s]: deadline reached, not run" % (cfg_name(c), " -fkeep-inline-functions" if k else ""))
            continue
        done.append((c, k))
        for stage, key, diag in finds:
            if stage == "nsyms":
                ctx.smax("xtl_symbols_defined_in_keep_inline_object", key)
                continue
            if any((h, c) in broken for h in headers):
                stat(ctx, "implied_failures_not_reported_separately", 1)
                continue
            if stage == "tu-compile":
                sig = "C19/all-headers/%s-order-tu/does-not-compile" % key
            elif stage.startswith("link-") or stage == "keep-inline":
                sig = "C19/%s/%s/%s" % (key[0], stage, key[1])
            else:
                sig = "C19/all-headers/%s/%s" % (stage, key)
            agg.setdefault(sig, []).append((c, k, diag))
    for sig, lst in agg.items():
        cf = sorted(set((c, k) for c, k, _ in lst))
        c, k, diag = lst[0]
        msg = ("translation units that include every public header (TU0 alphabetical, TU1 reverse order) and use every non-template function: %s fails in %d configuration(s): %s. "
               "First diagnostic [%s%s]: %s. Expected: compiles, links into one program without duplicate-definition or undefined-symbol errors, runs, and both TUs compute the same values." % (
                   sig.split("/", 2)[2], len(cf), "; ".join(cfg_name(c_) + (" -fkeep-inline-functions" if k_ else "") for c_, k_ in cf), cfg_name(c), " -fkeep-inline-functions" if k else "", diag))
        ctx.violation(sig, msg, harness="c19-link", args=[json.dumps({"kind": "link", "unit": [list(c), k]})])  # the signature does not depend on the configuration: replay the first failing one
    return done


# ---- U4: error paths -------------------------------------------------------------------------------------------------

MEMFAULT = {signal.SIGSEGV: "SIGSEGV", signal.SIGBUS: "SIGBUS", signal.SIGFPE: "SIGFPE"}
ERRSRC = os.path.join(HERE, "errpaths.cpp")


def run_program(exe, args, timeout=120):
    try:
        r = subprocess.run([exe] + list(args), stdout=subprocess.PIPE, stderr=subprocess.PIPE, timeout=timeout)
    except subprocess.TimeoutExpired:
        raise vlib.HarnessError("C19 error-path program timeout: %s %s" % (exe, " ".join(args)))
    return r.returncode, r.stdout.decode("utf-8", "replace"), r.stderr.decode("utf-8", "replace")


def run_errpaths_cfg(ctx, cfg, bud, only=None):
    """-> dict: build failures and per-scenario fates for one configuration, or None when skipped."""
    if bud.left() < 0:
        return None
    d = os.path.join(GENDIR, "err", cfg_slug(cfg))
    os.makedirs(d, exist_ok=True)
    exe = os.path.join(d, "errpaths")
    out = {"build": [], "fates": {}, "list": {}}
    rc, _, err = run_tool(cc_cmd(cfg, ["-O0", ERRSRC, "-o", exe]), timeout=900)
    stat(ctx, "tool_runs", 1)
    exes = {}
    if rc != 0:
        # attribute the build failure to scenarios: build each one alone
        names = scenario_table()
        for k, (name, exc) in sorted(names.items()):
            if only is not None and k not in only:
                continue
            e1 = exe + "-%d" % k
            rc1, _, err1 = run_tool(cc_cmd(cfg, ["-O0", "-DC19_ONLY=%d" % k, ERRSRC, "-o", e1]), timeout=900)
            stat(ctx, "tool_runs", 1)
            if rc1 != 0:
                out["build"].append((k, name, first_error(err1)))
            else:
                exes[k] = e1
        if not out["build"] and only is None:
            raise vlib.HarnessError("errpaths.cpp fails to build as a whole but every scenario builds alone [%s]: %s" % (cfg_name(cfg), err[-1500:]))
        table = names
    else:
        rcl, lst, _ = run_program(exe, ["--list"])
        table = {}
        for ln in lst.splitlines():
            p = ln.split()
            if len(p) == 3:
                table[int(p[0])] = (p[1], p[2])
                exes[int(p[0])] = exe
    out["list"] = table
    for k in sorted(exes):
        if only is not None and k not in only:
            continue
        rc, so, se = run_program(exes[k], [str(k)])
        stat(ctx, "tool_runs", 1)
        name, exc = table[k]
        before = ("BEFORE " + name) in so
        after = ("AFTER " + name) in so
        m = re.search(r"CAUGHT (\S+)", so)
        out["fates"][k] = {"rc": rc, "before": before, "after": after, "caught": m.group(1) if m else None, "stderr": se.strip().replace("\n", " ")[-200:]}
    shutil.rmtree(d, ignore_errors=True)
    return out


_SCEN = {}


def scenario_table():
    """scenario index -> (name, expected exception), read from the X-macro table of errpaths.cpp (single source)."""
    if not _SCEN:
        for m in re.finditer(r'X\((\d+),\s*"([^"]+)",\s*"([^"]+)"\)', open(ERRSRC).read()):
            _SCEN[int(m.group(1))] = (m.group(2), m.group(3))
    return _SCEN


def exec_errpaths(ctx, bud, cfgs, workers, only=None):
    return vlib.parallel([(lambda c=c: run_errpaths_cfg(ctx, c, bud, only)) for c in cfgs], workers=workers)


ERR_HEADERS = ["xany.hpp", "xbasic_fixed_string.hpp", "xdynamic_bitset.hpp", "xmultimethods.hpp", "xspan.hpp", "xvariant.hpp", "xvisitor.hpp"]


def judge_errpaths(ctx, cfgs, res, only=None, broken=()):
    table = scenario_table()
    viol = collections.OrderedDict()  # sig -> [(cfg, text)]
    confirmed = set()
    n_eval = 0
    nt = set()
    done = []
    for c, r in zip(cfgs, res):
        if r is None:
            ctx.cap("U4 error paths [%s]: deadline reached, not run" % cfg_name(c))
            continue
        done.append(c)
        for k, name, diag in r["build"]:
            if any((h, c) in broken for h in ERR_HEADERS):
                stat(ctx, "implied_failures_not_reported_separately", 1)
                continue
            viol.setdefault("C19/%s/build/does-not-compile" % name, []).append((c, "scenario does not build: " + diag))
        for k, f in sorted(r["fates"].items()):
            name, exc = r["list"][k]
            n_eval += 1
            if c[2] == "exceptions":
                if f["caught"] == exc:
                    confirmed.add((name, c[0], c[1]))
                else:
                    ctx.note("U4 anti-vacuity: scenario %s under %s did not raise %s (observed: caught=%s after=%s rc=%s); "
                             "its -fno-exceptions runs are still judged" % (name, cfg_name(c), exc, f["caught"], f["after"], f["rc"]))
                continue
            if not f["before"]:
                raise vlib.HarnessError("errpaths scenario %s [%s] did not even start: %r" % (name, cfg_name(c), f))
            if f["after"]:
                viol.setdefault("C19/%s/fno-exceptions/continues-after-error" % name, []).append(
                    (c, "the failing call returned and the statement after it ran (exit status %s); with exceptions enabled this call raises %s" % (f["rc"], exc)))
            elif f["rc"] < 0 and -f["rc"] in MEMFAULT:
                viol.setdefault("C19/%s/fno-exceptions/memory-fault-instead-of-terminating" % name, []).append(
                    (c, "the process died of %s inside the failing call: it ran on with an invalid object instead of terminating (std::terminate/abort raise SIGABRT); "
                        "with exceptions enabled this call raises %s" % (MEMFAULT[-f["rc"]], exc)))
            # any other end of the process inside the call (SIGABRT from std::terminate/abort, SIGILL/SIGTRAP from a trap, exit()) is a termination
    for c in done:
        if c[2] == "fno-exceptions":
            for k, (name, exc) in table.items():
                if (name, c[0], c[1]) in confirmed and (only is None or k in only):
                    nt.add((name, c))
    for sig, lst in viol.items():
        cf = sorted(set(c for c, _ in lst))
        name = sig.split("/", 1)[1].rsplit("/", 2)[0]
        ks = [k for k, (n, _) in table.items() if n == name]
        msg = "error path %s: %s. Configurations (%d): %s. Expected: with -fno-exceptions the process terminates inside the failing call." % (
            name, lst[0][1], len(cf), "; ".join(cfg_name(c) for c in cf))
        ctx.violation(sig, msg, harness="c19-errpaths", args=[json.dumps({"kind": "errpaths", "k": ks, "cfgs": cf[:1]})])
    return done, n_eval, nt, len(confirmed)


# ---- run -----------------------------------------------------------------------------------------------------------------

def run(ctx):
    try:
        _run(ctx)
    finally:
        shutil.rmtree(GENDIR, ignore_errors=True)


def cmake_public_headers():
    try:
        txt = open(os.path.join(vlib.REPO, "CMakeLists.txt")).read()
    except OSError:
        return None
    return sorted(set(re.findall(r"\$\{XTL_INCLUDE_DIR\}/xtl/([A-Za-z0-9_]+\.hpp)", txt)))


# The 6-row covering array of the 2 x 3 x 2 configuration space: every PAIR of (compiler, -std), (compiler, exceptions mode)
# and (-std, exceptions mode) values occurs in at least one row.
COVERING6 = [("g++", "c++14", "exceptions"), ("g++", "c++17", "fno-exceptions"), ("g++", "c++20", "exceptions"),
             ("clang++", "c++14", "fno-exceptions"), ("clang++", "c++17", "exceptions"), ("clang++", "c++20", "fno-exceptions")]


U6_QUICK = COVERING6


def tier_space(tier):
    """The declared space of each tier (fixed, not load dependent; what a deadline cuts off is reported as a cap)."""
    if tier == "quick":
        return {
            "u1_single": ALL_CFGS,
            "u1_double": [("g++", "c++14", "exceptions"), ("clang++", "c++20", "fno-exceptions")],
            "u3": COVERING6,
            "u3_keep": [("g++", "c++14", "fno-exceptions")],
            "u4": [("g++", "c++14", "exceptions"), ("g++", "c++14", "fno-exceptions"), ("clang++", "c++20", "exceptions"), ("clang++", "c++20", "fno-exceptions")],
            "u2": [],
            "u5": [("g++", "c++14", "exceptions"), ("g++", "c++20", "exceptions"), ("clang++", "c++14", "exceptions"), ("clang++", "c++20", "exceptions"),
                   ("g++", "c++17", "fno-exceptions"), ("clang++", "c++17", "fno-exceptions")],
            "u6": U6_QUICK, "u6_probes": [],
        }
    return {"u1_single": ALL_CFGS, "u1_double": ALL_CFGS, "u3": ALL_CFGS, "u3_keep": [c for c in ALL_CFGS if c[0] == "g++"], "u4": ALL_CFGS,
            # covering array first: if a deadline cuts U2 short, the completed configurations still pair every two configuration values
            "u2": COVERING6 + [c for c in ALL_CFGS if c not in COVERING6], "u5": ALL_CFGS,
            "u6": COVERING6 + [c for c in ALL_CFGS if c not in COVERING6], "u6_probes": []}   # probes: run with checks/C19/probe_uses.py (path in judge_uses(probes=True) not yet run end to end through bin/check)


def _run(ctx):
    quick = ctx.tier == "quick"
    sp = tier_space(ctx.tier)
    bud = Budget(ctx)
    jsondir = setup_ext(ctx)
    headers_all = list_headers()
    headers = [h for h in headers_all if header_available(h, jsondir)]
    if len(headers) != len(headers_all):
        ctx.cap("xjson.hpp not checked: nlohmann/json.hpp was not found in %s" % ", ".join(JSON_DIRS))
    pub = cmake_public_headers()
    if pub is not None and pub != headers_all:
        ctx.note("include/xtl and XTL_HEADERS of CMakeLists.txt differ: only in directory %s; only in CMake %s (the directory listing is what is checked)" % (
            sorted(set(headers_all) - set(pub)), sorted(set(pub) - set(headers_all))))
    nowit = [h for h in headers if h not in WITNESS]
    if nowit:
        ctx.note("headers without a witness (compiled bare only): %s" % ", ".join(nowit))
    for cc in CCS:
        rc, out, _ = run_tool([cc, "--version"])
        if rc != 0:
            raise vlib.HarnessError("compiler %s is not usable" % cc)
        ctx.note("%s = %s" % (cc, out.splitlines()[0]))
    clo = include_closure(headers)
    tab = scenario_table()

    nt = set()
    evaluations = 0

    # U3 and U4 are a handful of long jobs: they run in the background while U1 (hundreds of short jobs) runs in front,
    # so that a deadline on a loaded machine never cuts a whole unit away
    bg = {}

    def background(name, fn):
        def body():
            try:
                bg[name] = ("ok", fn())
            except BaseException as e:  # re-raised in the main thread
                bg[name] = ("err", e)
        th = threading.Thread(target=body)
        th.start()
        return th

    t0 = time.time()
    th3 = background("u3", lambda: exec_links(ctx, bud, headers, sp["u3"], sp["u3_keep"], 5 if quick else 6))
    th4 = background("u4", lambda: exec_errpaths(ctx, bud, sp["u4"], 3 if quick else 4))

    # U1
    # order = priority under a deadline: g++ single, double, clang++ single
    cases1 = ([(h, "single", c) for c in sp["u1_single"] if c[0] == "g++" for h in headers] + [(h, "double", c) for c in sp["u1_double"] for h in headers]
              + [(h, "single", c) for c in sp["u1_single"] if c[0] != "g++" for h in headers])
    res1 = run_includes(ctx, bud, cases1, max(4, WORKERS - 6))
    stat(ctx, "u1_wall_s", time.time() - t0)
    # U5 (execution; judged after U1 because failures implied by a broken single include are not reported again)
    t5 = time.time()
    res5 = run_inst(ctx, bud, headers, sp["u5"], max(4, WORKERS - 6))
    stat(ctx, "u5_wall_s", time.time() - t5)
    # U6 (execution; judged after U1 for the same reason)
    import uses as U
    t6 = time.time()
    batches6, probes6 = U.corpus()
    res6 = run_uses(ctx, bud, batches6, sp["u6"], headers, max(4, WORKERS - 4))
    res6p = run_uses(ctx, bud, probes6, sp["u6_probes"], headers, max(4, WORKERS - 4), "U6 capability probes") if sp["u6_probes"] else {}
    stat(ctx, "u6_wall_s", time.time() - t6)
    th3.join()
    th4.join()
    for name in ("u3", "u4"):
        if bg[name][0] == "err":
            raise bg[name][1]
    stat(ctx, "phase1_wall_s", time.time() - t0)
    broken = judge_includes(ctx, res1, clo)
    evaluations += len(res1)
    stat(ctx, "tool_runs", len(res1))
    stat(ctx, "u1_include_cases", len(res1))
    for (h, m, c) in res1:
        if h not in MACRO_ONLY:
            nt.add(("inc", m, h, c))
    c_s = sp["u1_double"][-1]
    ctx.sample({"unit": "U1", "case": "xany.hpp double include", "configuration": cfg_name(c_s), "command": " ".join(cc_cmd(c_s, ["-fsyntax-only", "<tu>"])).replace(GENDIR, "<gen>"),
                "tu": tu_text(["xany.hpp", "xany.hpp"]), "result": res1.get(("xany.hpp", "double", c_s), ("not run",))[0]})
    ctx.sample({"unit": "U1", "case": "xjson.hpp single include", "configuration": cfg_name(ALL_CFGS[11]), "tu": tu_text(["xjson.hpp"]),
                "result": res1.get(("xjson.hpp", "single", ALL_CFGS[11]), ("not run",))[0]})
    ctx.sample({"unit": "U1", "case": "xmultimethods.hpp single include", "configuration": cfg_name(ALL_CFGS[5]), "tu": tu_text(["xmultimethods.hpp"]),
                "result": res1.get(("xmultimethods.hpp", "single", ALL_CFGS[5]), ("not run",))[0]})

    # U5
    from instantiations import INST
    judge_inst(ctx, res5, broken, clo)
    n5 = 0
    modes = collections.Counter()
    for (h, c) in res5:
        for e in INST[h]["entries"]:
            if e["mode"] != "excluded":
                n5 += 1
                nt.add(("inst", h, e["id"], c))
    for h in INST:
        for e in INST[h]["entries"]:
            modes[e["mode"] + ("-fallback" if e["mode"] == "calls" and e.get("explicit_probe") else "")] += 1
    evaluations += n5
    stat(ctx, "u5_entry_cases", n5)
    stat(ctx, "u5_translation_units", len(res5))
    for k, v in sorted(modes.items()):
        stat(ctx, "u5_table_entries[%s]" % k, v)
    if res5:
        e_s = INST["xspan_impl.hpp"]["entries"][1]
        ctx.sample({"unit": "U5", "case": "xspan_impl.hpp entry '%s' [%s]" % (e_s["id"], e_s["mode"]), "configuration": cfg_name(sp["u5"][0]), "code": e_s["code"],
                    "how": "built -O0 and linked in one TU with the other %d entries of the header; result: %s" % (len(INST["xspan_impl.hpp"]["entries"]) - 1, "ok" if not res5.get(("xspan_impl.hpp", sp["u5"][0]), [1]) else "see violations")})
    if not quick:
        probe_excluded(ctx, bud, [("g++", "c++14", "exceptions"), ("clang++", "c++20", "exceptions")])

    # U6
    n6, nt6, _ = judge_uses(ctx, batches6, res6, broken, clo)
    evaluations += n6
    nt |= nt6
    stat(ctx, "u6_use_cases", n6)
    stat(ctx, "u6_uses_in_tables", sum(len(b["uses"]) for b in batches6))
    stat(ctx, "u6_programs_built", len(res6))
    stat(ctx, "u6_configurations", len(set(c for _, c in res6)))
    if res6p:
        n6p, _, _ = judge_uses(ctx, probes6, res6p, broken, clo, probes=True)
        stat(ctx, "u6_capability_probe_cases", n6p)
    b_s, u_s = next((b, u) for b in batches6 for u in b["uses"] if u["id"][0] == "xbase64.hpp" and u["id"][2].startswith("user type with operator std::string"))
    ctx.sample({"unit": "U6", "case": "%s | %s | %s" % u_s["id"], "code": u_s["code"],
                "how": "one of %d uses of this batch (2 translation units, linked, run); its verdict (build, exit status, returned value) must be the same in every configuration: %s" % (
                    len(b_s["uses"]), sorted(set(str(_vclass(r[b_s["uses"].index(u_s)])) for (n, c), r in res6.items() if n == b_s["name"] and b_s["uses"].index(u_s) in r)))})

    # U3
    units3, r3 = bg["u3"][1]
    done3 = judge_links(ctx, headers, units3, r3, broken)
    for c, k in done3:
        n = 1 if k else 2
        evaluations += n
        stat(ctx, "u3_link_programs", n)
        nt.add(("link", c, k, "2tu"))
        if not k:
            nt.add(("link", c, k, "1tu"))
    if done3:
        c_s, k_s = done3[0]
        ctx.sample({"unit": "U3", "case": "2-TU program: TU0 = all %d headers in alphabetical order + link_body.inc, TU1 = the same in reverse order" % len(headers), "configuration": cfg_name(c_s),
                    "tu1_head": link_tu_text(headers, 1).splitlines()[1:4],
                    "result": "see violations" if any(v["harness"] == "c19-link" for v in ctx.viols) else "compiled -O0, linked (1-TU and 2-TU program), ran; both TUs computed the same digest"})

    # U4
    done4, n4, nt4, nconf = judge_errpaths(ctx, sp["u4"], bg["u4"][1], None, broken)
    evaluations += n4
    stat(ctx, "u4_errpath_runs", n4)
    stat(ctx, "u4_scenarios_confirmed_to_throw_with_exceptions", nconf)
    for x in nt4:
        nt.add(("err",) + x)
    ctx.sample({"unit": "U4", "case": "errpaths 11 (%s): xtl::xdynamic_bitset<unsigned char> b(5, true); b.at(9)" % tab[11][0], "configuration": cfg_name(sp["u4"][1]),
                "expected": "with exceptions: CAUGHT %s; with -fno-exceptions: 'BEFORE' printed, process ends inside the call, 'AFTER' never printed" % tab[11][1]})

    # U2
    if sp["u2"]:
        t = time.time()
        res2, done2 = run_pairs(ctx, bud, headers, sp["u2"])
        judge_pairs(ctx, res2, broken)
        evaluations += len(res2)
        stat(ctx, "tool_runs", len(res2))
        stat(ctx, "u2_pair_cases", len(res2))
        stat(ctx, "u2_pair_configurations_completed", len(done2))
        for (a, b, c) in res2:
            if b not in clo[a] and a not in MACRO_ONLY and b not in MACRO_ONLY:
                nt.add(("pair", a, b, c))
        stat(ctx, "u2_wall_s", time.time() - t)
        ctx.sample({"unit": "U2", "case": "xvisitor.hpp then xany.hpp", "configuration": cfg_name(sp["u2"][0]), "tu": tu_text(["xvisitor.hpp", "xany.hpp"]),
                    "result": res2.get(("xvisitor.hpp", "xany.hpp", sp["u2"][0]), ("not run",))[0]})

    stat(ctx, "evaluations", evaluations)
    stat(ctx, "distinct_nontrivial", len(nt))
    stat(ctx, "headers", len(headers))
    names = lambda cs: "all 12 configurations" if len(cs) == 12 else "{%s}" % "; ".join(cfg_name(c) for c in cs)
    ctx.rule = (
        "a case = one generated translation unit / program in one configuration (compiler, -std, exceptions mode), executed by the real compiler, linker or as a process. "
        "Configuration space: {g++, clang++} x {c++14, c++17, c++20} x {exceptions, -fno-exceptions} = 12. Enumerated completely in this tier: "
        "U1 every header of include/xtl (%d) as the ONLY include of a TU x %s, and included TWICE x %s (-fsyntax-only -Werror=return-type; the include(s) are followed by a witness that uses the header); "
        "U2 every ordered pair of distinct headers (%d) in one TU x %s; "
        "U3 a 1-TU and a 2-TU program whose TUs include all headers (TU0 alphabetical, TU1 reverse order) and call or odr-use every non-template function, compiled -O0, linked, run x %s; "
        "TU0 once more with g++ -fkeep-inline-functions (every non-template inline function is emitted whether called or not) and its symbol table read with nm: no symbol of an xtl namespace may be undefined, x %s; "
        "U4 %d error-path scenarios, each in its own process x %s. "
        "U5 per header one TU with EVERY entry of the committed table instantiations.py (%d entries: explicit instantiation definitions of the class templates with 1-3 argument sets each -- these instantiate every "
        "non-template member --, and functions that call every constructor / member / function template and operator once; %d classes whose explicit instantiation is ill-formed on the unchanged tree are covered by calls instead), "
        "compiled -O0 with code generation and LINKED x %s; a failing TU is rebuilt entry by entry. "
        "U6 configuration INVARIANCE: the corpus of %d small use programs generated from the tables of uses.py (header x entry point x kind of argument / template argument: every bitset member x {owning, view} x 14 integral block "
        "types incl. signed and plain char; base64encode/decode x 23 kinds of argument that convert to const std::string& (std::string in all value categories, literal, const char*, char*, array, braced lists, xtl fixed strings, user types "
        "with a conversion operator, reference_wrapper, derived class); hash_bytes/murmur2_x86/murmur2_x64 x 15 buffer kinds and x 20 integer kinds for length, seed and result; executable_path/prefix_path/endianness x result kinds -- these "
        "non-template functions in TWO translation units linked into one program; half x 15 arithmetic types; cmp_* x 100 ordered integer type pairs; fixed string members x 10 source kinds and 10 conversions; xcomplex x 3 value types x ieee mode; "
        "xoptional / xmasked_value x 12 value types; any x 15 payload kinds; span x 11 element types; closure, make_sequence, select/identity, variant converting construction), batched into %d programs, each compiled -O0, linked and RUN x %s; "
        "a use must have the SAME verdict (builds / exit status / returned value) in every configuration; a batch that fails is attributed use by use; a use that every configuration rejects is a capability probe (noted, not judged; %d such cells are "
        "committed in uses_rejected.json and, with the %d hand-listed ones, are built one per program in the thorough tier only). "
        "evaluations = judged cases (U1 + U2 TUs, U3 programs, U4 runs, U5 (entry, configuration) pairs, U6 (use, configuration) verdicts). distinct_nontrivial = distinct cases that are not degenerate by this rule: U1 cases of headers that contribute "
        "declarations (all but the macro-only xtl_config.hpp); U2 pairs (a,b) where b is NOT already included transitively by a (otherwise the second include is skipped by its guard) "
        "and neither is macro-only, the transitive include relation being read from the tree; U3 every program; every U5 (entry, configuration) pair (each instantiates library code); U4 the -fno-exceptions run of a scenario only if the same scenario was "
        "observed to raise its documented exception in the exceptions-enabled build with the same compiler and -std (so the call really is an error path); U6 every (use, configuration) verdict in which the use built and ran" % (
            len(headers), names(sp["u1_single"]), names(sp["u1_double"]), len(headers) * (len(headers) - 1), names(sp["u2"]) if sp["u2"] else "NO configuration (thorough tier only)",
            names(sp["u3"]) + (" (a covering array: every pair of configuration values occurs)" if quick else ""), names(sp["u3_keep"]), len(tab), names(sp["u4"]),
            sum(1 for h in INST for e in INST[h]["entries"] if e["mode"] != "excluded"), sum(1 for h in INST for e in INST[h]["entries"] if e["mode"] == "calls" and e.get("explicit_probe")), names(sp["u5"]),
            sum(len(b["uses"]) for b in batches6), len(batches6), names(sp["u6"]) + (" (the covering array)" if quick else ""), len(U.REJECTED_EVERYWHERE), len(probes6) - len(U.REJECTED_EVERYWHERE)))
    ctx.assumptions += [
        "toolchain: g++ 12 and clang++ 14, both on libstdc++ 12, x86-64 Linux; a missing #include that libstdc++ 12 happens to provide transitively is invisible (no second standard library is installed)",
        "U1/U2 (-fsyntax-only) instantiate only what the witness uses; U5 instantiates what instantiations.py lists: every non-template member of the listed specialisations and the listed calls. "
        "Member templates / argument sets that are not in the table are parsed, not instantiated; members that are ill-formed on the unchanged tree for every argument set tried are listed there as 'excluded' and only probed",
        "xjson.hpp is in scope (it is in XTL_HEADERS and is installed; CMake treats nlohmann_json as an optional dependency): it is compiled with ONLY the nlohmann/ directory of the installed nlohmann_json visible; its dependency's own headers are not judged",
        "the configuration space is the one the property names (compiler x -std x exceptions); NDEBUG, -fno-rtti, TCB_SPAN_* / HALF_* user macros and other platforms' #if branches are not enumerated",
        "U6 judges configuration dependence only: the oracle for a use is its own verdict in the other configurations (same source text), no expected value is written down; values returned are quantities the library specifies "
        "(counts, sizes, comparison results, hashes of encoded text), never addresses, paths, capacities or rounding-dependent floating-point results; a use that is ill-formed, or wrong, in EVERY configuration is not reported by U6 "
        "(that is U5's and the other properties' business); implementation-defined behaviour on which g++ 12 and clang++ 14 agree (arithmetic right shift of negative signed blocks, modular narrowing) is part of the fixed platform",
        "U4 judges only calls that raise a documented exception when exceptions are enabled; any end of the process inside the failing call other than SIGSEGV/SIGBUS/SIGFPE counts as termination",
    ]
    if quick:
        ctx.assumptions.append("quick tier: header pairs (U2), double include in 10 of 12 configurations, link in 6 of 12 (both compilers link the 2-TU program at -O0 under C++14), error paths in 8 of 12 and the instantiation TUs in 6 of 12 configurations, the use corpus (U6) in the 6 configurations of the covering array (every pair of configuration values occurs, so a use whose verdict depends on one or two of compiler / standard / exception mode is seen) are left to the thorough tier, "
                               "which enumerates the full product; the two include orders of U3 place every pair of headers in both relative orders")


# ---- replay -------------------------------------------------------------------------------------------------------------

def replay(ctx, rec):
    try:
        _replay(ctx, rec)
    finally:
        shutil.rmtree(GENDIR, ignore_errors=True)


def _tup(c):
    return tuple(c)


def _replay(ctx, rec):
    d = json.loads(rec["args"][0])
    ctx.deadline = time.time() + 3000
    bud = Budget(ctx)
    bud.soft = time.time() + 3000
    jsondir = setup_ext(ctx)
    headers = [h for h in list_headers() if header_available(h, jsondir)]
    if d["kind"] == "include":
        # re-execute the failing cases; the configuration class in the signature is relative to the configurations of the
        # original run, which are carried in the replay file
        fail = [_tup(c) for c in d["fail"]]
        modes = ("single",) if d["mode"] == "single" else ("single", "double")
        res = run_includes(ctx, bud, [(d["header"], m, c) for m in modes for c in fail])
        judge_includes(ctx, res, None, {(d["header"], m): [_tup(c) for c in d["cfgs"]] for m in modes})
    elif d["kind"] == "pairs":
        cfgs = [_tup(c) for c in d["cfgs"]]
        pairs = [tuple(p) for p in d["pairs"]]
        involved = sorted(set(h for p in pairs for h in p))
        res1 = run_includes(ctx, bud, [(h, "single", c) for h in involved for c in cfgs])
        broken = set((h, c) for (h, m, c), r in res1.items() if r[0] != "ok")
        res2, _ = run_pairs(ctx, bud, headers, cfgs, pairs=pairs)
        judge_pairs(ctx, res2, broken)
    elif d["kind"] == "link":
        c, k = _tup(d["unit"][0]), d["unit"][1]
        units, res = exec_links(ctx, bud, headers, [] if k else [c], [c] if k else [], 1)
        judge_links(ctx, headers, units, res, set())
    elif d["kind"] == "inst":
        from instantiations import INST
        c = _tup(d["cfg"])
        h = d["header"]
        entries = [e for e in INST[h]["entries"] if e["mode"] != "excluded"]
        if d["entry"] == "all-entries-together":
            ok, diag = build_inst_tu("all", h, entries, c)
            res = {(h, c): ([] if ok else [({"id": "all-entries-together", "mode": "combined", "code": ""}, diag)])}
        else:
            e = [x for x in entries if x["id"] == d["entry"]]
            if not e:
                raise vlib.HarnessError("replay: entry %r of %s is no longer in instantiations.py" % (d["entry"], h))
            ok, diag = build_inst_tu("e0", h, e, c)
            res = {(h, c): ([] if ok else [(e[0], diag)])}
        judge_inst(ctx, res)
    elif d["kind"] == "use":
        import uses as U
        batches, probes = U.corpus()
        uid = tuple(d["id"])
        cfgs = [_tup(c) for c in d["cfgs"]]
        one = None
        for b in batches + probes:
            for u in b["uses"]:
                if u["id"] == uid:
                    one = dict(b, uses=[u], name=b["name"] + "-replay")
        if one is None:
            raise vlib.HarnessError("replay: use %r is no longer in uses.py" % (uid,))
        res = run_uses(ctx, bud, [one], cfgs, headers)
        judge_uses(ctx, [one], res, declared=cfgs, probes=d.get("probe", False))
    elif d["kind"] == "errpaths":
        cfgs = [_tup(c) for c in d["cfgs"]]
        only = set(d["k"])
        judge_errpaths(ctx, cfgs, exec_errpaths(ctx, bud, cfgs, 4, only), only)
    else:
        raise vlib.HarnessError("unknown replay kind %r" % d.get("kind"))
