#!/usr/bin/env python3
"""Probe tool for the instantiation table of C19 (instantiations.py).

    python3 checks/C19/probe.py [header ...] [--cfgs all|quick|g++-c++14-exceptions,...] [--probes]

Compiles every table entry ALONE (header + standard headers + prelude + the entry, -O0, linked) in the chosen
configurations against XTL_VERIF_REPO (default /repo) and prints a status matrix.  This is how the 'mode' column of the
table was decided on the unchanged tree; it judges nothing and writes nothing.  With --probes the 'explicit_probe' code
of entries in mode 'calls' is compiled too (expected: ill-formed).
"""
import os
import sys

sys.path.insert(0, os.path.join(os.path.dirname(os.path.dirname(os.path.dirname(os.path.abspath(__file__)))), "engine"))
sys.path.insert(0, os.path.dirname(os.path.abspath(__file__)))
import shutil

import vlib
import check
from instantiations import INST


def main():
    args = [a for a in sys.argv[1:] if not a.startswith("--")]
    cfgsel = "all"
    probes = "--probes" in sys.argv
    for i, a in enumerate(sys.argv):
        if a == "--cfgs":
            cfgsel = sys.argv[i + 1]
            args = [x for x in args if x != cfgsel]
    if cfgsel == "all":
        cfgs = check.ALL_CFGS
    elif cfgsel == "quick":
        cfgs = check.tier_space("quick")["u5"]
    else:
        cfgs = [tuple(c.rsplit("-", 2)) if not c.endswith("fno-exceptions") else tuple(c[:-len("-fno-exceptions")].rsplit("-", 1)) + ("fno-exceptions",) for c in cfgsel.split(",")]
    ctx = vlib.Ctx("C19", "thorough", "exploration", 0)
    check.setup_ext(ctx)
    headers = args or list(INST)
    jobs = []
    for h in headers:
        for e in INST[h]["entries"]:
            for c in cfgs:
                jobs.append((h, e, c, False))
                if probes and e.get("explicit_probe"):
                    jobs.append((h, e, c, True))
    res = vlib.parallel([(lambda j=j, i=i: check.build_inst_tu("probe-%d" % i, j[0], [dict(j[1], code=j[1]["explicit_probe"]) if j[3] else j[1]], j[2])) for i, j in enumerate(jobs)], workers=check.WORKERS)
    bad = 0
    for (h, e, c, p), (ok, diag) in zip(jobs, res):
        if not ok or p:
            print("%-6s %-28s %-60s %-34s %s" % ("PROBE" if p else "FAIL", h, e["id"], check.cfg_slug(c), ("well-formed" if ok else diag)[:400]))
            bad += (not ok and not p)
    print("%d entry builds, %d failures" % (len(jobs), bad))
    shutil.rmtree(check.GENDIR, ignore_errors=True)


if __name__ == "__main__":
    main()
