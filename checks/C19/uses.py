"""C19 unit U6: the corpus of USE programs for the configuration-INVARIANCE part.

The corpus is generated from tables  header x entry point x kind  (kind = the kind of ARGUMENT a non-template function is
called with, or the kind of TEMPLATE ARGUMENT a class / function template is instantiated with).  Every cell is one small
function `unsigned long long c19_uN()` that uses the entry point with that kind and returns a value that the library
specifies (a count, a size, a comparison result, the FNV hash of an encoded string ...; never an address, a path, a
capacity, a moved-from state or a rounding-dependent floating-point value).

What is judged (check.py, judge_uses): the verdict of a use -- (builds and links, exit status, returned value) -- must be the
SAME in every configuration of {g++, clang++} x {c++14, c++17, c++20} x {exceptions, -fno-exceptions}.  A use that every
configuration rejects is simply not part of the corpus (a capability probe; noted).  The oracle is the compiler's / the
program's own verdict in ANOTHER configuration on the SAME source text: no expected value is written down here.

The kinds are those the library accepts on the unchanged tree under C++14 (decided with probe_uses.py); cells that are
ill-formed on the unchanged tree in every configuration are listed under 'probes' (built in the thorough tier only, one per
TU, so that they do not break a batch; if one of them ever builds in SOME configurations only, that is a violation too).

A table:
    header    the public header under test (first include of the TU)
    also      further xtl headers the kinds need (e.g. the fixed string as an ARGUMENT of base64encode)
    post      standard headers the kinds need, included after the xtl headers
    prelude   helper declarations
    entries   [(entry point name, code)]   code is the body of the use function; {K...} fields are filled from the kind
    kinds     [(kind name, {field: text})]
    per_tu    how many kinds go into one translation unit (compile-cost control)
    two_tu    True: the same uses are compiled into a second translation unit as well and both are linked into one program
              (the "several translation units ... use their non-template functions" clause)
    skip      {(entry, kind)} cells that make no sense (documented precondition)
    probes    {(entry, kind)} or {kind} cells that are ill-formed on the unchanged tree in all configurations
"""
import collections

TABLES = []


def T(**kw):
    kw.setdefault("also", [])
    kw.setdefault("post", [])
    kw.setdefault("prelude", "")
    kw.setdefault("per_tu", 4)
    kw.setdefault("two_tu", False)
    kw.setdefault("skip", set())
    kw.setdefault("probes", set())
    kw.setdefault("typedefs", ())   # kind fields that are TYPES: the use gets `typedef <text> c19_<F>;` and {F} becomes c19_<F>
    TABLES.append(kw)


COMMON = r"""
#include <string>
#include <cstdio>
#include <cstddef>
namespace {
inline unsigned long long c19_h(const std::string& s)
{
    unsigned long long h = 1469598103934665603ull;
    for (std::size_t i = 0; i < s.size(); ++i) { h ^= static_cast<unsigned char>(s[i]); h *= 1099511628211ull; }
    return h ^ (static_cast<unsigned long long>(s.size()) << 56);
}
}
"""

# ---------------------------------------------------------------------------------------------------------------------------
# xdynamic_bitset.hpp: every public member / operator x {owning bitset, view} x every integral block type
# (the header only requires is_scalar<block_type>; bitsets over signed and plain-char blocks work on the unchanged tree)
BLOCKS = ["unsigned char", "signed char", "char", "unsigned short", "short", "unsigned int", "int", "unsigned long", "long",
          "unsigned long long", "long long", "char16_t", "char32_t", "wchar_t"]

BS_OWN = "typedef {B} B; typedef xtl::xdynamic_bitset<B> BS; BS a(70, false); BS b(70, false);"
BS_VIEW = ("typedef {B} B; typedef xtl::xdynamic_bitset_view<B> BS; B ba[80] = {{}}; B bb[80] = {{}}; BS a(ba, 70); BS b(bb, 70);")

BS_ENTRIES = [
    ("count", "a.set(3); a.set(69); a[10] = true; return a.count();"),
    ("all-any-none", "a.set(3); b.set(); return a.all() + 2 * a.any() + 4 * a.none() + 8 * b.all() + 16 * b.none();"),
    ("set-reset-flip", "a.set(); a.reset(5); a.flip(6); a.flip(); a.set(1, true); a.set(2, false); a.reset(); a.set(9); return a[9] + 2 * a[8] + 4 * a.count();"),
    ("element-access", "a.set(0); a.set(69); const BS& c = a; return a.at(0) + 2 * c.at(1) + 4 * a[69] + 8 * c[68] + 16 * a.front() + 32 * c.back() + 64 * c.size() + 8192 * c.empty();"),
    ("iterators", "a.set(1); a.set(2); unsigned long long n = 0; for (auto it = a.begin(); it != a.end(); ++it) n += *it; "
                  "const BS& c = a; for (auto it = c.cbegin(); it != c.cend(); ++it) n += *it; for (auto it = a.rbegin(); it != a.rend(); ++it) n += *it; "
                  "for (auto it = c.crbegin(); it != c.crend(); ++it) n += *it; for (bool v : c) n += v; return n;"),
    ("blocks", "a.set(0); unsigned long long n = a.block_count(); for (auto it = a.block_begin(); it != a.block_end(); ++it) n += 100 * (*it != B(0)); "
               "const BS& c = a; n += 10000 * (c.data()[0] != B(0)) + 20000 * (a.data() != nullptr); return n;"),
    ("compound-bitops", "a.set(1); a.set(2); b.set(2); b.set(3); BS c(a); c &= b; BS d(a); d |= b; BS e(a); e ^= b; return c.count() + 10 * d.count() + 100 * e.count();"),
    ("binary-bitops", "a.set(1); a.set(2); b.set(2); b.set(3); auto c = a & b; auto d = a | b; auto e = a ^ b; auto f = ~a; return c.count() + 10 * d.count() + 100 * e.count() + 1000 * f.count();"),
    ("shifts", "a.set(1); a.set(2); auto c = a << 3; auto d = c >> 2; a <<= 1; b.set(5); b >>= 1; return c[4] + 2 * c[5] + 4 * d[2] + 8 * a[3] + 16 * b[4] + 32 * c.size();"),
    ("equality", "a.set(1); b.set(1); bool e1 = (a == b); b.set(2); return e1 + 2 * (a != b) + 4 * (a == a);"),
    ("copy-move-swap", "a.set(1); BS c(a); BS d(std::move(c)); BS e(b); e = a; BS f(b); f = std::move(e); a.swap(b); return d.count() + 10 * f.count() + 100 * a.count() + 1000 * b.count();"),
    ("bit-reference", "auto r = a[4]; r = true; r |= false; r &= true; r ^= false; bool x = ~r; r.flip(); r.flip(); a[5] = a[4]; return a.count() + 10 * x + 100 * bool(a[5]);"),
]
BS_OWN_ONLY = [
    ("constructors", "BS c; BS d(9); BS e(9, true); BS f({{true, false, true}}); BS g(std::allocator<B>{{}}); BS h(9, true, std::allocator<B>{{}}); "
                     "return c.size() + 10 * d.size() + 1000 * e.count() + 100000 * f.count() + 1000000 * g.empty() + 2000000 * h.count();"),
    ("resize-push-pop", "a.resize(75); a.resize(80, true); a.push_back(true); a.push_back(false); a.pop_back(); unsigned long long n = a.size() + 1000 * a.count(); "
                        "a.clear(); a.reserve(100); a.assign(12, true); n += 100000 * a.count(); a = {{true, true, false}}; return n + 10000000 * a.count();"),
    ("mixed-view-ops", "B bv[80] = {{}}; xtl::xdynamic_bitset_view<B> v(bv, 70); v.set(2); a.set(2); a.set(3); auto c = a & v; a |= v; return c.count() + 10 * a.count() + 100 * (a == v) + 1000 * (v != a);"),
]

T(header="xdynamic_bitset.hpp", post=["memory", "utility"], per_tu=3,
  entries=[("bitset::" + n, BS_OWN + " " + c) for n, c in BS_ENTRIES + BS_OWN_ONLY] + [("view::" + n, BS_VIEW + " " + c) for n, c in BS_ENTRIES],
  kinds=[(b, {"B": b}) for b in BLOCKS])
# block types that are scalar (the header's static_assert lets them through) but cannot be used as blocks: ill-formed on the
# unchanged tree in every configuration
T(header="xdynamic_bitset.hpp", post=["memory", "utility"], per_tu=3,
  entries=[("bitset::count", BS_OWN + " " + BS_ENTRIES[0][1]), ("view::count", BS_VIEW + " " + BS_ENTRIES[0][1])],
  kinds=[("float", {"B": "float"}), ("int*", {"B": "int*"})], probes={"float", "int*"})

# ---------------------------------------------------------------------------------------------------------------------------
# non-template functions x argument kinds (two translation units, linked)
STR_PRELUDE = r"""
namespace c19u {
struct to_string_val { std::string text; operator std::string() const { return text; } };
struct to_string_cref { std::string text; operator const std::string&() const { return text; } };
struct to_string_ref { std::string text; operator std::string&() { return text; } };
struct derived_string : std::string { derived_string(const char* p) : std::string(p) {} };
struct to_cstr { const char* p; operator const char*() const { return p; } };
enum small_enum { se_three = 3, se_seven = 7 };
struct pod { int a; int b; };
}
"""
# {A} = declarations, {X} = the argument expression.  The text is always "Zm9vYmFy" (encodes "foobar") so that every kind is
# valid input for BOTH functions.
STR_KINDS = [
    ("std::string lvalue", {"A": 'std::string s("Zm9vYmFy");', "X": "s"}),
    ("const std::string", {"A": 'const std::string s("Zm9vYmFy");', "X": "s"}),
    ("std::string rvalue", {"A": "", "X": 'std::string("Zm9vYmFy")'}),
    ("std::string moved", {"A": 'std::string s("Zm9vYmFy");', "X": "std::move(s)"}),
    ("string literal", {"A": "", "X": '"Zm9vYmFy"'}),
    ("const char*", {"A": 'const char* p = "Zm9vYmFy";', "X": "p"}),
    ("char*", {"A": 'char buf[] = "Zm9vYmFy"; char* p = buf;', "X": "p"}),
    ("char array", {"A": 'char buf[16] = "Zm9vYmFy";', "X": "buf"}),
    ("braced {pointer, count}", {"A": "", "X": '{"Zm9vYmFy----", 8}'}),
    ("braced {count, char}", {"A": "", "X": "{4, 'Q'}"}),
    ("braced char list", {"A": "", "X": "{'Z', 'm', '8', '='}"}),
    ("xtl::xfixed_string<16>", {"A": 'xtl::xfixed_string<16> s("Zm9vYmFy");', "X": "s"}),
    ("const xtl::xbasic_fixed_string<char,16>", {"A": 'const xtl::xbasic_fixed_string<char, 16> s("Zm9vYmFy");', "X": "s"}),
    ("xtl::xfixed_string rvalue", {"A": "", "X": 'xtl::xfixed_string<8>("Zm9vYmFy")'}),
    ("user type with operator std::string", {"A": 'c19u::to_string_val s{"Zm9vYmFy"};', "X": "s"}),
    ("user type with operator const std::string&", {"A": 'c19u::to_string_cref s{"Zm9vYmFy"};', "X": "s"}),
    ("user type with operator std::string&", {"A": 'c19u::to_string_ref s{"Zm9vYmFy"};', "X": "s"}),
    ("class derived from std::string", {"A": 'c19u::derived_string s("Zm9vYmFy");', "X": "s"}),
    ("std::reference_wrapper<std::string>", {"A": 'std::string s0("Zm9vYmFy"); std::reference_wrapper<std::string> s(s0);', "X": "s"}),
    ("std::cref(std::string)", {"A": 'std::string s0("Zm9vYmFy");', "X": "std::cref(s0)"}),
    ("std::string + literal", {"A": 'std::string s("Zm9v");', "X": 's + "YmFy"'}),
    ("std::string::substr", {"A": 'std::string s("--Zm9vYmFy");', "X": "s.substr(2)"}),
    ("conditional of std::string lvalues", {"A": 'std::string s("Zm9vYmFy"), t("QUJD");', "X": "(s.size() > 3 ? s : t)"}),
    ("user type with operator const char*", {"A": 'c19u::to_cstr s{"Zm9vYmFy"};', "X": "s"}),
    ("std::vector<char>", {"A": "std::vector<char> s(4, 'Q');", "X": "s"}),
]
T(header="xbase64.hpp", also=["xbasic_fixed_string.hpp"], post=["functional", "utility", "vector"], prelude=STR_PRELUDE, per_tu=13, two_tu=True,
  entries=[("base64encode", "{A} return c19_h(xtl::base64encode({X}));"),
           ("base64decode", "{A} return c19_h(xtl::base64decode({X}));"),
           ("base64 result kinds", "{A} std::string r1 = xtl::base64encode({X}); const std::string& r2 = xtl::base64decode(r1); auto r3 = xtl::base64decode(xtl::base64encode(r2)); "
                                   "std::string r4; r4 = xtl::base64encode(r3); return c19_h(r1) ^ (c19_h(r2) << 1) ^ (c19_h(r3) << 2) ^ (c19_h(r4) << 3) ^ xtl::base64encode(r4).size();")],
  kinds=STR_KINDS, probes={"user type with operator const char*", "std::vector<char>"})

INT_KINDS = [(k, {"I": k, "N": "static_cast<c19_I>(3)" if "integral_constant" not in k else "c19_I()"}) for k in ["std::size_t", "int", "unsigned", "long", "unsigned long", "long long", "unsigned long long", "short", "unsigned short", "char", "signed char",
                                     "unsigned char", "bool", "c19u::small_enum", "std::integral_constant<int, 3>", "std::uint32_t", "std::uint64_t", "double", "char16_t", "wchar_t"]]
BUF_KINDS = [
    ("const char array", {"A": 'static const char buf[] = "the quick brown fox jumps";', "X": "buf"}),
    ("const char*", {"A": 'const char* p = "the quick brown fox jumps";', "X": "p"}),
    ("char*", {"A": 'char buf[] = "the quick brown fox jumps"; char* p = buf;', "X": "p"}),
    ("string literal", {"A": "", "X": '"the quick brown fox jumps"'}),
    ("unsigned char*", {"A": "unsigned char buf[25]; for (int i = 0; i < 25; ++i) buf[i] = static_cast<unsigned char>(i * 7); unsigned char* p = buf;", "X": "p"}),
    ("const void*", {"A": 'const void* p = "the quick brown fox jumps";', "X": "p"}),
    ("void*", {"A": 'char buf[] = "the quick brown fox jumps"; void* p = buf;', "X": "p"}),
    ("std::string::data()", {"A": 'std::string s("the quick brown fox jumps");', "X": "s.data()"}),
    ("std::string::c_str()", {"A": 'const std::string s("the quick brown fox jumps");', "X": "s.c_str()"}),
    ("int array", {"A": "int buf[7] = {1, 2, 3, 4, 5, 6, 7};", "X": "buf"}),
    ("pointer to struct", {"A": "c19u::pod buf[4] = {{1, 2}, {3, 4}, {5, 6}, {7, 8}};", "X": "&buf[0]"}),
    ("std::vector<unsigned char>::data()", {"A": "std::vector<unsigned char> v(25, 65);", "X": "v.data()"}),
    ("std::array<char,25>::data()", {"A": "std::array<char, 25> v; v.fill('x');", "X": "v.data()"}),
    ("&std::string[0]", {"A": 'std::string s("the quick brown fox jumps");', "X": "&s[0]"}),
    ("std::unique_ptr<char[]>::get()", {"A": "std::unique_ptr<char[]> v(new char[25]()); ", "X": "v.get()"}),
    ("const volatile char*", {"A": 'static const volatile char buf[] = "the quick brown fox jumps";', "X": "buf"}),
    ("std::string (no conversion to pointer)", {"A": 'std::string s("the quick brown fox jumps");', "X": "s"}),
]
HASHFNS = ["hash_bytes", "murmur2_x86", "murmur2_x64"]
T(header="xhash.hpp", post=["array", "memory", "vector", "cstdint", "type_traits"], prelude=STR_PRELUDE, per_tu=9, two_tu=True,
  entries=[("%s(buffer kind)" % f, "{A} return xtl::%s({X}, 25, 7);" % f) for f in HASHFNS],
  kinds=BUF_KINDS, probes={"const volatile char*", "std::string (no conversion to pointer)"})
T(header="xhash.hpp", post=["cstdint", "type_traits"], prelude=STR_PRELUDE, per_tu=10, two_tu=True,
  entries=[("%s(length kind)" % f, 'static const char buf[] = "the quick brown fox jumps"; {I} n = {N}; return xtl::%s(buf, n, 7);' % f) for f in HASHFNS]
          + [("%s(seed kind)" % f, 'static const char buf[] = "the quick brown fox jumps"; {I} n = {N}; return xtl::%s(buf, 25, n);' % f) for f in HASHFNS]
          + [("%s(result kind)" % f, 'static const char buf[] = "the quick brown fox jumps"; {I} r = static_cast<{I}>(xtl::%s(buf, 25, 7)); auto r2 = xtl::%s(buf, 25, 7); return static_cast<unsigned long long>(r != {I}()) + 2 * (r2 != 0);' % (f, f)) for f in HASHFNS],
  kinds=INT_KINDS, typedefs=("I",), skip={("%s(result kind)" % f, "std::integral_constant<int, 3>") for f in HASHFNS})

T(header="xsystem.hpp", also=["xplatform.hpp"], prelude=STR_PRELUDE, per_tu=8, two_tu=True,
  entries=[("executable_path", "{R} r = xtl::executable_path(); return {V};"),
           ("prefix_path", "{R} r = xtl::prefix_path(); return {V};")],
  kinds=[("std::string", {"R": "std::string", "V": "!r.empty()"}), ("const std::string&", {"R": "const std::string&", "V": "!r.empty()"}),
         ("auto", {"R": "auto", "V": "r.size() > 0"}), ("auto&&", {"R": "auto&&", "V": "r.length() > 0"}), ("const auto&", {"R": "const auto&", "V": "r[0] == '/'"}),
         ("std::string&&", {"R": "std::string&&", "V": "r.find('/') == 0"}),
         ("xtl::xbasic_fixed_string<char,4096>", {"R": "xtl::xbasic_fixed_string<char, 4096>", "V": "r.size() > 0"}),
         ("const char* (no conversion)", {"R": "const char*", "V": "r != nullptr"})],
  probes={"const char* (no conversion)"})
T(header="xplatform.hpp", per_tu=8, two_tu=True,
  entries=[("endianness", "{R} e = {C}xtl::endianness(){D}; return static_cast<unsigned long long>({V});")],
  kinds=[("xtl::endian", {"R": "xtl::endian", "C": "", "D": "", "V": "e == xtl::endian::little_endian"}),
         ("auto", {"R": "auto", "C": "", "D": "", "V": "e != xtl::endian::big_endian"}),
         ("const xtl::endian&", {"R": "const xtl::endian&", "C": "", "D": "", "V": "e == xtl::endian::little_endian"}),
         ("static_cast<int>", {"R": "int", "C": "static_cast<int>(", "D": ")", "V": "e == static_cast<int>(xtl::endian::little_endian)"}),
         ("switch", {"R": "int", "C": "0; switch (", "D": ") { case xtl::endian::big_endian: e = 1; break; case xtl::endian::little_endian: e = 2; break; default: e = 3; }", "V": "e"}),
         ("int (no implicit conversion from a scoped enum)", {"R": "int", "C": "", "D": "", "V": "e"})],
  probes={"int (no implicit conversion from a scoped enum)"})

# ---------------------------------------------------------------------------------------------------------------------------
# xhalf_float.hpp: half x every arithmetic type (constructor template, conversions, half_cast both ways, mixed operators)
ARITH = ["bool", "char", "signed char", "unsigned char", "short", "unsigned short", "int", "unsigned int", "long", "unsigned long", "long long", "unsigned long long",
         "float", "double", "long double"]
HALF_PRE = r"""
namespace c19u { inline unsigned long long hb(half_float::half h) { unsigned short u; std::memcpy(&u, &h, sizeof(u)); return u; } }
"""
T(header="xhalf_float.hpp", post=["cstring"], prelude=HALF_PRE, per_tu=8,
  entries=[("half(T)", "{T} v = static_cast<{T}>(1); xtl::half_float h(v); xtl::half_float g = v; return c19u::hb(h) ^ (c19u::hb(g) << 16);"),
           ("half = T", "{T} v = static_cast<{T}>(1); xtl::half_float h; h = v; return c19u::hb(h);"),
           ("T(half)", "xtl::half_float h(1.0f); {T} v = static_cast<{T}>(h); {T} w = h; return static_cast<unsigned long long>(v) + 16 * static_cast<unsigned long long>(w);"),
           ("half_cast<half>(T)", "{T} v = static_cast<{T}>(1); return c19u::hb(half_float::half_cast<half_float::half>(v)) ^ (c19u::hb(half_float::half_cast<half_float::half, std::round_to_nearest>(v)) << 16);"),
           ("half_cast<T>(half)", "xtl::half_float h(1.0f); return static_cast<unsigned long long>(half_float::half_cast<{T}>(h)) + 16 * static_cast<unsigned long long>(half_float::half_cast<{T}, std::round_toward_zero>(h));"),
           ("half op T", "{T} v = static_cast<{T}>(1); xtl::half_float h(1.0f); auto s = h + v; auto d = v - h; auto p = h * v; auto q = v / h; "
                         "return static_cast<unsigned long long>(s) + 4 * static_cast<unsigned long long>(d) + 16 * static_cast<unsigned long long>(p) + 64 * static_cast<unsigned long long>(q) "
                         "+ 256 * (h == v) + 512 * (v != h) + 1024 * (h < v) + 2048 * (v <= h) + 4096 * (h > v) + 8192 * (v >= h);"),
           ("half op= T", "{T} v = static_cast<{T}>(1); xtl::half_float h(2.0f); h += v; h -= v; h *= v; h /= v; return c19u::hb(h);"),
           ("traits<half>/numeric_limits", "return xtl::is_scalar<xtl::half_float>::value + 2 * xtl::is_arithmetic<xtl::half_float>::value + 4 * xtl::is_signed<xtl::half_float>::value "
                                           "+ 8 * xtl::is_floating_point<xtl::half_float>::value + 16 * (sizeof({T}) >= 1) + 32 * std::numeric_limits<xtl::half_float>::is_specialized;")],
  kinds=[(t, {"T": t}) for t in ARITH], typedefs=("T",))

# ---------------------------------------------------------------------------------------------------------------------------
# xcompare.hpp: every cmp_* function x every ordered pair of standard integer types
CMP_INTS = ["signed char", "unsigned char", "short", "unsigned short", "int", "unsigned int", "long", "unsigned long", "long long", "unsigned long long"]
T(header="xcompare.hpp", per_tu=50,
  entries=[("cmp_*", "constexpr {A} a = static_cast<{A}>(-1); constexpr {B} b = static_cast<{B}>(1); constexpr bool ce = xtl::cmp_less(a, b); "
                     "return xtl::cmp_equal(a, b) + 2 * xtl::cmp_not_equal(a, b) + 4 * xtl::cmp_less(a, b) + 8 * xtl::cmp_greater(a, b) + 16 * xtl::cmp_less_equal(a, b) + 32 * xtl::cmp_greater_equal(a, b) + 64 * ce;")],
  kinds=[("%s, %s" % (a, b), {"A": a, "B": b}) for a in CMP_INTS for b in CMP_INTS], typedefs=("A", "B"))

# ---------------------------------------------------------------------------------------------------------------------------
# xbasic_fixed_string.hpp: std::basic_string-like entry points x the kind of SOURCE argument
FS_SRC = [
    ("string literal", {"A": "", "X": '"abc"'}),
    ("const char*", {"A": 'const char* p = "abc";', "X": "p"}),
    ("char array", {"A": 'char p[8] = "abc";', "X": "p"}),
    ("std::string", {"A": 'std::string p("abc");', "X": "p"}),
    ("const std::string rvalue", {"A": "", "X": 'std::string("abc")'}),
    ("same fixed string type", {"A": 'FS p("abc");', "X": "p"}),
    ("fixed string of another capacity", {"A": 'xtl::xfixed_string<5> p("abc");', "X": "p"}),
    ("fixed string with another storage/error policy", {"A": 'xtl::xbasic_fixed_string<char, 16, xtl::buffer, xtl::string_policy::throwing_error> p("abc");', "X": "p"}),
    ("user type with operator std::string", {"A": 'c19u::to_string_val p{"abc"};', "X": "p"}),
    ("user type with operator const char*", {"A": 'c19u::to_cstr p{"abc"};', "X": "p"}),
]
T(header="xbasic_fixed_string.hpp", post=["functional", "sstream"], prelude=STR_PRELUDE + "typedef xtl::xfixed_string<16> FS;\n", per_tu=4,
  entries=[("constructor", "{A} FS s({X}); return c19_h(std::string(s.c_str())) ^ s.size();"),
           ("operator=", "{A} FS s; s = {X}; return c19_h(std::string(s.c_str())) ^ s.size();"),
           ("assign", "{A} FS s(\"zz\"); s.assign({X}); return c19_h(std::string(s.c_str())) ^ s.size();"),
           ("append/+=", "{A} FS s(\"zz\"); s.append({X}); s += {X}; return c19_h(std::string(s.c_str())) ^ s.size();"),
           ("insert", "{A} FS s(\"zz\"); s.insert(1, {X}); return c19_h(std::string(s.c_str())) ^ s.size();"),
           ("replace", "{A} FS s(\"zzzz\"); s.replace(1, 2, {X}); return c19_h(std::string(s.c_str())) ^ s.size();"),
           ("compare", "{A} FS s(\"abd\"); return (s.compare({X}) > 0) + 2 * (s.compare(0, 2, {X}) < 0);"),
           ("find family", "{A} FS s(\"xxabcabc\"); return s.find({X}) + 16 * s.rfind({X}) + 256 * s.find_first_of({X}) + 4096 * s.find_first_not_of({X}) + 65536 * s.find_last_not_of({X});"),
           ("relational operators", "{A} FS s(\"abd\"); return (s == {X}) + 2 * (s != {X}) + 4 * (s < {X}) + 8 * (s <= {X}) + 16 * (s > {X}) + 32 * (s >= {X}) + 64 * ({X} == s) + 128 * ({X} < s);"),
           ("operator+", "{A} FS s(\"zz\"); auto r = s + {X}; auto q = {X} + s; return c19_h(std::string(r.c_str())) ^ (c19_h(std::string(q.c_str())) << 1);")],
  kinds=FS_SRC)
T(header="xbasic_fixed_string.hpp", post=["functional", "sstream", "string"], prelude="typedef xtl::xfixed_string<16> FS;\n", per_tu=8,
  entries=[("conversion to", "FS s(\"abc\"); {D} return {V};")],
  kinds=[("std::string (copy-initialisation)", {"D": "std::string r = s;", "V": "c19_h(r)"}),
         ("std::string (direct)", {"D": "std::string r(s);", "V": "c19_h(r)"}),
         ("const std::string& parameter", {"D": "struct L { static std::size_t f(const std::string& x) { return x.size(); } };", "V": "L::f(s)"}),
         ("std::string assignment", {"D": "std::string r; r = s;", "V": "c19_h(r)"}),
         ("static_cast<std::string>", {"D": "", "V": "c19_h(static_cast<std::string>(s))"}),
         ("std::ostream <<", {"D": "std::ostringstream os; os << s;", "V": "c19_h(os.str())"}),
         ("std::istream >>", {"D": 'std::istringstream is("hello world"); is >> s;', "V": "c19_h(std::string(s.c_str()))"}),
         ("std::hash", {"D": "std::size_t h1 = std::hash<FS>()(s), h2 = std::hash<FS>()(FS(\"abc\"));", "V": "h1 == h2"}),
         ("const char* via c_str/data", {"D": "const char* p = s.c_str(); const char* q = s.data();", "V": "(p[0] == 'a') + 2 * (q[2] == 'c')"}),
         ("range-for / iterators", {"D": "unsigned long long n = 0; for (char c : s) n += static_cast<unsigned char>(c); n += static_cast<unsigned long long>(s.end() - s.begin()) + (s.rend() - s.rbegin());", "V": "n"})])

# ---------------------------------------------------------------------------------------------------------------------------
# xcomplex.hpp: value types x ieee mode x operand kinds
T(header="xcomplex.hpp", post=["complex", "sstream", "cmath"], per_tu=3,
  entries=[("construct", "typedef xtl::xcomplex<{T}, {T}, {I}> C; C a; C b({T}(1)); C c({T}(1), {T}(2)); C d(c); C e(std::complex<{T}>({T}(3), {T}(4))); C f = {T}(5); "
                         "return static_cast<unsigned long long>(a.real() + b.real() + 2 * c.imag() + 8 * d.real() + 16 * e.imag() + 128 * f.real());"),
           ("arithmetic with xcomplex", "typedef xtl::xcomplex<{T}, {T}, {I}> C; C a({T}(1), {T}(2)), b({T}(3), {T}(4)); C s = a + b, d = b - a, p = a * b, q = (a * b) / a, n = -a, u = +a; C z(a); z += b; z -= a; z *= a; z /= a; "
                                       "return static_cast<unsigned long long>(s.real() + 10 * s.imag() + 100 * d.real() + 1000 * d.imag() + 10000 * (p.real() + 5) + 100000 * p.imag() + 1000000 * q.real() + 3 * n.imag() + u.real() + z.real());"),
           ("arithmetic with scalar", "typedef xtl::xcomplex<{T}, {T}, {I}> C; C a({T}(1), {T}(2)); {T} k = {T}(2); C s = a + k, s2 = k + a, d = a - k, d2 = k - a, p = a * k, p2 = k * a, q = a / k; C z(a); z = k; z += k; z -= k; z *= k; z /= k; "
                                     "return static_cast<unsigned long long>(s.real() + s2.real() + 10 * (d.real() + 5) + 100 * d2.real() + 1000 * p.imag() + 10000 * p2.real() + 100000 * q.imag() + 1000000 * z.real());"),
           ("arithmetic with std::complex", "typedef xtl::xcomplex<{T}, {T}, {I}> C; C a({T}(1), {T}(2)); std::complex<{T}> k({T}(3), {T}(4)); C s = a + k, d = a - k, p = a * k; C z(a); z = k; std::complex<{T}> back(a); "
                                           "return static_cast<unsigned long long>(s.real() + 10 * (d.real() + 5) + 100 * p.imag() + 1000 * z.real() + 10000 * back.imag() + 100000 * (a == C(k)) + 200000 * (a != C(k)));"),
           ("std::complex as LEFT operand", "typedef xtl::xcomplex<{T}, {T}, {I}> C; C a({T}(1), {T}(2)); std::complex<{T}> k({T}(3), {T}(4)); C s2 = k + a, d = k - a; return static_cast<unsigned long long>(s2.imag() + 10 * d.real());"),
           ("free functions", "typedef xtl::xcomplex<{T}, {T}, {I}> C; C a({T}(3), {T}(4)); auto c = xtl::conj(a); {T} n = xtl::norm(a); {T} r = xtl::real(a) + xtl::imag(a); {T} m = xtl::abs(a); "
                              "bool fin = !std::isnan(xtl::exp(a).real()) && !std::isinf(xtl::log(a).real()) && !std::isnan(xtl::sqrt(a).real()) && !std::isnan(xtl::pow(a, a).real()) && !std::isnan((xtl::sin(a) + xtl::cos(a) + xtl::tan(a)).real()) && !std::isnan((xtl::sinh(a) + xtl::cosh(a) + xtl::tanh(a)).imag()); "
                              "(void) xtl::arg(a); (void) xtl::log10(a); "
                              "return static_cast<unsigned long long>(-c.imag() + 10 * n + 1000 * r + 10000 * (m > 4.5 && m < 5.5) + 100000 * fin);"),
           ("stream", "typedef xtl::xcomplex<{T}, {T}, {I}> C; C a({T}(1), {T}(2)); std::ostringstream os; os << a; return c19_h(os.str());")],
  kinds=[("%s, ieee_compliant=%s" % (t, i), {"T": t, "I": i}) for t in ("float", "double", "long double") for i in ("false", "true")], typedefs=("T",))

# ---------------------------------------------------------------------------------------------------------------------------
# xoptional.hpp / xmasked_value.hpp / xany.hpp / xspan.hpp / xclosure.hpp / xfunctional.hpp / xsequence.hpp: value-type kinds
OPT_ARITH = ["int", "unsigned int", "long", "long long", "short", "char", "unsigned char", "float", "double", "long double", "bool", "std::size_t"]
T(header="xoptional.hpp", post=["sstream", "string"], per_tu=4,
  entries=[("construct/access", "typedef xtl::xoptional<{T}> O; O a; O b({T}(1)); O c({T}(1), true); O d({T}(1), false); O e = xtl::missing<{T}>(); O f = xtl::optional({T}(1), true); O g(b); "
                                "return a.has_value() + 2 * b.has_value() + 4 * c.has_value() + 8 * d.has_value() + 16 * e.has_value() + 32 * (f.value() == {T}(1)) + 64 * (d.value_or({T}(0)) == {T}(0)) + 128 * g.has_value() + 256 * (b == c) + 512 * (b == {T}(1)) + 1024 * (d != b);"),
           ("arithmetic", "typedef xtl::xoptional<{T}> O; O a({T}(1)), b({T}(1)), m = xtl::missing<{T}>(); auto s = a + b; auto d = a - b; auto p = a * b; auto q = a / b; auto sm = a + m; auto sk = a + {T}(1); auto ks = {T}(1) + a; O z(a); z += b; z -= b; z *= b; z /= b; z += {T}(1); "
                          "return static_cast<unsigned long long>(s.value()) + 4 * d.has_value() + 8 * static_cast<unsigned long long>(p.value()) + 16 * static_cast<unsigned long long>(q.value()) + 32 * sm.has_value() + 64 * static_cast<unsigned long long>(sk.value()) + 256 * static_cast<unsigned long long>(ks.value()) + 1024 * static_cast<unsigned long long>(z.value());"),
           ("comparisons", "typedef xtl::xoptional<{T}> O; O a({T}(0)), b({T}(1)), m = xtl::missing<{T}>(); return (a < b).value() + 2 * (a <= b).value() + 4 * (a > b).value() + 8 * (a >= b).value() + 16 * (a < m).has_value() + 32 * (a == m) + 64 * (m == m) + 128 * (a < {T}(1)).value();"),
           ("reference proxy", "{T} v = {T}(0); bool f = true; xtl::xoptional<{T}&, bool&> r(v, f); r = {T}(1); xtl::xoptional<const {T}&, const bool&> cr(v, f); xtl::xoptional<{T}> copy(r); r = xtl::missing<{T}>(); "
                               "return (v == {T}(1)) + 2 * f + 4 * copy.has_value() + 8 * cr.has_value() + 16 * (copy.value() == {T}(1));"),
           ("stream", "xtl::xoptional<{T}> a({T}(1)), m = xtl::missing<{T}>(); std::ostringstream os; os << a << ' ' << m; return c19_h(os.str());")],
  kinds=[(t, {"T": t}) for t in OPT_ARITH], typedefs=("T",))
T(header="xmasked_value.hpp", post=["sstream"], per_tu=4,
  entries=[("construct/access", "typedef xtl::xmasked_value<{T}> M; M a({T}(1)); M b({T}(1), false); M c = xtl::masked<{T}>(); M d(a); return a.visible() + 2 * b.visible() + 4 * c.visible() + 8 * (a.value() == {T}(1)) + 16 * (a == d) + 32 * (a == {T}(1)) + 64 * (a != b) + 128 * (b == c);"),
           ("arithmetic", "typedef xtl::xmasked_value<{T}> M; M a({T}(1)), b({T}(1)), m({T}(1), false); auto s = a + b; auto d = a - b; auto p = a * b; auto q = a / b; auto sm = a + m; auto sk = a + {T}(1); auto ks = {T}(1) + a; M z(a); z += b; z -= b; z *= b; z /= b; z += {T}(1); "
                          "return static_cast<unsigned long long>(s.value()) + 4 * d.visible() + 8 * static_cast<unsigned long long>(p.value()) + 16 * static_cast<unsigned long long>(q.value()) + 32 * sm.visible() + 64 * static_cast<unsigned long long>(sk.value()) + 256 * static_cast<unsigned long long>(ks.value()) + 1024 * static_cast<unsigned long long>(z.value());"),
           ("comparisons", "typedef xtl::xmasked_value<{T}> M; M a({T}(0)), b({T}(1)); return bool(a < b) + 2 * bool(a <= b) + 4 * bool(a > b) + 8 * bool(a >= b) + 16 * bool(a < {T}(1));"),
           ("stream", "xtl::xmasked_value<{T}> a({T}(1)), m({T}(1), false); std::ostringstream os; os << a << ' ' << m; return c19_h(os.str());")],
  kinds=[(t, {"T": t}) for t in OPT_ARITH if t != "bool"], typedefs=("T",))

ANY_KINDS = [
    ("int", {"T": "int", "V": "7"}), ("bool", {"T": "bool", "V": "true"}), ("char", {"T": "char", "V": "'x'"}), ("double", {"T": "double", "V": "2.5"}), ("long double", {"T": "long double", "V": "2.5L"}),
    ("std::string", {"T": "std::string", "V": 'std::string("payload")'}), ("const char*", {"T": "const char*", "V": 'static_cast<const char*>("lit")'}),
    ("std::vector<int>", {"T": "std::vector<int>", "V": "std::vector<int>(3, 1)"}), ("large struct", {"T": "c19u::big", "V": "c19u::big()"}),
    ("std::shared_ptr<int>", {"T": "std::shared_ptr<int>", "V": "std::make_shared<int>(3)"}), ("enum", {"T": "c19u::small_enum", "V": "c19u::se_seven"}),
    ("std::nullptr_t", {"T": "std::nullptr_t", "V": "nullptr"}), ("function pointer", {"T": "c19u::fn_t", "V": "&c19u::fn"}),
    ("type with throwing move", {"T": "c19u::thr_move", "V": "c19u::thr_move()"}),
    ("std::pair<int,std::string>", {"T": "std::pair<int, std::string>", "V": 'std::pair<int, std::string>(1, "x")'}),
]
T(header="xany.hpp", post=["memory", "string", "utility", "vector"], per_tu=4,
  prelude=STR_PRELUDE + "namespace c19u { struct big { double d[8]; bool operator==(const big&) const { return true; } }; typedef int (*fn_t)(int); inline int fn(int x) { return x; } "
                        "struct thr_move { thr_move() {} thr_move(const thr_move&) {} thr_move(thr_move&&) {} bool operator==(const thr_move&) const { return true; } }; }\n",
  entries=[("construct/assign", "{T} v = {V}; const {T} cv = {V}; xtl::any a(v); xtl::any b(cv); xtl::any c = xtl::any({T}({V})); xtl::any d; d = v; d = cv; d = {V}; xtl::any e(a); xtl::any f(std::move(b)); d = e; d = std::move(f); "
                                "return a.has_value() + 2 * c.has_value() + 4 * d.has_value() + 8 * e.has_value() + 16 * (a.type() == typeid({T})) + 32 * !a.empty();"),
           ("any_cast", "{T} v0 = {V}; xtl::any a(v0); const xtl::any ca(a); {T} v1 = xtl::any_cast<{T}>(a); {T} v2 = xtl::any_cast<{T}>(ca); {T}& r1 = xtl::any_cast<{T}&>(a); const {T}& r2 = xtl::any_cast<const {T}&>(ca); "
                        "{T} v3 = xtl::any_cast<{T}>(xtl::any({T}({V}))); {T}* p1 = xtl::any_cast<{T}>(&a); const {T}* p2 = xtl::any_cast<{T}>(&ca); (void) v1; (void) v2; (void) v3; (void) r2; "
                        "return (p1 == &r1) + 2 * (p2 != nullptr) + 4 * (xtl::any_cast<short>(&a) == nullptr);"),
           ("swap/reset", "{T} v0 = {V}; xtl::any a(v0), b; a.swap(b); std::swap(a, b); b.reset(); return a.has_value() + 2 * b.has_value();")],
  kinds=ANY_KINDS, typedefs=("T",))

SPAN_T = ["int", "const int", "double", "char", "const char", "unsigned char", "std::string", "const std::string", "c19u::pod", "int*", "std::size_t"]
T(header="xspan.hpp", post=["array", "string", "vector"], prelude=STR_PRELUDE, per_tu=4,
  entries=[("construct", "typedef {T} E; typedef std::remove_const<E>::type V; V arr[4] = {{}}; std::array<V, 4> sa = {{}}; std::vector<V> vec(4); "
                         "xtl::span<E> a; xtl::span<E> b(arr, 4); xtl::span<E> c(arr, arr + 4); xtl::span<E> d(arr); xtl::span<E> e(sa); xtl::span<E> f(vec); xtl::span<E> g(b); xtl::span<E, 4> h(arr); xtl::span<const V> i(b); xtl::span<E> j(h); "
                         "return a.size() + 2 * b.size() + 16 * c.size() + 128 * d.size() + 1024 * e.size() + 8192 * f.size() + 65536 * g.size() + 524288 * h.size() + 4194304 * i.size() + 33554432 * j.size() + (a.empty() ? 1 : 0);"),
           ("construct from const containers", "typedef {T} E; typedef std::remove_const<E>::type V; const V arr[4] = {{}}; const std::array<V, 4> sa = {{}}; const std::vector<V> vec(4); "
                                               "xtl::span<const V> d(arr); xtl::span<const V> e(sa); xtl::span<const V> f(vec); return d.size() + 16 * e.size() + 256 * f.size();"),
           ("observers/subviews", "typedef {T} E; typedef std::remove_const<E>::type V; V arr[6] = {{}}; xtl::span<E> s(arr); auto f = s.first(2); auto l = s.last(3); auto m = s.subspan(1, 4); auto t = s.subspan(2); auto f2 = s.first<2>(); auto l2 = s.last<3>(); auto m2 = s.subspan<1, 4>(); "
                                  "return f.size() + 8 * l.size() + 64 * m.size() + 512 * t.size() + 4096 * f2.size() + 32768 * l2.size() + 262144 * m2.size() + 2097152 * s.size_bytes() + (&s[1] == &arr[1]) + 2 * (&s.front() == arr) + 4 * (&s.back() == arr + 5) + 1024 * (s.data() == arr);"),
           ("iteration", "typedef {T} E; typedef std::remove_const<E>::type V; V arr[5] = {{}}; xtl::span<E> s(arr); unsigned long long n = 0; for (E& x : s) n += (&x >= arr); for (auto it = s.rbegin(); it != s.rend(); ++it) ++n; "
                         "n += static_cast<unsigned long long>(s.end() - s.begin()); return n;"),
           ],
  kinds=[(t, {"T": t}) for t in SPAN_T], typedefs=("T",))

CLO_KINDS = [("int", {"T": "int", "V": "3"}), ("double", {"T": "double", "V": "1.5"}), ("std::string", {"T": "std::string", "V": 'std::string("s")'}), ("std::vector<int>", {"T": "std::vector<int>", "V": "std::vector<int>(2, 1)"}),
             ("bool", {"T": "bool", "V": "true"}), ("pointer", {"T": "const char*", "V": 'static_cast<const char*>("p")'})]
T(header="xclosure.hpp", post=["string", "vector"], per_tu=6,
  entries=[("closure of lvalue / const lvalue / rvalue", "{T} v = {V}; const {T} cv = {V}; auto a = xtl::closure(v); auto b = xtl::closure(cv); auto c = xtl::closure({T}({V})); auto d = xtl::const_closure(v); "
                                                        "return (&a.get() == &v) + 2 * (&b.get() == &cv) + 4 * (c.get() == cv) + 8 * (&d.get() == &v) + 16 * std::is_same<xtl::closure_type_t<{T}&>, {T}&>::value + 32 * std::is_same<xtl::closure_type_t<{T}>, {T}>::value "
                                                        "+ 64 * std::is_same<xtl::const_closure_type_t<{T}&>, const {T}&>::value;"),
           ("closure_pointer", "{T} v = {V}; auto p = xtl::closure_pointer(v); auto q = xtl::closure_pointer({T}({V})); return (&*p == &v) + 2 * (*q == v);"),
           ("wrapper copy/assign/compare", "{T} v = {V}; {T} w = {V}; auto a = xtl::closure(v); auto b = xtl::closure(w); auto c(a); a = b; return (a == b) + 2 * (a != c) + 4 * (v == w);")],
  kinds=CLO_KINDS, typedefs=("T",))

SEQ_KINDS = [("std::vector<int>", {"S": "std::vector<int>"}), ("std::vector<std::size_t>", {"S": "std::vector<std::size_t>"}), ("std::array<int,3>", {"S": "std::array<int, 3>"}),
             ("std::array<std::size_t,3>", {"S": "std::array<std::size_t, 3>"}), ("std::deque<long>", {"S": "std::deque<long>"}), ("std::list<int>", {"S": "std::list<int>"}), ("std::vector<double>", {"S": "std::vector<double>"})]
T(header="xsequence.hpp", post=["array", "deque", "list", "vector"], per_tu=7,
  entries=[("make_sequence(size)", "auto s = xtl::make_sequence<{S}>(3); return s.size();"),
           ("make_sequence(size, value)", "auto s = xtl::make_sequence<{S}>(3, 2); unsigned long long n = 0; for (auto x : s) n += static_cast<unsigned long long>(x); return n + 100 * s.size();"),
           ("make_sequence(initializer_list)", "auto s = xtl::make_sequence<{S}>({{1, 2, 3}}); unsigned long long n = 0; for (auto x : s) n += static_cast<unsigned long long>(x); return n + 100 * s.size();"),
           ("forward_sequence", "{S} src = xtl::make_sequence<{S}>(3, 2); auto s = xtl::forward_sequence<{S}, {S}&>(src); auto t = xtl::forward_sequence<std::vector<long>, {S}&>(src); return s.size() + 10 * t.size();")],
  kinds=SEQ_KINDS)

FUN_ARITH = ["int", "unsigned", "long", "short", "char", "bool", "float", "double", "long double", "std::size_t"]
T(header="xfunctional.hpp", per_tu=10,
  entries=[("select", "{T} a = {T}(1), b = {T}(0); return static_cast<unsigned long long>(xtl::select(true, a, b)) + 2 * static_cast<unsigned long long>(xtl::select(false, a, b)) + 4 * static_cast<unsigned long long>(xtl::select(true, {T}(1), {T}(0)));"),
           ("identity", "{T} a = {T}(1); const {T} c = {T}(1); xtl::identity id; return static_cast<unsigned long long>(id(a)) + 2 * static_cast<unsigned long long>(id(c)) + 4 * static_cast<unsigned long long>(id({T}(1))) + 8 * (&id(a) == &a);")],
  kinds=[(t, {"T": t}) for t in FUN_ARITH], typedefs=("T",))

VAR_KINDS = [("int", {"X": "3", "I": "0"}), ("short (converts to int)", {"X": "static_cast<short>(3)", "I": "0"}), ("char (converts to int)", {"X": "'c'", "I": "0"}), ("double", {"X": "2.5", "I": "1"}),
             ("float (converts to double)", {"X": "2.5f", "I": "1"}), ("std::string", {"X": 'std::string("s")', "I": "2"}), ("string literal", {"X": '"lit"', "I": "2"}),
             ("const char*", {"X": 'static_cast<const char*>("p")', "I": "2"}), ("xtl::xfixed_string (two conversions)", {"X": 'xtl::xfixed_string<8>("f")', "I": "2"}),
             ("unsigned (ambiguous)", {"X": "3u", "I": "0"}), ("bool", {"X": "true", "I": "0"})]
T(header="xvariant.hpp", also=["xbasic_fixed_string.hpp"], post=["string"], per_tu=5,
  entries=[("converting constructor", "typedef xtl::variant<int, double, std::string> V; V v({X}); return v.index() + 10 * ({I} == static_cast<int>(v.index()));"),
           ("converting assignment", "typedef xtl::variant<int, double, std::string> V; V v; v = {X}; return v.index();"),
           ("emplace/get/visit", "typedef xtl::variant<int, double, std::string> V; V v; v.emplace<{I}>({X}); V w(v); unsigned long long n = xtl::visit([](const auto& x) {{ return static_cast<unsigned long long>(sizeof(x)); }}, v); "
                                 "return v.index() + 10 * (xtl::get_if<{I}>(&v) != nullptr) + 100 * xtl::holds_alternative<int>(v) + 1000 * (v == w) + 2000 * (v < w) + 10000 * n + (std::hash<V>()(v) == std::hash<V>()(w));")],
  kinds=VAR_KINDS, probes={"xtl::xfixed_string (two conversions)", "unsigned (ambiguous)"},
  skip={("emplace/get/visit", "bool"), ("emplace/get/visit", "unsigned (ambiguous)")})


# ---------------------------------------------------------------------------------------------------------------------------
def _load_rejected():
    import json
    import os
    p = os.path.join(os.path.dirname(os.path.abspath(__file__)), "uses_rejected.json")
    if not os.path.exists(p):
        return set()
    return set(tuple(x) for x in json.load(open(p)))


# cells that are ill-formed on the unchanged tree in ALL 12 configurations (written by `probe_uses.py --write-rejected`; the
# committed decision, like the mode column of instantiations.py): they are capability probes, built one per TU in the thorough tier
REJECTED_EVERYWHERE = _load_rejected()


def _is_probe(t, entry, kind):
    return kind in t["probes"] or (entry, kind) in t["probes"] or (t["header"], entry, kind) in REJECTED_EVERYWHERE


def corpus():
    """-> (batches, probes).  batch = {name, header, also, post, prelude, two_tu, uses:[{id:(header, entry, kind), code}]};
    probes = the same structure with ONE use per batch (cells that are ill-formed on the unchanged tree everywhere)."""
    batches, probes = [], []
    per_header = collections.Counter()
    for t in TABLES:
        kinds_ok = [k for k in t["kinds"]]
        groups = [kinds_ok[i:i + t["per_tu"]] for i in range(0, len(kinds_ok), t["per_tu"])]
        for grp in groups:
            uses = []
            for kname, sub in grp:
                for ename, code in t["entries"]:
                    if (ename, kname) in t["skip"]:
                        continue
                    sub2 = dict(sub)
                    pre = ""
                    for f in t["typedefs"]:
                        pre += "typedef %s c19_%s; " % (sub[f], f)
                        sub2[f] = "c19_" + f
                    u = {"id": (t["header"], ename, kname), "code": pre + code.format(**sub2)}
                    if _is_probe(t, ename, kname):
                        per_header[t["header"] + "-probe"] += 1
                        probes.append(dict(t, name="%s-probe%d" % (t["header"].replace(".", "_"), per_header[t["header"] + "-probe"]), uses=[u]))
                    else:
                        uses.append(u)
            if uses:
                per_header[t["header"]] += 1
                batches.append(dict(t, name="%s-%d" % (t["header"].replace(".", "_"), per_header[t["header"]]), uses=uses))
    return batches, probes


def tu_text(batch, uses, tu=0, with_main=True):
    """Source text of one translation unit of a batch.  Returns (text, {line number -> index into uses})."""
    lines = ["// generated by checks/C19/check.py from uses.py (unit U6): header under test first"]
    lines.append("#include <xtl/%s>" % batch["header"])
    for h in batch["also"]:
        lines.append("#include <xtl/%s>" % h)
    for h in batch["post"]:
        lines.append("#include <%s>" % h)
    lines += COMMON.strip("\n").splitlines()
    if batch["prelude"]:
        lines += batch["prelude"].strip("\n").splitlines()
    linemap = {}
    pre = "c19_u" if tu == 0 else "c19_v"
    for i, u in enumerate(uses):
        lines.append("// ---- %s | %s | %s" % u["id"])
        lines.append("unsigned long long %s%d()" % (pre, i))
        lines.append("{")
        body = u["code"].strip()
        lines.append("    " + body)
        linemap[len(lines)] = i
        lines.append("}")
    if with_main:
        if batch["two_tu"]:
            for i in range(len(uses)):
                lines.append("unsigned long long c19_v%d();" % i)
        lines.append("int main()")
        lines.append("{")
        for i in range(len(uses)):
            lines.append('    std::printf("U %d %%llu\\n", c19_u%d()); std::fflush(stdout);' % (i, i))
            if batch["two_tu"]:
                lines.append('    std::printf("V %d %%llu\\n", c19_v%d()); std::fflush(stdout);' % (i, i))
        lines.append("    return 0;")
        lines.append("}")
    return "\n".join(lines) + "\n", linemap
