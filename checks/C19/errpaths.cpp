// C19 run-time part: one small scenario per error path of the library.
//
//   errpaths <k>      run scenario k (the driver runs every k in its own process)
//   errpaths --list   print "k name expected-exception" for every scenario
//
// Built once per configuration (compiler x -std x {exceptions, -fno-exceptions}).
//   exceptions enabled : the failing call must throw -> "CAUGHT <type>" (this is what makes the scenario an error
//                        path at all; it is the anti-vacuity evidence, judged as a note only)
//   -fno-exceptions    : the process must end inside the failing call; the line "AFTER <name>" must never appear.
// The driver reads the fate of the process (signal / exit status / which markers were printed).
// Compile with -DC19_ONLY=<k> to build just one scenario (used to attribute a build failure to a scenario).

#include <cstddef>
#include <cstdint>
#include <cstdio>
#include <cstdlib>
#include <cstring>
#include <exception>
#include <stdexcept>
#include <string>

#if defined(C19_ONLY)
#define C19_HAVE(k) ((k) == C19_ONLY)
#else
#define C19_HAVE(k) 1
#endif

// a single-scenario build (-DC19_ONLY=k) includes only the header(s) of that scenario, so that a build failure is
// attributed to the right header
#if C19_HAVE(0) || C19_HAVE(1) || C19_HAVE(2) || C19_HAVE(3) || C19_HAVE(4) || C19_HAVE(5)
#include "xtl/xbasic_fixed_string.hpp"
#endif
#if C19_HAVE(6) || C19_HAVE(7)
#include "xtl/xany.hpp"
#endif
#if C19_HAVE(8) || C19_HAVE(9)
#include "xtl/xvariant.hpp"
#endif
#if C19_HAVE(10) || C19_HAVE(11) || C19_HAVE(12)
#include "xtl/xdynamic_bitset.hpp"
#endif
#if C19_HAVE(13) || C19_HAVE(14)
#include "xtl/xmultimethods.hpp"
#endif
#if C19_HAVE(15)
#include "xtl/xvisitor.hpp"
#endif
#if C19_HAVE(16)
#include "xtl/xspan.hpp"
#endif

#if defined(__cpp_exceptions) || defined(__EXCEPTIONS)
#define C19_EXC 1
#else
#define C19_EXC 0
#endif

namespace c19
{
    volatile unsigned long long sink = 0;

#if C19_HAVE(0) || C19_HAVE(1) || C19_HAVE(2) || C19_HAVE(3) || C19_HAVE(4) || C19_HAVE(5)
    // the length checks are a policy of the fixed string; the default policy (silent_error) documents no error path
    typedef xtl::xbasic_fixed_string<char, 4, xtl::buffer | xtl::store_size, xtl::string_policy::throwing_error> fs4;
    typedef xtl::xbasic_fixed_string<char, 16, xtl::buffer | xtl::store_size, xtl::string_policy::throwing_error> fs16;
#endif

#if C19_HAVE(13) || C19_HAVE(14)
    // ---- multimethod fixtures
    struct shape
    {
        XTL_IMPLEMENT_INDEXABLE_CLASS()
        virtual ~shape() {}
    };
    struct circle : shape
    {
        XTL_IMPLEMENT_INDEXABLE_CLASS()
    };
    struct square : shape
    {
        XTL_IMPLEMENT_INDEXABLE_CLASS()
    };
    inline int circle_square(circle&, square&) { return 7; }
#endif

#if C19_HAVE(15)
    // ---- visitor fixtures
    struct node : xtl::base_visitable<int, false, xtl::throwing_catch_all>
    {
    };
    struct leaf_known : node
    {
        XTL_DEFINE_VISITABLE()
    };
    struct leaf_unknown : node
    {
        XTL_DEFINE_VISITABLE()
    };
    struct only_known_visitor : xtl::base_visitor, xtl::visitor<leaf_known, int, false>
    {
        int visit(leaf_known&) override { return 1; }
    };
#endif

    template <class F>
    int run_case(const char* name, F f)
    {
        std::printf("BEFORE %s\n", name);
        std::fflush(stdout);
#if C19_EXC
        try
        {
            f();
        }
        catch (const std::length_error&) { std::printf("CAUGHT std::length_error\n"); return 0; }
        catch (const std::out_of_range&) { std::printf("CAUGHT std::out_of_range\n"); return 0; }
#if C19_HAVE(6) || C19_HAVE(7)
        catch (const xtl::bad_any_cast&) { std::printf("CAUGHT xtl::bad_any_cast\n"); return 0; }
#endif
#if C19_HAVE(8) || C19_HAVE(9)
        catch (const xtl::bad_variant_access&) { std::printf("CAUGHT xtl::bad_variant_access\n"); return 0; }
#endif
        catch (const std::runtime_error&) { std::printf("CAUGHT std::runtime_error\n"); return 0; }
        catch (const std::exception&) { std::printf("CAUGHT std::exception\n"); return 0; }
        catch (...) { std::printf("CAUGHT unknown\n"); return 0; }
#else
        f();
#endif
        std::printf("AFTER %s\n", name);
        std::fflush(stdout);
        return 0;
    }
}

#define C19_CASES(X)                                                        \
    X(0, "fixed_string/ctor-too-long", "std::length_error")                 \
    X(1, "fixed_string/assign-count-too-long", "std::length_error")         \
    X(2, "fixed_string/append-overflow", "std::length_error")               \
    X(3, "fixed_string/at-out-of-range", "std::out_of_range")               \
    X(4, "fixed_string/substr-pos-out-of-range", "std::out_of_range")       \
    X(5, "fixed_string/insert-pos-out-of-range", "std::out_of_range")       \
    X(6, "any/any_cast-wrong-type", "xtl::bad_any_cast")                    \
    X(7, "any/any_cast-empty", "xtl::bad_any_cast")                         \
    X(8, "variant/get-wrong-type", "xtl::bad_variant_access")               \
    X(9, "variant/get-wrong-index", "xtl::bad_variant_access")              \
    X(10, "bitset_view/resize", "std::runtime_error")                       \
    X(11, "bitset/at-out-of-range", "std::out_of_range")                    \
    X(12, "bitset/const-at-out-of-range", "std::out_of_range")              \
    X(13, "functor_dispatcher/basic-callback-not-found", "std::runtime_error") \
    X(14, "functor_dispatcher/fast-callback-not-found", "std::runtime_error")  \
    X(15, "visitor/throwing_catch_all", "std::runtime_error")               \
    X(16, "span/at-out-of-range", "std::out_of_range")

int main(int argc, char** argv)
{
    using namespace c19;
    if (argc >= 2 && std::strcmp(argv[1], "--list") == 0)
    {
#define X(k, name, exc) if (C19_HAVE(k)) std::printf("%d %s %s\n", k, name, exc);
        C19_CASES(X)
#undef X
        return 0;
    }
    if (argc < 2)
    {
        return 2;
    }
    const int k = std::atoi(argv[1]);
    // the out-of-range quantities come from argv so that no compiler can fold the failing call away
    const std::size_t big = argc >= 3 ? static_cast<std::size_t>(std::atoi(argv[2])) : 9;

#if C19_HAVE(0)
    if (k == 0) return run_case("fixed_string/ctor-too-long", [&] { fs4 s("abcdefgh"); sink = s.size(); });
#endif
#if C19_HAVE(1)
    if (k == 1) return run_case("fixed_string/assign-count-too-long", [&] { fs4 s; s.assign(big, 'x'); sink = s.size(); });
#endif
#if C19_HAVE(2)
    if (k == 2) return run_case("fixed_string/append-overflow", [&] { fs4 s("abc"); s.append("defg"); sink = s.size(); });
#endif
#if C19_HAVE(3)
    if (k == 3) return run_case("fixed_string/at-out-of-range", [&] { fs16 s("abc"); sink = static_cast<unsigned char>(s.at(big)); });
#endif
#if C19_HAVE(4)
    if (k == 4) return run_case("fixed_string/substr-pos-out-of-range", [&] { fs16 s("abc"); sink = s.substr(big, 1).size(); });
#endif
#if C19_HAVE(5)
    if (k == 5) return run_case("fixed_string/insert-pos-out-of-range", [&] { fs16 s("abc"); s.insert(big, 1, 'z'); sink = s.size(); });
#endif
#if C19_HAVE(6)
    if (k == 6) return run_case("any/any_cast-wrong-type", [&] { xtl::any a(1); sink = static_cast<unsigned long long>(xtl::any_cast<double>(a)); });
#endif
#if C19_HAVE(7)
    if (k == 7) return run_case("any/any_cast-empty", [&] { xtl::any a; sink = static_cast<unsigned long long>(xtl::any_cast<int>(a)); });
#endif
#if C19_HAVE(8)
    if (k == 8) return run_case("variant/get-wrong-type", [&] { xtl::variant<int, double> v(1); sink = static_cast<unsigned long long>(xtl::get<double>(v)); });
#endif
#if C19_HAVE(9)
    if (k == 9) return run_case("variant/get-wrong-index", [&] { xtl::variant<int, double> v(1); sink = static_cast<unsigned long long>(xtl::get<1>(v)); });
#endif
#if C19_HAVE(10)
    if (k == 10) return run_case("bitset_view/resize", [&] { unsigned char blk[2] = {0, 0}; xtl::xdynamic_bitset_view<unsigned char> v(blk, 5); v.resize(big); sink = v.size(); });
#endif
#if C19_HAVE(11)
    if (k == 11) return run_case("bitset/at-out-of-range", [&] { xtl::xdynamic_bitset<unsigned char> b(5, true); sink = static_cast<bool>(b.at(big)); });
#endif
#if C19_HAVE(12)
    if (k == 12) return run_case("bitset/const-at-out-of-range", [&] { const xtl::xdynamic_bitset<unsigned char> b(5, true); sink = static_cast<bool>(b.at(big)); });
#endif
#if C19_HAVE(13)
    if (k == 13) return run_case("functor_dispatcher/basic-callback-not-found", [&] {
        xtl::functor_dispatcher<xtl::mpl::vector<shape, shape>, int> d;
        d.insert<circle, square>(&circle_square);
        circle c;
        square s;
        shape& a = s;
        shape& b = c;
        sink = static_cast<unsigned long long>(d.dispatch(a, b));  // (square, circle) was never registered
    });
#endif
#if C19_HAVE(14)
    if (k == 14) return run_case("functor_dispatcher/fast-callback-not-found", [&] {
        xtl::functor_dispatcher<xtl::mpl::vector<shape, shape>, int, xtl::mpl::vector<>, xtl::static_caster, xtl::basic_fast_dispatcher> d;
        d.insert<circle, square>(&circle_square);
        circle c;
        square s;
        shape& a = s;
        shape& b = c;
        sink = static_cast<unsigned long long>(d.dispatch(a, b));
    });
#endif
#if C19_HAVE(15)
    if (k == 15) return run_case("visitor/throwing_catch_all", [&] { leaf_unknown l; only_known_visitor v; node& n = l; sink = static_cast<unsigned long long>(n.accept(v)); });
#endif
#if C19_HAVE(16)
    if (k == 16) return run_case("span/at-out-of-range", [&] { int arr[4] = {1, 2, 3, 4}; xtl::span<int> s(arr, 4); sink = static_cast<unsigned long long>(s.at(static_cast<std::ptrdiff_t>(big))); });
#endif
    return 2;
}
