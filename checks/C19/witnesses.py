"""Per-header witnesses for C19.

A witness is a few lines of C++ that are appended to a generated translation unit AFTER the #include lines of the
header(s) under test.  It uses the facility the header exists for, with nothing but what the header itself
declares and built-in types (the one exception is noted).  Two purposes:

  * a header whose content is silently skipped (include-guard collision with a header included earlier, a stray
    #if) still "compiles" under -fsyntax-only; with the witness it does not;
  * an #include that is only missed when a member template is instantiated shows up.

A witness failing while the bare include compiles is reported under its own failure kind (facility-unusable), so
the two are never confused.  A header without an entry here is compiled bare and a note is written to the evidence.

Witnesses are deliberately tiny: whether the facility computes the right thing is the business of C01..C18/C20.
"""

WITNESS = {
    "xany.hpp": "inline int c19_w_xany() { xtl::any a(1); return xtl::any_cast<int>(a); }",
    "xbase64.hpp": "inline unsigned long c19_w_xbase64() { return xtl::base64encode(xtl::base64decode(\"QQ==\")).size(); }",
    "xbasic_fixed_string.hpp": "inline unsigned long c19_w_xbfs() { xtl::xfixed_string<8> s(\"ab\"); s.push_back('c'); return s.size(); }",
    "xclosure.hpp": "inline int c19_w_xclosure() { int i = 3; auto c = xtl::closure(i); return c.get(); }",
    "xcompare.hpp": "static_assert(xtl::cmp_less(-1, 1u), \"c19 witness\");",
    "xcomplex.hpp": "inline double c19_w_xcomplex() { xtl::xcomplex<double> z(1., 2.); return (z * z).real(); }",
    "xcomplex_sequence.hpp": "inline unsigned long c19_w_xcseq() { xtl::xcomplex_vector<double> v(2); return v.size(); }",
    "xdynamic_bitset.hpp": "inline unsigned long c19_w_xbitset() { xtl::xdynamic_bitset<unsigned char> b(5, true); return b.count(); }",
    "xfunctional.hpp": "inline int c19_w_xfunctional() { xtl::identity id; return id(xtl::select(true, 1, 2)); }",
    "xhalf_float.hpp": "inline float c19_w_xhalf() { xtl::half_float h(1.5f); return static_cast<float>(h + h); }",
    "xhalf_float_impl.hpp": "inline float c19_w_xhalf_impl() { half_float::half h(1.5f); return static_cast<float>(half_float::sqrt(h * h)); }",
    "xhash.hpp": "inline unsigned long c19_w_xhash() { return xtl::hash_bytes(\"ab\", 2, 0); }",
    "xhierarchy_generator.hpp": "template <class T> struct c19_w_unit { T c19_value; };\n"
                                "inline int c19_w_xhier() { xtl::xscatter_hierarchy_generator<xtl::mpl::vector<int, char>, c19_w_unit> h; "
                                "return static_cast<c19_w_unit<int>&>(h).c19_value = 1; }",
    "xiterator_base.hpp": "inline int c19_w_xiter() { int a[6] = {0, 1, 2, 3, 4, 5}; xtl::xstepping_iterator<int*> it(a, 2); ++it; return *it; }",
    # xjson.hpp only forward-declares xoptional / xbasic_fixed_string (by design); the variant overload is complete
    "xjson.hpp": "inline bool c19_w_xjson() { xtl::variant<int, double> v(1); nlohmann::json j = v; return j.is_number(); }",
    "xmasked_value.hpp": "inline int c19_w_xmasked() { xtl::xmasked_value<int> m(3); return m.visible() ? m.value() : 0; }",
    "xmasked_value_meta.hpp": "static_assert(!xtl::is_xmasked_value<int>::value, \"c19 witness\");",
    "xmeta_utils.hpp": "static_assert(xtl::mpl::size<xtl::mpl::vector<int, char> >::value == 2, \"c19 witness\");",
    "xmultimethods.hpp": "struct c19_w_shape { virtual ~c19_w_shape() {} };\nstruct c19_w_circle : c19_w_shape {};\n"
                         "inline int c19_w_cc(c19_w_circle&, c19_w_circle&) { return 1; }\n"
                         "inline int c19_w_xmm() { xtl::functor_dispatcher<xtl::mpl::vector<c19_w_shape, c19_w_shape>, int> d; "
                         "d.insert<c19_w_circle, c19_w_circle>(&c19_w_cc); c19_w_circle c; return d.dispatch(c, c); }",
    "xoptional.hpp": "inline bool c19_w_xoptional() { xtl::xoptional<int> o(3); return (o + o).has_value(); }",
    "xoptional_meta.hpp": "static_assert(!xtl::is_xoptional<int>::value, \"c19 witness\");",
    "xoptional_sequence.hpp": "inline unsigned long c19_w_xoseq() { xtl::xoptional_vector<int> v(3, 1); return v.size(); }",
    "xplatform.hpp": "inline bool c19_w_xplatform() { return xtl::endianness() == xtl::endian::little_endian; }",
    "xproxy_wrapper.hpp": "struct c19_w_proxy { int x; };\ninline int c19_w_xproxy() { auto w = xtl::proxy_wrapper(c19_w_proxy{1}); return w.x; }",
    "xsequence.hpp": "inline unsigned long c19_w_xsequence() { auto s = xtl::make_sequence<std::vector<int> >(3, 1); return s.size(); }",
    "xspan.hpp": "inline long c19_w_xspan() { int a[3] = {1, 2, 3}; xtl::span<int> s(a, 3); return s.size() + (xtl::dynamic_extent == -1); }",
    "xspan_impl.hpp": "inline long c19_w_xspan_impl() { int a[3] = {1, 2, 3}; tcb::span<int> s(a, 3); return s.subspan(1).size(); }",
    "xsystem.hpp": "inline unsigned long c19_w_xsystem() { return xtl::executable_path().size() + xtl::prefix_path().size(); }",
    "xtl_config.hpp": "#if !defined(XTL_VERSION_MAJOR) || !defined(XTL_VERSION_MINOR) || !defined(XTL_VERSION_PATCH) || !defined(XTL_THROW)\n"
                      "#error \"c19 witness: xtl_config.hpp did not define its macros\"\n#endif",
    "xtype_traits.hpp": "static_assert(sizeof(xtl::promote_type_t<int, double>) == sizeof(double), \"c19 witness\");",
    "xvariant.hpp": "inline int c19_w_xvariant() { xtl::variant<int, double> v(1); return xtl::get<int>(v); }",
    "xvariant_impl.hpp": "inline int c19_w_xvariant_impl() { mpark::variant<int, double> v(1); return mpark::get<0>(v); }",
    "xvisitor.hpp": "struct c19_w_leaf : xtl::base_visitable<int> { XTL_DEFINE_VISITABLE() };\n"
                    "struct c19_w_vis : xtl::base_visitor, xtl::visitor<c19_w_leaf, int, false> { int visit(c19_w_leaf&) override { return 1; } };\n"
                    "inline int c19_w_xvisitor() { c19_w_leaf l; c19_w_vis v; return l.accept(v); }",
}

# headers that contribute nothing but preprocessor definitions: including them is a (nearly) trivial case
MACRO_ONLY = {"xtl_config.hpp"}
