// C06, payload type table of the SPELLING-SENSITIVE build of harness.cpp (-DC06_SPELL): payload types for which HOW the library
// spells a construction decides WHICH constructor runs and therefore which value the new object has:
//   T(src) vs T{src} vs T x = src        (initializer_list constructors, explicit copy/move constructors, aggregates)
//   const T& vs T& vs T&& vs const T&&    (an unconstrained forwarding constructor out-competes the copy constructor for T& / const T&&)
// The property promises "a value equal to the last one stored" and "copies independent of their source" for every copy-constructible
// payload; the reference for every route is what direct-initialization T(expr) produces (what std::any does, and what the documentation
// of xtl::any's converting constructor says), which for every type below is an object with the SAME value as the source.
//
// Every type carries a pl::Tracked mark (lifetime registry + heap cell: leaks / double destruction are seen) and has VALUE semantics
// (deep copy), so the value model of harness.cpp applies unchanged. value() folds the SHAPE of the object into the int the model
// compares: a scalar built from v reads v; a list-shaped object reads LISTV(n, first) <= -1000; an object built by a constructor that
// should never have been chosen reads one of the WRONG_* codes. vstr() turns such a code into words for the report.
#ifndef C06_SPELL_HPP
#define C06_SPELL_HPP

#include <any>
#include <initializer_list>
#include <vector>

inline int LISTV(std::size_t n, int first) { return -(1000 + 100 * int(n > 9 ? 9 : n) + ((first >= 0 && first < 99) ? first : 99)); }
static const int WRONG_FOREIGN = -500;    // built by a forwarding / converting constructor from an object of ANOTHER type
static const int WRONG_AGG = -600;        // aggregate whose members were not copied member by member
static const int WRONG_FROM_ANY = -800;   // built from an xtl::any instead of from the payload

inline std::string vstr(int v)
{
    if (v == WRONG_FOREIGN) return "<object built by its forwarding constructor from an object of another type>";
    if (v == WRONG_AGG) return "<aggregate whose members do not belong together>";
    if (v == WRONG_FROM_ANY) return "<object built by its converting constructor from an xtl::any>";
    if (v > -1000) return vf::str(v);
    int n = (-v - 1000) / 100, f = (-v - 1000) % 100;
    return "<a LIST of " + vf::str(n) + " element(s) instead of a scalar, first element " + (f == 99 ? std::string("not a scalar (it wraps the original object)") : "= " + vf::str(f)) + ">";
}

// padding base of the types below (not pl::Pad: the mark member already has a pl::Pad<0> base, which would defeat the empty base optimisation)
template <std::size_t N> struct SPad { unsigned char pad[N]; };
template <> struct SPad<0> {};

typedef pl::Tracked<1, 0, true, false, false, false> Small;   // the ordinary payload (cross-type swaps, what a target held before)

// (1) JSON-like node: constructible from a braced list of nodes. T{src} is a one-element array node under g++ (CWG 2137).
template <int TAG, std::size_t PAD, bool TH_COPY>
struct IlNode : SPad<PAD>
{
    static const int tag = TAG;
    typedef pl::Tracked<TAG, 0, true, TH_COPY, false, false> Mark;
    Mark mark;                     // the scalar (-1 in an array node)
    std::vector<IlNode>* kids;     // nullptr: scalar node
    explicit IlNode(int v) : mark(v), kids(nullptr) {}
    IlNode(std::initializer_list<IlNode> l) : mark(-1), kids(new std::vector<IlNode>(l)) {}
    IlNode(const IlNode& o) : mark(o.mark), kids(o.kids ? new std::vector<IlNode>(*o.kids) : nullptr) {}
    IlNode(IlNode&& o) noexcept : mark(std::move(o.mark)), kids(o.kids) { o.kids = nullptr; }
    IlNode& operator=(const IlNode& o) { IlNode t(o); mark = std::move(t.mark); std::swap(kids, t.kids); return *this; }
    IlNode& operator=(IlNode&& o) noexcept { mark = std::move(o.mark); std::swap(kids, o.kids); return *this; }
    ~IlNode() { delete kids; }
    int value() const { return kids ? LISTV(kids->size(), (kids->empty() || (*kids)[0].kids) ? 99 : (*kids)[0].mark.value()) : mark.value(); }
    void set(int v) { delete kids; kids = nullptr; mark.set(v); }
};

// (2) list of ints that also converts TO int: T{src} is the one-element list {int(src)} (initializer_list<int> via the conversion function)
template <int TAG, std::size_t PAD>
struct IntList : SPad<PAD>
{
    static const int tag = TAG;
    typedef pl::Tracked<TAG, 0, true, false, false, false> Mark;
    Mark mark;
    std::vector<int>* items;       // nullptr: scalar
    explicit IntList(int v) : mark(v), items(nullptr) {}
    IntList(std::initializer_list<int> l) : mark(-1), items(new std::vector<int>(l)) {}
    IntList(const IntList& o) : mark(o.mark), items(o.items ? new std::vector<int>(*o.items) : nullptr) {}
    IntList(IntList&& o) noexcept : mark(std::move(o.mark)), items(o.items) { o.items = nullptr; }
    IntList& operator=(const IntList& o) { IntList t(o); mark = std::move(t.mark); std::swap(items, t.items); return *this; }
    IntList& operator=(IntList&& o) noexcept { mark = std::move(o.mark); std::swap(items, o.items); return *this; }
    ~IntList() { delete items; }
    operator int() const { return items ? -1 : mark.value(); }
    int value() const { return items ? LISTV(items->size(), items->empty() ? 99 : (*items)[0]) : mark.value(); }
    void set(int v) { delete items; items = nullptr; mark.set(v); }
};

// (3) box of std::any: constructible from a braced list of std::any, and std::any is constructible from the box itself
template <int TAG, std::size_t PAD>
struct StdAnyBox : SPad<PAD>
{
    static const int tag = TAG;
    typedef pl::Tracked<TAG, 0, true, false, false, false> Mark;
    Mark mark;
    std::vector<std::any>* items;
    explicit StdAnyBox(int v) : mark(v), items(nullptr) {}
    StdAnyBox(std::initializer_list<std::any> l) : mark(-1), items(new std::vector<std::any>(l)) {}
    StdAnyBox(const StdAnyBox& o) : mark(o.mark), items(o.items ? new std::vector<std::any>(*o.items) : nullptr) {}
    StdAnyBox(StdAnyBox&& o) noexcept : mark(std::move(o.mark)), items(o.items) { o.items = nullptr; }
    StdAnyBox& operator=(const StdAnyBox& o) { StdAnyBox t(o); mark = std::move(t.mark); std::swap(items, t.items); return *this; }
    StdAnyBox& operator=(StdAnyBox&& o) noexcept { mark = std::move(o.mark); std::swap(items, o.items); return *this; }
    ~StdAnyBox() { delete items; }
    int value() const { return items ? LISTV(items->size(), 99) : mark.value(); }
    void set(int v) { delete items; items = nullptr; mark.set(v); }
};

// (4) unconstrained forwarding ("greedy") constructor: it is a better match than the copy constructor for a non-const lvalue and for
// a const rvalue. Given a Greedy it copies the value, given a number it takes it, given anything else it records WRONG_FOREIGN.
template <int TAG, std::size_t PAD>
struct Greedy : SPad<PAD>
{
    static const int tag = TAG;
    typedef pl::Tracked<TAG, 0, true, false, false, false> Mark;
    Mark mark;
    static int pick_(const Greedy& g, std::integral_constant<int, 0>) { return g.mark.value(); }
    template <class X> static int pick_(const X& x, std::integral_constant<int, 1>) { return int(x); }
    template <class X> static int pick_(const X&, std::integral_constant<int, 2>) { return WRONG_FOREIGN; }
    template <class X> static int conv_(const X& x) { return pick_(x, std::integral_constant<int, std::is_same<X, Greedy>::value ? 0 : std::is_arithmetic<X>::value ? 1 : 2>()); }
    template <class U> Greedy(U&& u) : mark(conv_(u)) {}
    Greedy(const Greedy& o) : mark(o.mark) {}
    Greedy(Greedy&& o) noexcept : mark(std::move(o.mark)) {}
    Greedy& operator=(const Greedy& o) { mark = o.mark; return *this; }
    Greedy& operator=(Greedy&& o) noexcept { mark = std::move(o.mark); return *this; }
    int value() const { return mark.value(); }
    void set(int v) { mark.set(v); }
};

// (5) explicit copy and move constructors: T(src) is fine, T x = src / return src are not
template <int TAG, std::size_t PAD>
struct ExplicitCopy : SPad<PAD>
{
    static const int tag = TAG;
    typedef pl::Tracked<TAG, 0, true, false, false, false> Mark;
    Mark mark;
    explicit ExplicitCopy(int v) : mark(v) {}
    explicit ExplicitCopy(const ExplicitCopy& o) : mark(o.mark) {}
    explicit ExplicitCopy(ExplicitCopy&& o) noexcept : mark(std::move(o.mark)) {}
    ExplicitCopy& operator=(const ExplicitCopy& o) { mark = o.mark; return *this; }
    ExplicitCopy& operator=(ExplicitCopy&& o) noexcept { mark = std::move(o.mark); return *this; }
    int value() const { return mark.value(); }
    void set(int v) { mark.set(v); }
};

// (6) aggregate (no constructors at all): T{src} and T(src) are both the implicit copy (CWG 1467)
template <int TAG, std::size_t PAD>
struct Agg
{
    static const int tag = TAG;
    pl::Tracked<TAG, 0, true, false, false, false> mark;
    int extra;
    unsigned char pad[PAD ? PAD : 1];
    int value() const { return extra == 7 ? mark.value() : WRONG_AGG; }
    void set(int v) { mark.set(v); }
};

// (7) aggregate whose FIRST member is constructible from the aggregate itself (pre-CWG 1467 T{src} would initialise `first` from src)
struct AggAny
{
    static const int tag = 23;
    xtl::any first;
    pl::Tracked<23, 0, true, false, false, false> mark;
    int value() const { const int* p = xtl::any_cast<int>(&first); return (p && *p == mark.value()) ? mark.value() : WRONG_AGG; }
    void set(int v) { first = v; mark.set(v); }
};

// (8) converting constructor from xtl::any: any's own copy/move/assignment overloads must not be out-competed, and the library
// must never hand the payload an any where a payload is meant
struct FromAny
{
    static const int tag = 27;
    typedef pl::Tracked<27, 0, true, false, false, false> Mark;
    Mark mark;
    explicit FromAny(int v) : mark(v) {}
    FromAny(const xtl::any&) : mark(WRONG_FROM_ANY) {}
    int value() const { return mark.value(); }
    void set(int v) { mark.set(v); }
};

// (9) the standard containers of any: vector(initializer_list<any>) + any(vector) => T{src} is {any(src)}; for xtl::any elements the
// copy of that element recurses without bound
typedef std::vector<xtl::any> AnyVec;      // 24 bytes
typedef std::vector<std::any> StdAnyVec;   // 24 bytes

typedef IlNode<12, 0, false>   IlNodeS;       // 16 bytes, nothrow move -> in place
typedef IlNode<13, 32, true>   IlNodeB;       // 48 bytes, copy may throw -> heap
typedef IntList<14, 0>         IntListS;
typedef IntList<15, 32>        IntListB;
typedef StdAnyBox<16, 0>       StdAnyBoxS;
typedef Greedy<17, 0>          GreedyS;       //  8 bytes -> in place
typedef Greedy<18, 40>         GreedyB;       // 48 bytes -> heap
typedef ExplicitCopy<19, 0>    ExplicitCopyS;
typedef ExplicitCopy<20, 40>   ExplicitCopyB;
typedef Agg<21, 0>             AggS;          // 16 bytes -> in place
typedef Agg<22, 36>            AggB;          // 48 bytes -> heap
static_assert(sizeof(IlNodeS) == 16 && sizeof(IlNodeB) == 48 && sizeof(GreedyS) == 8 && sizeof(GreedyB) == 48 && sizeof(AggS) == 16 && sizeof(AggB) == 48 && sizeof(IntListS) == 16, "payload sizes");
static_assert(std::is_nothrow_move_constructible<IlNodeS>::value && std::is_nothrow_move_constructible<GreedyS>::value && std::is_nothrow_move_constructible<ExplicitCopyS>::value &&
              std::is_nothrow_move_constructible<AggS>::value && std::is_nothrow_move_constructible<StdAnyBoxS>::value && std::is_nothrow_move_constructible<IntListS>::value, "payload shape");
static_assert(std::is_copy_constructible<ExplicitCopyS>::value && std::is_copy_constructible<GreedyS>::value && std::is_copy_constructible<AggAny>::value && std::is_copy_constructible<FromAny>::value, "payload shape");

// vector<xtl::any> comes LAST: a library that list-initialises its copies recurses without bound on it (the run then ends with the
// crash attributed to that step), and everything before it in the operation order has been judged by then
#define C06_TYPES(X) X(1, Small) X(12, IlNodeS) X(13, IlNodeB) X(14, IntListS) X(15, IntListB) X(16, StdAnyBoxS) X(17, GreedyS) X(18, GreedyB) \
    X(19, ExplicitCopyS) X(20, ExplicitCopyB) X(21, AggS) X(22, AggB) X(23, AggAny) X(25, StdAnyVec) X(27, FromAny) X(8, int) X(24, AnyVec)

static const int NTYPES = 28;
static const char* tname(int t)
{
    static const char* n[] = {"empty", "Small", "?", "?", "?", "?", "?", "?", "int", "?", "?", "?", "IlNode16", "IlNode48TC", "IntList16", "IntList48", "StdAnyBox16", "Greedy8", "Greedy48",
                              "ExplicitCopy8", "ExplicitCopy48", "Agg16", "Agg48", "AggAny", "vector<xtl::any>", "vector<std::any>", "?", "FromAny"};
    return n[t];
}

template <class T> struct tag_of { static const int v = T::tag; };
template <> struct tag_of<int> { static const int v = 8; };
template <> struct tag_of<AnyVec> { static const int v = 24; };
template <> struct tag_of<StdAnyVec> { static const int v = 25; };
// can the VALUE forms any_cast<T>(any&) be used? (they return *p by copy-initialization: ill-formed for an explicit copy constructor)
template <class T> struct by_value : std::true_type {};
template <int TAG, std::size_t PAD> struct by_value<ExplicitCopy<TAG, PAD> > : std::false_type {};

inline int get_val(const int& t) { return t; }
inline int get_val(const AnyVec& t)
{
    const Small* s = t.size() == 1 ? xtl::any_cast<Small>(&t[0]) : nullptr;
    if (s) return s->value();
    const Small* f = t.empty() ? nullptr : xtl::any_cast<Small>(&t[0]);
    return LISTV(t.size(), f ? f->value() : 99);
}
inline int get_val(const StdAnyVec& t)
{
    const Small* s = t.size() == 1 ? std::any_cast<Small>(&t[0]) : nullptr;
    if (s) return s->value();
    const Small* f = t.empty() ? nullptr : std::any_cast<Small>(&t[0]);
    return LISTV(t.size(), f ? f->value() : 99);
}
template <class T> int get_val(const T& t) { return t.value(); }
inline void set_val(int& t, int v) { t = v; }
inline void set_val(AnyVec& t, int v) { t.clear(); t.push_back(xtl::any(Small(v))); }
inline void set_val(StdAnyVec& t, int v) { t.clear(); t.push_back(std::any(Small(v))); }
template <class T> void set_val(T& t, int v) { t.set(v); }

template <class T> struct maker { static T make(int v) { return T(v); } };
template <int TAG, std::size_t PAD> struct maker<Agg<TAG, PAD> > { static Agg<TAG, PAD> make(int v) { return Agg<TAG, PAD>{pl::Tracked<TAG, 0, true, false, false, false>(v), 7, {}}; } };
template <> struct maker<AggAny> { static AggAny make(int v) { return AggAny{xtl::any(v), pl::Tracked<23, 0, true, false, false, false>(v)}; } };
template <> struct maker<AnyVec> { static AnyVec make(int v) { AnyVec r; r.push_back(xtl::any(Small(v))); return r; } };
template <> struct maker<StdAnyVec> { static StdAnyVec make(int v) { StdAnyVec r; r.push_back(std::any(Small(v))); return r; } };
template <class T> T make(int v) { return maker<T>::make(v); }

#endif
