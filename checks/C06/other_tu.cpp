// C06, second translation unit: its own unnamed-namespace `Local` (40 bytes -> heap-stored), see c06_local.hpp
#define C06_LOCAL_PAD 36
#include "c06_local.hpp"
C06TuApi c06_tu2_api() { return C06TuApi{&local_make, &local_probe, &local_name}; }
