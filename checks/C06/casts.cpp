// C06 (cast-target part): "any_cast succeeds only for exactly the stored decayed type" over a CAST TARGET TYPE alphabet that is not
// limited to object types: array types (known / unknown bound, nested), function types, pointers to and arrays of those, cv-qualified
// variants and - through the reference forms of any_cast - references to all of them; against what an any holds when it is built
// from an array, a string literal, a function name, a pointer, a member pointer, nullptr (it holds the DECAYED type).
//
// Expected outcome of any_cast<T> is COMPUTED, never listed:   success  <=>  the any is not empty  &&
//        std::is_same< decay_t<decltype((source expression))>,  remove_cv_t<remove_reference_t<T>> >
// (C++17 build: std::any is run in lock-step through the same routes as a second opinion on the pointer form.)
// A combination of (cast form, target type) that is ILL-FORMED for the tree under test is never written down here: check.py compiles
// this file once per exotic target type in PROBE mode (-DC06_PROBE_TARGET=id [-DC06_PROBE_FORM=f], -fsyntax-only) and hands the
// outcome to the real build as -DC06_CAPS=<bit mask per target>; only combinations whose probe compiled are instantiated.
// ---- the target type alphabet:  O(id, object type)  E(id, array or function type: every use is decided by a capability probe) -----
// (check.py reads the E lines of this table; ids are positions)
#define C06_TARGETS_QUICK(O, E) \
    O(0, int) \
    O(1, const int) \
    O(2, volatile int) \
    O(3, unsigned) \
    O(4, long) \
    O(5, char) \
    O(6, double) \
    O(7, int*) \
    O(8, const int*) \
    O(9, int* const) \
    O(10, const int* const) \
    O(11, int**) \
    O(12, char*) \
    O(13, const char*) \
    O(14, const char* const) \
    O(15, void*) \
    O(16, const void*) \
    O(17, std::nullptr_t) \
    O(18, int (*)(int)) \
    O(19, int (*const)(int)) \
    O(20, void (*)()) \
    O(21, long (*)(int)) \
    O(22, int (*)(int, int)) \
    O(23, int (**)(int)) \
    O(24, int (*)[3]) \
    O(25, const int (*)[3]) \
    O(26, int (*)[]) \
    O(27, int (*)[2]) \
    O(28, int (*const)[3]) \
    O(29, int CSel::*) \
    O(30, int (CSel::*)(int)) \
    O(31, long*) \
    E(32, int[3]) \
    E(33, const int[3]) \
    E(34, int[]) \
    E(35, const int[]) \
    E(36, int[1]) \
    E(37, int[2]) \
    E(38, int[1000]) \
    E(39, char[3]) \
    E(40, const char[3]) \
    E(41, const char[]) \
    E(42, char[]) \
    E(43, const char[4]) \
    E(44, int[2][3]) \
    E(45, int[][3]) \
    E(46, int* [3]) \
    E(47, int(int)) \
    E(48, void()) \
    E(49, long(int)) \
    E(50, int(int, int)) \
    E(51, int (*[3])(int)) \
    E(52, int(int) const) \
    E(53, volatile int[3]) \
    E(54, long[3])
#if __cplusplus >= 201703L
#define C06_TARGETS_17(O, E) O(55, int (*)(int) noexcept) E(56, int(int) noexcept)
#define C06_N17 2
#else
#define C06_TARGETS_17(O, E) O(55, short) O(56, short*)
#define C06_N17 2
#endif
#ifdef C06_DEEP
#define C06_TARGETS_DEEP(O, E) \
    O(57, const volatile int) \
    O(58, volatile int*) \
    O(59, int* volatile) \
    O(60, const int**) \
    O(61, int* const*) \
    O(62, unsigned*) \
    O(63, signed char*) \
    O(64, unsigned char*) \
    O(65, const char**) \
    O(66, wchar_t*) \
    O(67, const wchar_t*) \
    O(68, int (*)(long)) \
    O(69, int (*)()) \
    O(70, int (*)(int, ...)) \
    O(71, void (*)(int)) \
    O(72, int (*)[1]) \
    O(73, int (*)[1000]) \
    O(74, int (*)[2][3]) \
    O(75, int (**)[3]) \
    O(76, const int CSel::*) \
    O(77, int (CSel::*)(int) const) \
    O(78, bool) \
    O(79, long long) \
    O(80, float) \
    E(81, int[4]) \
    E(82, int[3][3]) \
    E(83, int[1][1]) \
    E(84, const int[2][3]) \
    E(85, const volatile int[3]) \
    E(86, char[1]) \
    E(87, char[2]) \
    E(88, wchar_t[3]) \
    E(89, unsigned[3]) \
    E(90, double[3]) \
    E(91, void* [3]) \
    E(92, const char* [2]) \
    E(93, int (*[2])(int)) \
    E(94, int (*[])(int)) \
    E(95, int()) \
    E(96, int(long)) \
    E(97, void(int)) \
    E(98, int(int, ...)) \
    E(99, int(const char*)) \
    E(100, int(int) volatile) \
    E(101, int(int) &) \
    E(102, int* []) \
    E(103, int[2][2][2]) \
    E(104, const char[1])
#define C06_NTARGETS 105
#else
#define C06_TARGETS_DEEP(O, E)
#define C06_NTARGETS 57
#endif
#define C06_TARGETS(O, E) C06_TARGETS_QUICK(O, E) C06_TARGETS_17(O, E) C06_TARGETS_DEEP(O, E)


#ifdef C06_LIST
// LIST mode (g++ -E): check.py learns from the preprocessor which target ids are array / function types for this -std / tier
#define C06_LIST_O(ID, ...)
#define C06_LIST_E(ID, ...) @@EXOTIC ID
C06_TARGETS(C06_LIST_O, C06_LIST_E)
@@NTARGETS C06_NTARGETS
#else
#include <xtl/xany.hpp>

#include <cstddef>
#include <cstdint>
#include <cstring>
#include <type_traits>
#include <typeinfo>
#include <utility>

struct CSel { int dummy; int member; int method(int x) { return x + member; } };

// ---- what a cast form observed ---------------------------------------------------------------------------------------------
struct Sink
{
    bool ran = false, success = false, threw = false, same_object = true, has_bytes = false;
    std::uintptr_t addr = 0;          // where the form says the object is (pointer / reference forms)
    unsigned char bytes[32];          // the object read through the form: by the form itself (value forms) or by the judge
    std::size_t nbytes = 0;
    template <class P> void pointer(P* p, bool same = true)
    {
        ran = true; success = p != nullptr; same_object = same;
        static_assert(sizeof(P*) == sizeof(std::uintptr_t), "pointer size");
        std::memcpy(&addr, &p, sizeof addr);   // works for pointers to functions too
    }
    // reference forms on a temporary copy: the referenced object dies with the copy, so its bytes are taken now - but only when the
    // target type has the size the judge expects (the judge reads them only if the target type IS the stored type)
    template <class P> void snapshot(P* p, std::true_type) { if (p && sizeof(P) <= sizeof bytes) { std::memcpy(bytes, const_cast<typename std::remove_cv<P>::type*>(p), sizeof(P)); nbytes = sizeof(P); has_bytes = true; } }
    template <class P> void snapshot(P*, std::false_type) {}
    void value(const void* v, std::size_t n) { ran = true; success = true; if (n <= sizeof bytes) { std::memcpy(bytes, v, n); nbytes = n; has_bytes = true; } }
    void thrown() { ran = true; success = false; threw = true; }
};

// ---- the cast forms ----------------------------------------------------------------------------------------------------------
enum { F_P, F_PC, F_PK, F_PNULL, F_PCNULL, F_R, F_CR, F_CCR, F_RR, F_RCR, F_V, F_CV, F_RV, F_COUNT };
static const int F_FIRST_BY_VALUE = F_V;
template <class U> using cref_t = typename std::add_lvalue_reference<typename std::add_const<U>::type>::type;
template <class U> using ref_t = typename std::add_lvalue_reference<U>::type;
template <class U> struct plain_object : std::integral_constant<bool, std::is_object<U>::value && !std::is_array<U>::value> {};

template <int F> struct form;
template <> struct form<F_P> { template <class U> static void run(xtl::any& q, Sink& s) { auto p = xtl::any_cast<U>(&q); s.pointer(p); } };
template <> struct form<F_PC> { template <class U> static void run(xtl::any& q, Sink& s) { const xtl::any& cq = q; auto p = xtl::any_cast<U>(&cq); s.pointer(p); } };
template <> struct form<F_PK> { template <class U> static void run(xtl::any& q, Sink& s) { auto p = xtl::any_cast<typename std::add_const<U>::type>(&q); s.pointer(p); } };
template <> struct form<F_PNULL> { template <class U> static void run(xtl::any&, Sink& s) { auto p = xtl::any_cast<U>(static_cast<xtl::any*>(nullptr)); s.pointer(p); } };
template <> struct form<F_PCNULL> { template <class U> static void run(xtl::any&, Sink& s) { auto p = xtl::any_cast<U>(static_cast<const xtl::any*>(nullptr)); s.pointer(p); } };
template <> struct form<F_R> { template <class U> static void run(xtl::any& q, Sink& s) { try { ref_t<U> r = xtl::any_cast<ref_t<U> >(q); s.pointer(&r); } catch (const xtl::bad_any_cast&) { s.thrown(); } } };
template <> struct form<F_CR> { template <class U> static void run(xtl::any& q, Sink& s) { try { cref_t<U> r = xtl::any_cast<cref_t<U> >(q); s.pointer(&r); } catch (const xtl::bad_any_cast&) { s.thrown(); } } };
template <> struct form<F_CCR> { template <class U> static void run(xtl::any& q, Sink& s) { const xtl::any& cq = q; try { cref_t<U> r = xtl::any_cast<cref_t<U> >(cq); s.pointer(&r); } catch (const xtl::bad_any_cast&) { s.thrown(); } } };
template <> struct form<F_RR> { template <class U> static void run(xtl::any& q, Sink& s) { xtl::any c(q); try { ref_t<U> r = xtl::any_cast<ref_t<U> >(std::move(c)); s.pointer(&r, false); s.snapshot(&r, plain_object<U>()); } catch (const xtl::bad_any_cast&) { s.thrown(); } } };
template <> struct form<F_RCR> { template <class U> static void run(xtl::any& q, Sink& s) { xtl::any c(q); try { cref_t<U> r = xtl::any_cast<cref_t<U> >(std::move(c)); s.pointer(&r, false); s.snapshot(&r, plain_object<U>()); } catch (const xtl::bad_any_cast&) { s.thrown(); } } };
template <> struct form<F_V> { template <class U> static void run(xtl::any& q, Sink& s) { try { typename std::remove_cv<U>::type v = xtl::any_cast<U>(q); s.value(&v, sizeof v); } catch (const xtl::bad_any_cast&) { s.thrown(); } } };
template <> struct form<F_CV> { template <class U> static void run(xtl::any& q, Sink& s) { const xtl::any& cq = q; try { typename std::remove_cv<U>::type v = xtl::any_cast<U>(cq); s.value(&v, sizeof v); } catch (const xtl::bad_any_cast&) { s.thrown(); } } };
template <> struct form<F_RV> { template <class U> static void run(xtl::any& q, Sink& s) { xtl::any c(q); try { typename std::remove_cv<U>::type v = xtl::any_cast<U>(std::move(c)); s.value(&v, sizeof v); } catch (const xtl::bad_any_cast&) { s.thrown(); } } };

template <int ID> struct target;
#define C06_DEF_O(ID, ...) template <> struct target<ID> { using type = __VA_ARGS__; static const bool exotic = false; static const char* name() { return #__VA_ARGS__; } };
#define C06_DEF_E(ID, ...) template <> struct target<ID> { using type = __VA_ARGS__; static const bool exotic = true; static const char* name() { return #__VA_ARGS__; } };
C06_TARGETS(C06_DEF_O, C06_DEF_E)
// the E / O marking of the table is the language-level classification, nothing else
#define C06_CHK(ID, ...) static_assert(target<ID>::exotic == (std::is_array<target<ID>::type>::value || std::is_function<target<ID>::type>::value), "E <=> array or function type");
C06_TARGETS(C06_CHK, C06_CHK)

#ifdef C06_PROBE_TARGET
// ---- PROBE mode: instantiate the form(s) for one target type; compiles <=> well-formed on this tree -----------------------------
typedef target<C06_PROBE_TARGET>::type ProbeU;
template <class U, int F> void probe_one(std::true_type) { xtl::any q; Sink s; form<F>::template run<U>(q, s); }
template <class U, int F> void probe_one(std::false_type) {}   // a by-value form of an array / function type: not a library matter
template <int F> void probe() { probe_one<ProbeU, F>(std::integral_constant<bool, (F < F_FIRST_BY_VALUE) || plain_object<ProbeU>::value>()); }
void probe_all()
{
#ifdef C06_PROBE_FORM
    probe<C06_PROBE_FORM>();
#else
    probe<F_P>(); probe<F_PC>(); probe<F_PK>(); probe<F_PNULL>(); probe<F_PCNULL>(); probe<F_R>(); probe<F_CR>(); probe<F_CCR>(); probe<F_RR>(); probe<F_RCR>();
    probe<F_V>(); probe<F_CV>(); probe<F_RV>();
#endif
}

#else
// ---- the harness -----------------------------------------------------------------------------------------------------------------
#include "report.hpp"

#include <cxxabi.h>
#include <string>
#if __cplusplus >= 201703L
#include <any>
#define C06_STD_ANY 1
#endif

using vf::str;

// capability table from check.py: per target the bit mask of forms that are well-formed on this tree (default: everything)
#ifndef C06_CAPS
#define C06_CAPS_ALL 1
#define C06_CAPS 0
#endif
constexpr unsigned CAPS[] = {C06_CAPS};
#ifdef C06_CAPS_ALL
constexpr bool cap(int, int) { return true; }
#else
static_assert(sizeof(CAPS) / sizeof(CAPS[0]) == C06_NTARGETS, "one capability mask per target type");
constexpr bool cap(int id, int f) { return ((CAPS[id] >> f) & 1u) != 0; }
#endif

static const char* form_text(int f)
{
    static const char* n[] = {"any_cast<T>(any*)", "any_cast<T>(const any*)", "any_cast<const T>(any*)", "any_cast<T>((any*)nullptr)", "any_cast<T>((const any*)nullptr)",
                              "any_cast<T&>(any&)", "any_cast<const T&>(any&)", "any_cast<const T&>(const any&)", "any_cast<T&>(any&&)", "any_cast<const T&>(any&&)",
                              "any_cast<T>(any&)", "any_cast<T>(const any&)", "any_cast<T>(any&&)"};
    return n[f];
}
static const char* form_id(int f)
{
    static const char* n[] = {"ptr", "const-ptr", "ptr-to-const", "null-operand", "null-const-operand", "ref", "cref", "cref-of-const", "ref-of-rvalue", "cref-of-rvalue", "value", "value-of-const", "value-of-rvalue"};
    return n[f];
}

// ---- the sources: what the any is built from -------------------------------------------------------------------------------------
static int g_arr[3] = {1, 2, 3};
static const int g_carr[3] = {4, 5, 6};
static char g_buf[3] = {'a', 'b', 0};
static const char g_hi[3] = {'h', 'i', 0};
static int g_m[2][3] = {{1, 2, 3}, {4, 5, 6}};
static int g_x = 5;
static int* g_p = &g_x;
static const char* const g_cpc = g_hi;
static int twice(int x) { return 2 * x; }
static void nothing() {}
static int (*g_fp)(int) = &twice;
static int (*const g_cfp)(int) = &twice;
static long g_larr[2] = {7, 8};
#if __cplusplus >= 201703L
static int nx(int x) noexcept { return x; }
#endif

template <int S> struct source;
// EXPR is evaluated afresh for every construction / assignment, so the any sees the expression itself (array lvalue, function lvalue,
// literal, rvalue array, ...), never a pre-decayed copy
#define C06_SRC(S, TEXT, ...) \
    template <> struct source<S> \
    { \
        typedef std::decay<decltype((__VA_ARGS__))>::type stored; \
        static const bool empty = false; \
        static const char* text() { return TEXT; } \
        static void construct(void* where) { new (where) xtl::any(__VA_ARGS__); } \
        static void assign(xtl::any& a) { a = __VA_ARGS__; } \
        static stored value() { stored s = __VA_ARGS__; return s; } \
        C06_SRC_STD(__VA_ARGS__) \
    };
#ifdef C06_STD_ANY
#define C06_SRC_STD(...) static void construct_std(void* where) { new (where) std::any(__VA_ARGS__); } static void assign_std(std::any& a) { a = __VA_ARGS__; }
#else
#define C06_SRC_STD(...)
#endif
C06_SRC(0, "int arr[3] (array lvalue)", g_arr)
C06_SRC(1, "const int carr[3] (const array lvalue)", g_carr)
C06_SRC(2, "the string literal \"hi\"", "hi")
C06_SRC(3, "char buf[3] (array lvalue)", g_buf)
C06_SRC(4, "the function name twice (int twice(int))", twice)
C06_SRC(5, "int (*fp)(int) (function pointer lvalue)", g_fp)
C06_SRC(6, "&arr (pointer to int[3])", &g_arr)
C06_SRC(7, "int m[2][3] (two-dimensional array lvalue)", g_m)
C06_SRC(8, "int x (lvalue)", g_x)
C06_SRC(9, "int* p (pointer lvalue)", g_p)
C06_SRC(10, "nullptr", nullptr)
C06_SRC(11, "the function name nothing (void nothing())", nothing)
C06_SRC(12, "std::move(arr) (array rvalue)", std::move(g_arr))
C06_SRC(13, "int (*const cfp)(int) (const function pointer lvalue)", g_cfp)
C06_SRC(14, "const char* const cpc (const pointer lvalue)", g_cpc)
C06_SRC(15, "&CSel::member (pointer to data member)", &CSel::member)
C06_SRC(16, "&CSel::method (pointer to member function)", &CSel::method)
C06_SRC(17, "const char hi[3] (const array lvalue)", g_hi)
C06_SRC(18, "long larr[2] (array lvalue)", g_larr)
C06_SRC(19, "&twice (function pointer prvalue)", &twice)
#if __cplusplus >= 201703L
C06_SRC(20, "the function name nx (int nx(int) noexcept)", nx)
static const int NSOURCES = 22;
#else
C06_SRC(20, "42L (long prvalue)", 42L)
static const int NSOURCES = 22;
#endif
// source 21: an EMPTY any (every cast fails)
template <> struct source<21>
{
    typedef void stored;
    static const bool empty = true;
    static const char* text() { return "nothing (an empty any)"; }
    static void construct(void* where) { new (where) xtl::any; }
    static void assign(xtl::any& a) { a = xtl::any(); }
#ifdef C06_STD_ANY
    static void construct_std(void* where) { new (where) std::any; }
    static void assign_std(std::any& a) { a = std::any(); }
#endif
};

template <class T> static bool same_value(const T& a, const T& b) { return a == b; }
// two evaluations of a string literal need not have the same address: pointers to char compare by the text they point to
static bool same_value(const char* const& a, const char* const& b) { return a == b || (a && b && std::strcmp(a, b) == 0); }

// ---- routes: how the value gets into the any that is queried ----------------------------------------------------------------------
static const int NROUTES = 11;
static const char* route_text(int r)
{
    static const char* n[] = {"any q(src)", "any q; q = src", "any q(2.5); q = src", "any q(std::string(40,'x')); q = src", "any s(src); any q(s)", "any s(src); any q(std::move(s))",
                              "any s(src); any q(2.5); q = s", "any s(src); any q(std::string(40,'x')); q = std::move(s)", "any s(src); any q(2.5); q.swap(s)", "any s(src); any q; s.swap(q)",
                              "any s(src); const any& cs = s; any q(std::move(cs))"};
    return n[r];
}
template <class A, class Src> struct world_of;
template <class Src> struct world_of<xtl::any, Src> { static void construct(void* w) { Src::construct(w); } static void assign(xtl::any& a) { Src::assign(a); } };
#ifdef C06_STD_ANY
template <class Src> struct world_of<std::any, Src> { static void construct(void* w) { Src::construct_std(w); } static void assign(std::any& a) { Src::assign_std(a); } };
#endif
// both objects are constructed IN PLACE by exactly the expression the route names (no copy / move / elision in between)
template <class A, class Src>
struct Built
{
    typedef world_of<A, Src> W;
    alignas(16) unsigned char raw_s[sizeof(A)];
    alignas(16) unsigned char raw_q[sizeof(A)];
    A* s;
    A* q;
    explicit Built(int route)
    {
        W::construct(raw_s);
        s = reinterpret_cast<A*>(raw_s);
        switch (route)
        {
        case 0: W::construct(raw_q); q = reinterpret_cast<A*>(raw_q); break;
        case 1: q = new (raw_q) A; W::assign(*q); break;
        case 2: q = new (raw_q) A(2.5); W::assign(*q); break;
        case 3: q = new (raw_q) A(std::string(40, 'x')); W::assign(*q); break;
        case 4: q = new (raw_q) A(*s); break;
        case 5: q = new (raw_q) A(std::move(*s)); break;
        case 6: q = new (raw_q) A(2.5); *q = *s; break;
        case 7: q = new (raw_q) A(std::string(40, 'x')); *q = std::move(*s); break;
        case 8: q = new (raw_q) A(2.5); q->swap(*s); break;
        case 9: q = new (raw_q) A; s->swap(*q); break;
        default: { const A& cs = *s; q = new (raw_q) A(std::move(cs)); break; }
        }
    }
    ~Built() { q->~A(); s->~A(); }
    Built(const Built&) = delete;
};

static long long g_evals = 0, g_expected_success = 0, g_skipped = 0, g_std_agree = 0;
static std::string g_std = "c++14";
static std::vector<std::string> replay_args() { return {"--casts"}; }

static void report(int f, const char* kind, const std::string& msg)
{
    vf::violation(std::string("C06/cast-target/") + form_id(f) + "/" + kind, msg, replay_args());
}

// one (source, route, target): all forms. `expect` is the computed rule; `stored_bytes` the object the any must hold.
template <class U, int ID, int F> static void run_form(xtl::any& q, Sink& s, std::true_type) { form<F>::template run<U>(q, s); }
template <class U, int ID, int F> static void run_form(xtl::any&, Sink&, std::false_type) {}

struct Judge
{
    const char* src_text; const char* stored_text; int route; const char* target_text; bool expect; bool empty;
    const void* stored_bytes; std::size_t stored_size; bool (*eq)(const void*, const void*);
    std::uintptr_t first_addr = 0; bool have_addr = false;
    std::string where(int f) const
    {
        return std::string("an any built from ") + src_text + " (it " + (empty ? "is empty" : std::string("holds the decayed type ") + stored_text) + "; route: " + route_text(route) + "): " + form_text(f) + " [with T = " + target_text + "] ";
    }
    void judge(int f, const Sink& s)
    {
        if (!s.ran) { ++g_skipped; return; }
        ++g_evals;
        const bool null_form = f == F_PNULL || f == F_PCNULL;
        const bool want = expect && !null_form;
        if (want) ++g_expected_success;
        if (s.success && !want)
        {
            report(f, null_form ? "null-operand-accepted" : "different-type-accepted",
                   where(f) + "SUCCEEDED, expected " + (f >= F_R ? "bad_any_cast" : "nullptr") + (null_form ? " (null operand)" : std::string(": ") + target_text + " is not the stored type " + (empty ? "(there is none)" : stored_text)));
            return;
        }
        if (!s.success && want) { report(f, "stored-type-rejected", where(f) + (s.threw ? "threw bad_any_cast" : "returned nullptr") + ", expected the stored object: T without cv/reference IS the stored type"); return; }
        if (!want) return;
        // success as expected: it must be THE stored object, holding the stored value
        if (f < F_FIRST_BY_VALUE && s.same_object)
        {
            if (!have_addr) { first_addr = s.addr; have_addr = true; }
            else if (s.addr != first_addr) { report(f, "not-the-stored-object", where(f) + "refers to a different address than any_cast<T>(any*) did: not the stored object"); return; }
            if (!eq(reinterpret_cast<const void*>(s.addr), stored_bytes)) report(f, "wrong-value", where(f) + "refers to an object that does not hold the value the any was built from");
        }
        else if (s.has_bytes && s.nbytes == stored_size && !eq(s.bytes, stored_bytes)) report(f, "wrong-value", where(f) + "yields a value different from the one the any was built from");
        else if (!s.has_bytes || s.nbytes != stored_size) report(f, "harness", where(f) + "succeeded but the harness could not read the object (size mismatch)");
    }
};

template <class Stored> static bool eq_bytes(const void* a, const void* b)
{
    Stored x, y;
    std::memcpy(&x, a, sizeof x); std::memcpy(&y, b, sizeof y);
    return same_value(x, y);
}
template <> bool eq_bytes<void>(const void*, const void*) { return false; }

template <class U, int ID, int... F>
static void all_forms(xtl::any& q, Judge& j, std::integer_sequence<int, F...>)
{
    // by-value forms need a returnable type: a function cannot return an array or a function (language rule, not a library matter)
    Sink s[F_COUNT];
    int dummy[] = {(run_form<U, ID, F>(q, s[F], std::integral_constant<bool, cap(ID, F) && (F < F_FIRST_BY_VALUE || plain_object<U>::value)>()), 0)...};
    (void)dummy;
    for (int f = 0; f < F_COUNT; ++f) j.judge(f, s[f]);
}

template <class Stored> struct size_of_stored { static const std::size_t v = sizeof(Stored); };
template <> struct size_of_stored<void> { static const std::size_t v = 0; };

template <class Src, int ID>
static void one_target(xtl::any& q, int route, const void* stored_bytes, const char* stored_text, bool std_holds)
{
    typedef typename target<ID>::type U;
    typedef typename Src::stored Stored;
    // THE RULE: any_cast<T> succeeds only for exactly the stored decayed type
    const bool expect = !Src::empty && std::is_same<Stored, typename std::remove_cv<typename std::remove_reference<U>::type>::type>::value;
#ifdef C06_STD_ANY
    if (std_holds != expect)
        report(F_P, "harness", std::string("std::any disagrees with the computed rule for source ") + Src::text() + " and target " + target<ID>::name());
    else ++g_std_agree;
#else
    (void)std_holds;
#endif
    Judge j{Src::text(), stored_text, route, target<ID>::name(), expect, Src::empty, stored_bytes, size_of_stored<Stored>::v, &eq_bytes<Stored>};
    all_forms<U, ID>(q, j, std::make_integer_sequence<int, F_COUNT>());
    if (vf::take_asan()) vf::violation("C06/cast-target/asan", j.where(F_P) + ": AddressSanitizer report while casting", replay_args());
}

#ifdef C06_STD_ANY
// (a type no pointer can point to - a cv/ref-qualified function type - cannot even be asked for: nothing holds it)
template <class U, class = void> struct std_asker { static bool holds(std::any&) { return false; } };
template <class U> struct std_asker<U, decltype(void(static_cast<U*>(nullptr)))> { static bool holds(std::any& sq) { return std::any_cast<U>(&sq) != nullptr; } };
template <class U> static bool std_holds(std::any& sq) { return std_asker<U>::holds(sq); }
#endif

template <class Src, int... ID>
static void all_targets(xtl::any& q, int route, const void* stored_bytes, const char* stored_text, void* sq, std::integer_sequence<int, ID...>)
{
#ifdef C06_STD_ANY
    std::any& sa = *static_cast<std::any*>(sq);
    int dummy[] = {(one_target<Src, ID>(q, route, stored_bytes, stored_text, std_holds<typename target<ID>::type>(sa)), 0)...};
#else
    (void)sq;
    typedef typename Src::stored Stored;
    int dummy[] = {(one_target<Src, ID>(q, route, stored_bytes, stored_text,
                                        !Src::empty && std::is_same<Stored, typename std::remove_cv<typename target<ID>::type>::type>::value), 0)...};
#endif
    (void)dummy;
}

template <class Stored> struct stored_value { template <class Src> static Stored get() { return Src::value(); } };
template <class Src, class Stored> struct holder { Stored v; holder() : v(Src::value()) {} const void* bytes() const { return &v; } };
template <class Src> struct holder<Src, void> { const void* bytes() const { return nullptr; } };

template <int S>
static void one_source()
{
    typedef source<S> Src;
    typedef typename Src::stored Stored;
    holder<Src, Stored> expected;
    std::string stored_text = "void";
    if (!Src::empty)
    {
        int st = 0;
        char* dn = abi::__cxa_demangle(typeid(Stored).name(), nullptr, nullptr, &st);
        stored_text = (st == 0 && dn) ? dn : typeid(Stored).name();
        std::free(dn);
    }
    for (int route = 0; route < NROUTES; ++route)
    {
        Built<xtl::any, Src> world(route);
        xtl::any& q = *world.q;
        // has_value() / type() describe the held type
        if (q.has_value() == Src::empty) vf::violation("C06/cast-target/has_value", std::string("an any built from ") + Src::text() + " via " + route_text(route) + ": has_value() is " + (q.has_value() ? "true" : "false"), replay_args());
        if (!(q.type() == typeid(Stored))) vf::violation("C06/cast-target/type", std::string("an any built from ") + Src::text() + " via " + route_text(route) + ": type() is " + q.type().name() + ", expected the decayed type " + typeid(Stored).name(), replay_args());
#ifdef C06_STD_ANY
        Built<std::any, Src> std_world(route);
        void* sqp = std_world.q;
#else
        void* sqp = nullptr;
#endif
        all_targets<Src>(q, route, expected.bytes(), stored_text.c_str(), sqp, std::make_integer_sequence<int, C06_NTARGETS>());
        vf::stat("cast_worlds", 1);
    }
}

template <int... S> static void all_sources(std::integer_sequence<int, S...>)
{
    int dummy[] = {(one_source<S>(), 0)...};
    (void)dummy;
}

int main(int argc, char** argv)
{
    for (int i = 1; i < argc; ++i) { std::string a = argv[i]; if (a == "--std") g_std = argv[++i]; }
    vf::install_crash_handler();
    all_sources(std::make_integer_sequence<int, NSOURCES>());
    int exotic = 0, skipped_pairs = 0;
    std::string skipped;
#define C06_CNT(ID, ...) { if (target<ID>::exotic) ++exotic; std::string fs; for (int f = 0; f < (target<ID>::exotic ? F_FIRST_BY_VALUE : F_COUNT); ++f) if (!cap(ID, f)) { ++skipped_pairs; fs += std::string(fs.empty() ? "" : ",") + form_id(f); } \
        if (!fs.empty()) skipped += std::string(skipped.empty() ? "" : "; ") + #__VA_ARGS__ + " [" + fs + "]"; }
    C06_TARGETS(C06_CNT, C06_CNT)
    vf::stat("cast_target_evaluations", g_evals);
    vf::stat("transitions", g_evals);
    vf::stat("traces_validated_against_impl", g_evals);
    vf::stat("cast_target_expected_successes", g_expected_success);
#ifdef C06_STD_ANY
    vf::stat("cast_target_std_any_agreements", g_std_agree);
#endif
    vf::smax("cast_target_types", C06_NTARGETS);
    vf::smax("cast_target_array_or_function_types", exotic);
    vf::smax("cast_source_kinds", NSOURCES);
    vf::smax("cast_routes", NROUTES);
    vf::smax("cast_forms", F_COUNT);
    vf::smax("cast_ill_formed_form_target_pairs_skipped", skipped_pairs);
    vf::note("cast-target part (" + g_std + "): " + str(NSOURCES) + " sources x " + str(NROUTES) + " routes x " + str(C06_NTARGETS) + " target types (" + str(exotic) + " array/function types) x up to " + str(F_COUNT) +
             " cast forms = " + str(g_evals) + " casts judged, " + str(g_expected_success) + " of them expected to succeed; ill-formed on this tree (capability probes), skipped: " + (skipped.empty() ? "none" : skipped));
    vf::done();
    return 0;
}
#endif
#endif   // C06_LIST
