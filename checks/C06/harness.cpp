// C06: xtl::any — history explorer with fault injection (engine E2), lock-step against a value model and std::any.
#include <xtl/xany.hpp>

#include "history.hpp"
#define C06_LOCAL_PAD 4
#include "c06_local.hpp"   // this TU's unnamed-namespace `Local` (8 bytes -> in place)
C06TuApi c06_tu2_api();       // other_tu.cpp: a DIFFERENT type with the same name (40 bytes -> heap)

#include <any>
#include <typeinfo>

using vf::Errs;
using vf::str;

#ifdef C06_SPELL
// the SPELLING-SENSITIVE payload class (initializer_list constructors, forwarding constructor, explicit copy, aggregates, containers of any)
#include "c06_spell.hpp"
#else
// payload types on both sides of the in-place / heap decision (two words, nothrow move, alignment <= pointer)
//                    TAG PAD  NT_MOVE TH_COPY TH_MOVE TH_ASSIGN ALIGN
typedef pl::Tracked<1, 0,  true,  false, false, false>      Small;      //  8 bytes, nothrow move        -> in place
typedef pl::Tracked<2, 8,  true,  false, false, false>      TwoWords;   // 16 bytes == the buffer        -> in place
typedef pl::Tracked<3, 0,  false, false, true,  false>      SmallTM;    //  8 bytes, throwing move       -> heap
typedef pl::Tracked<4, 16, true,  false, false, false>      Big;        // 24 bytes                      -> heap
typedef pl::Tracked<5, 16, true,  true,  false, false>      BigTC;      // 24 bytes, copy may throw      -> heap
typedef pl::Tracked<6, 0,  true,  true,  false, false>      SmallTC;    //  8 bytes, copy may throw      -> in place
typedef pl::Tracked<7, 8,  true,  false, false, false, 16>  Aligned16;  // 16 bytes, alignas(16)         -> heap
typedef pl::Tracked<9, 0,  false, false, true,  false, 8, true> SmallNCTM;  //  8 bytes, noexcept copy but throwing move -> heap (the decision is about the MOVE constructor)
typedef pl::OwnNew<pl::Tracked<10, 16, true, false, false, false> >  BigON;    // 24 bytes, class-specific operator new/delete -> heap (new-expression / delete-expression must match)
typedef pl::OwnNew<pl::Tracked<11, 0,  true, false, false, false> >  SmallON;  //  8 bytes, class-specific operator new/delete -> in place (placement form)
static_assert(sizeof(BigON) == 24 && sizeof(SmallON) == 8 && std::is_nothrow_move_constructible<BigON>::value && std::is_nothrow_move_constructible<SmallON>::value, "payload shape");
// the tracked payload types (tag, type); int has tag 8
#define C06_TRACKED(X) X(1, Small) X(2, TwoWords) X(3, SmallTM) X(4, Big) X(5, BigTC) X(6, SmallTC) X(7, Aligned16) X(9, SmallNCTM) X(10, BigON) X(11, SmallON)
#define C06_TYPES(X) C06_TRACKED(X) X(8, int)
static_assert(std::is_nothrow_copy_constructible<SmallNCTM>::value && !std::is_nothrow_move_constructible<SmallNCTM>::value, "payload shape");
static_assert(sizeof(Small) == 8 && sizeof(TwoWords) == 16 && sizeof(Big) == 24 && sizeof(Aligned16) == 16, "payload sizes");

static const int NTYPES = 12;   // 0 = empty, 1..7 and 9..11 tracked, 8 = int
static const char* tname(int t)
{
    static const char* n[] = {"empty", "Small", "TwoWords", "SmallTM", "Big", "BigTC", "SmallTC", "Aligned16", "int", "SmallNCTM", "BigON", "SmallON"};
    return n[t];
}

template <class T> struct tag_of { static const int v = T::tag; };
template <> struct tag_of<int> { static const int v = 8; };
template <class T> int get_val(const T& t) { return t.value(); }
inline int get_val(const int& t) { return t; }
template <class T> void set_val(T& t, int v) { t.set(v); }
inline void set_val(int& t, int v) { t = v; }
template <class T> T make(int v) { return T(v); }
template <class T> struct by_value : std::true_type {};   // the value forms any_cast<T>(any&) are usable
inline std::string vstr(int v) { return str(v); }
#endif

struct MV
{
    int type = 0;       // 0 empty
    int value = 0;
    bool unspecified = false;   // moved-from: valid but unspecified
    bool operator==(const MV& o) const { return type == o.type && value == o.value && unspecified == o.unspecified; }
};

static const int NOBJ = 3;
static std::string g_types = "all";   // "all" or "base" (payload types with tag < 10): the alphabet of stored types

struct World
{
    alignas(16) unsigned char raw[NOBJ][sizeof(xtl::any)];
    MV m[NOBJ];
    std::any ref[NOBJ];   // second opinion for fault-free steps
    bool ref_valid[NOBJ];
    xtl::any& a(int i) { return *reinterpret_cast<xtl::any*>(raw[i]); }
    const xtl::any& a(int i) const { return *reinterpret_cast<const xtl::any*>(raw[i]); }
    World()
    {
        for (int i = 0; i < NOBJ; ++i) { std::memset(raw[i], 0xA5, sizeof raw[i]); new (raw[i]) xtl::any; ref_valid[i] = true; }
    }
    ~World() { for (int i = 0; i < NOBJ; ++i) a(i).~any(); }
    World(const World&) = delete;

    template <class T> bool holds(int i) const { return xtl::any_cast<T>(&a(i)) != nullptr; }
    int observed_type(int i) const
    {
        const xtl::any& x = a(i);
        if (!x.has_value()) return 0;
#define X(TG, T) if (x.type() == typeid(T)) return TG;
        C06_TYPES(X)
#undef X
        return -1;
    }
    template <class T> int observed_value_t(int i) const { const T* p = xtl::any_cast<T>(&a(i)); return p ? get_val(*p) : -999; }
    int observed_value(int i) const
    {
        switch (observed_type(i))
        {
#define X(TG, T) case TG: return observed_value_t<T>(i);
        C06_TYPES(X)
#undef X
        default: return 0;
        }
    }
    std::string key() const
    {
        std::string k;
        for (int i = 0; i < NOBJ; ++i)
        {
            // the key is the OBSERVED state of the implementation (what can influence the future), plus whether the model regards it as unspecified
            int t = observed_type(i);
            k += std::string(tname(t < 0 ? 0 : t)) + (t > 0 ? "=" + str(observed_value(i)) : "") + (m[i].unspecified ? "?" : "") + " ";
        }
        return k;
    }

    template <class T>
    void check_casts(int i, Errs& e)
    {
        const int tg = tag_of<T>::v;
        xtl::any& x = a(i);
        const xtl::any& cx = a(i);
        const bool should = !m[i].unspecified ? (m[i].type == tg) : (observed_type(i) == tg);
        T* p = xtl::any_cast<T>(&x);
        const T* cp = xtl::any_cast<T>(&cx);
        const T* ccp = xtl::any_cast<const T>(&cx);
        std::string who = "any#" + str(i) + " (model " + tname(m[i].type) + "=" + str(m[i].value) + ") ";
        if ((p != nullptr) != should) { e.add("any_cast-pointer", who + "any_cast<" + tname(tg) + ">(&a) is " + (p ? "non-null" : "null")); return; }
        if ((cp != nullptr) != should || (ccp != nullptr) != should) { e.add("any_cast-const-pointer", who + "any_cast<" + tname(tg) + ">(const any*) / any_cast<const T> is " + (cp ? "non-null" : "null") + "/" + (ccp ? "non-null" : "null")); return; }
        if (should)
        {
            if (static_cast<const void*>(p) != static_cast<const void*>(cp) || static_cast<const void*>(cp) != static_cast<const void*>(ccp))
            { e.add("any_cast-identity", who + "any_cast<" + tname(tg) + "> on any* and on const any* (or any_cast<const T>) return different addresses: not the stored object"); return; }
            if (!m[i].unspecified && get_val(*p) != m[i].value) e.add("value", who + "holds " + vstr(get_val(*p)));
            if (!m[i].unspecified && get_val(*cp) != m[i].value) e.add("value", who + "const cast reads " + vstr(get_val(*cp)));
        }
        // value / reference forms: value or bad_any_cast
        bool threw = false;
        int got = 0;
        if constexpr (by_value<T>::value)
        {
            try { T v = xtl::any_cast<T>(x); got = get_val(v); } catch (const xtl::bad_any_cast&) { threw = true; }
            if (threw == should) e.add("any_cast-value", who + "any_cast<" + tname(tg) + ">(a) " + (threw ? "threw" : "did not throw"));
            else if (should && !m[i].unspecified && got != m[i].value) e.add("value", who + "any_cast<T>(a) returned " + vstr(got));
        }
        threw = false;
        try { T& v = xtl::any_cast<T&>(x); if (should && &v != p) e.add("any_cast-identity", who + "any_cast<T&> does not return the stored object"); } catch (const xtl::bad_any_cast&) { threw = true; }
        if (threw == should) e.add("any_cast-ref", who + "any_cast<" + tname(tg) + "&>(a) " + (threw ? "threw" : "did not throw"));
        threw = false;
        try { const T& v = xtl::any_cast<const T&>(cx); if (should && &v != cp) e.add("any_cast-identity", who + "any_cast<const T&>(const any&) does not return the stored object"); } catch (const xtl::bad_any_cast&) { threw = true; }
        if (threw == should) e.add("any_cast-cref", who + "any_cast<const " + tname(tg) + "&>(const a) " + (threw ? "threw" : "did not throw"));
        threw = false;
        if constexpr (by_value<T>::value)
        {
            try { T v = xtl::any_cast<T>(cx); got = get_val(v); } catch (const xtl::bad_any_cast&) { threw = true; }
            if (threw == should) e.add("any_cast-const-value", who + "any_cast<" + tname(tg) + ">(const a) " + (threw ? "threw" : "did not throw"));
            else if (should && !m[i].unspecified && got != m[i].value) e.add("value", who + "any_cast<T>(const a) returned " + vstr(got));
        }
        if (should)
        {
            // rvalue form on a copy (copies are independent of their source)
            threw = false;
            if constexpr (by_value<T>::value)
            {
                try { xtl::any c(cx); T v = xtl::any_cast<T>(std::move(c)); got = get_val(v); } catch (const xtl::bad_any_cast&) { threw = true; } catch (const pl::Injected&) { }
            }
            else
            {
                // no value form for this type (explicit copy constructor): the reference form on a copy
                try { xtl::any c(cx); const T& v = xtl::any_cast<const T&>(std::move(c)); got = get_val(v); } catch (const xtl::bad_any_cast&) { threw = true; } catch (const pl::Injected&) { }
            }
            if (threw) e.add("any_cast-rvalue", who + "any_cast<T>(any&&) threw on a copy");
            else if (!m[i].unspecified && got != m[i].value) e.add("value", who + "a copy of it holds " + vstr(got));
        }
    }

    // after every transition: has_value / type / value of every object against the model
    void light(Errs& e)
    {
        for (int i = 0; i < NOBJ; ++i)
        {
            const xtl::any& x = a(i);
            std::string who = "any#" + str(i) + " ";
            if (x.has_value() == x.empty()) e.add("has_value", who + "has_value() == empty()");
            if (m[i].unspecified) continue;
            if (x.has_value() != (m[i].type != 0)) { e.add("has_value", who + "has_value()=" + str(x.has_value()) + " model " + tname(m[i].type)); continue; }
            int ot = observed_type(i);
            if (ot != m[i].type) { e.add("type", who + "type() reports " + (ot < 0 ? "an unknown type" : tname(ot)) + " model " + tname(m[i].type)); continue; }
            if (ot > 0 && observed_value(i) != m[i].value) e.add("value", who + "holds " + vstr(observed_value(i)) + " model " + tname(m[i].type) + "=" + str(m[i].value));
        }
    }

    void check(Errs& e)
    {
        for (int i = 0; i < NOBJ; ++i)
        {
            const xtl::any& x = a(i);
            std::string who = "any#" + str(i) + " ";
            if (x.has_value() == x.empty()) e.add("has_value", who + "has_value() == empty()");
            if (x.has_value() != (x.type() != typeid(void))) e.add("type", who + "type() is typeid(void) but has_value(), or vice versa");
            if (!m[i].unspecified)
            {
                if (x.has_value() != (m[i].type != 0)) { e.add("has_value", who + "has_value()=" + str(x.has_value()) + " model " + tname(m[i].type)); continue; }
                int ot = observed_type(i);
                if (ot != m[i].type) { e.add("type", who + "type() reports " + (ot < 0 ? "an unknown type" : tname(ot)) + " model " + tname(m[i].type)); continue; }
            }
#define X(TG, T) check_casts<T>(i, e);
            C06_TYPES(X)
#undef X
            // a type that is never stored
            if (xtl::any_cast<long>(&a(i)) != nullptr || xtl::any_cast<unsigned>(&a(i)) != nullptr) e.add("any_cast-pointer", who + "any_cast to a never stored type is non-null");
            // second opinion (fault-free histories): std::any holds the same alternative and value
            if (ref_valid[i] && !m[i].unspecified)
            {
                if (ref[i].has_value() != (m[i].type != 0)) e.add("harness", who + "std::any disagrees with the model on has_value");
                else if (m[i].type == 1 && std::any_cast<Small>(&ref[i]) && std::any_cast<Small>(&ref[i])->value() != m[i].value) e.add("harness", who + "std::any value disagrees with the model");
            }
        }
    }
};

typedef vf::HistoryExplorer<World> HX;

// -------------------------------------------------------------------------------------------------------------------
template <class T>
void type_ops(HX& hx, const std::vector<int>& values, int nobj)
{
    const int tg = tag_of<T>::v;
    for (int i = 0; i < nobj; ++i) for (int v : values)
    {
        const std::string I = str(i), V = str(v), TN = tname(tg);
        hx.add_op("construct(lvalue)", "a" + I + ":=any(" + TN + " " + V + "&)", [i, v, tg](World& w, Errs& e) {
            T lv = make<T>(v);
            w.a(i).~any();
            try { pl::Arm arm; new (w.raw[i]) xtl::any(lv); w.m[i] = MV{tg, v, false}; w.ref[i] = std::any(); w.ref_valid[i] = false; }
            catch (const pl::Injected&) { new (w.raw[i]) xtl::any; w.m[i] = MV(); w.ref_valid[i] = false; }
            if (get_val(lv) != v) e.add("source-modified", "constructing from an lvalue changed the source");
            return true; });
        hx.add_op("construct(rvalue)", "a" + I + ":=any(" + TN + " " + V + "&&)", [i, v, tg](World& w, Errs&) {
            T lv = make<T>(v);
            w.a(i).~any();
            try { pl::Arm arm; new (w.raw[i]) xtl::any(std::move(lv)); w.m[i] = MV{tg, v, false}; w.ref_valid[i] = false; }
            catch (const pl::Injected&) { new (w.raw[i]) xtl::any; w.m[i] = MV(); w.ref_valid[i] = false; }
            return true; });
        hx.add_op("assign(lvalue)", "a" + I + "=" + TN + " " + V + "&", [i, v, tg](World& w, Errs& e) {
            T lv = make<T>(v);
            MV before = w.m[i];
            try { pl::Arm arm; xtl::any& r = (w.a(i) = lv); if (&r != &w.a(i)) e.add("return", "operator= does not return *this"); w.m[i] = MV{tg, v, false}; w.ref_valid[i] = false; }
            catch (const pl::Injected&) { w.m[i] = before; /* strong guarantee: the target keeps its previous value */ }
            if (get_val(lv) != v) e.add("source-modified", "assigning from an lvalue changed the source");
            return true; });
        hx.add_op("assign(rvalue)", "a" + I + "=" + TN + " " + V + "&&", [i, v, tg](World& w, Errs&) {
            T lv = make<T>(v);
            MV before = w.m[i];
            try { pl::Arm arm; w.a(i) = std::move(lv); w.m[i] = MV{tg, v, false}; w.ref_valid[i] = false; }
            catch (const pl::Injected&) { w.m[i] = before; }
            return true; });
        // a CONST lvalue source (ValueType = const T&): the stored object must be a copy of it
        hx.add_op("construct(const lvalue)", "a" + I + ":=any(const " + TN + " " + V + "&)", [i, v, tg](World& w, Errs& e) {
            const T lv = make<T>(v);
            w.a(i).~any();
            try { pl::Arm arm; new (w.raw[i]) xtl::any(lv); w.m[i] = MV{tg, v, false}; w.ref_valid[i] = false; }
            catch (const pl::Injected&) { new (w.raw[i]) xtl::any; w.m[i] = MV(); w.ref_valid[i] = false; }
            if (get_val(lv) != v) e.add("source-modified", "constructing from a const lvalue changed the source");
            return true; });
        hx.add_op("assign(const lvalue)", "a" + I + "=const " + TN + " " + V + "&", [i, v, tg](World& w, Errs& e) {
            const T lv = make<T>(v);
            MV before = w.m[i];
            try { pl::Arm arm; w.a(i) = lv; w.m[i] = MV{tg, v, false}; w.ref_valid[i] = false; }
            catch (const pl::Injected&) { w.m[i] = before; }
            if (get_val(lv) != v) e.add("source-modified", "assigning from a const lvalue changed the source");
            return true; });
#ifdef C06_SPELL
        // a CONST RVALUE source (ValueType = const T): overload resolution inside the payload differs from the const lvalue case
        hx.add_op("construct(const rvalue)", "a" + I + ":=any(const " + TN + " " + V + "&&)", [i, v, tg](World& w, Errs& e) {
            const T lv = make<T>(v);
            w.a(i).~any();
            try { pl::Arm arm; new (w.raw[i]) xtl::any(std::move(lv)); w.m[i] = MV{tg, v, false}; w.ref_valid[i] = false; }
            catch (const pl::Injected&) { new (w.raw[i]) xtl::any; w.m[i] = MV(); w.ref_valid[i] = false; }
            if (get_val(lv) != v) e.add("source-modified", "constructing from a const rvalue changed the source");
            return true; });
        hx.add_op("assign(const rvalue)", "a" + I + "=const " + TN + " " + V + "&&", [i, v, tg](World& w, Errs& e) {
            const T lv = make<T>(v);
            MV before = w.m[i];
            try { pl::Arm arm; w.a(i) = std::move(lv); w.m[i] = MV{tg, v, false}; w.ref_valid[i] = false; }
            catch (const pl::Injected&) { w.m[i] = before; }
            if (get_val(lv) != v) e.add("source-modified", "assigning from a const rvalue changed the source");
            return true; });
#endif
    }
    for (int i = 0; i < nobj; ++i)
    {
        const std::string I = str(i), TN = tname(tg);
        hx.add_op("mutate", "any_cast<" + TN + "&>(a" + I + ").set(9)", [i, tg](World& w, Errs& e) {
            if (w.m[i].unspecified || w.m[i].type != tg) return false;
            try { T& r = xtl::any_cast<T&>(w.a(i)); set_val(r, 9); w.m[i].value = 9; w.ref_valid[i] = false; }
            catch (const xtl::bad_any_cast&) { e.add("any_cast-ref", "any_cast<T&> threw although the model holds that type"); }
            return true; });
    }
}

static void build_ops(HX& hx, int nobj, const std::vector<int>& values)
{
#define X(TG, T) if (g_types != "base" || (TG) < 10) type_ops<T>(hx, values, nobj);
    C06_TYPES(X)
#undef X
    for (int i = 0; i < nobj; ++i)
    {
        const std::string I = str(i);
        hx.add_op("reset", "a" + I + ".reset()", [i](World& w, Errs&) { w.a(i).reset(); w.m[i] = MV(); w.ref_valid[i] = false; return true; });
        hx.add_op("clear", "a" + I + ".clear()", [i](World& w, Errs&) { w.a(i).clear(); w.m[i] = MV(); w.ref_valid[i] = false; return true; });
        hx.add_op("recreate", "a" + I + ":=any()", [i](World& w, Errs&) { w.a(i).~any(); new (w.raw[i]) xtl::any; w.m[i] = MV(); w.ref_valid[i] = false; return true; });
        for (int j = 0; j < nobj; ++j)
        {
            const std::string J = str(j);
            hx.add_op("copy-assign", "a" + I + "=a" + J, [i, j](World& w, Errs& e) {
                MV before = w.m[i];
                try { pl::Arm arm; xtl::any& r = (w.a(i) = w.a(j)); if (&r != &w.a(i)) e.add("return", "operator= does not return *this"); w.m[i] = w.m[j]; w.ref_valid[i] = false; }
                catch (const pl::Injected&) { w.m[i] = before; }   // if copying the contained value throws, the target keeps its previous value
                return true; });
            hx.add_op("swap", "a" + I + ".swap(a" + J + ")", [i, j](World& w, Errs&) {
                pl::Arm arm; w.a(i).swap(w.a(j)); std::swap(w.m[i], w.m[j]); w.ref_valid[i] = w.ref_valid[j] = false; return true; });
            if (i <= j) hx.add_op("std::swap", "std::swap(a" + I + ",a" + J + ")", [i, j](World& w, Errs&) {
                pl::Arm arm; std::swap(w.a(i), w.a(j)); std::swap(w.m[i], w.m[j]); w.ref_valid[i] = w.ref_valid[j] = false; return true; });
            if (i == j) continue;
            hx.add_op("move-assign", "a" + I + "=move(a" + J + ")", [i, j](World& w, Errs&) {
                pl::Arm arm; w.a(i) = std::move(w.a(j)); w.m[i] = w.m[j]; w.m[j].unspecified = true; w.ref_valid[i] = w.ref_valid[j] = false; return true; });
            hx.add_op("copy-construct", "a" + I + ":=any(a" + J + ")", [i, j](World& w, Errs&) {
                w.a(i).~any();
                try { pl::Arm arm; new (w.raw[i]) xtl::any(w.a(j)); w.m[i] = w.m[j]; }
                catch (const pl::Injected&) { new (w.raw[i]) xtl::any; w.m[i] = MV(); }
                w.ref_valid[i] = false;
                return true; });
            // a const rvalue any (std::move of a const object, a function returning const any) must select the COPY operations
            hx.add_op("copy-construct(const&&)", "a" + I + ":=any(move(const a" + J + "))", [i, j](World& w, Errs& e) {
                w.a(i).~any();
                const xtl::any& src = w.a(j);
                try { pl::Arm arm; new (w.raw[i]) xtl::any(std::move(src)); w.m[i] = w.m[j]; }
                catch (const pl::Injected&) { new (w.raw[i]) xtl::any; w.m[i] = MV(); }
                w.ref_valid[i] = false;
                if (!w.m[j].unspecified && w.m[j].type != 0 && w.observed_type(i) != w.m[j].type && w.m[i].type != 0) e.add("type", "an any constructed from a const rvalue any does not hold the source's type");
                return true; });
            hx.add_op("copy-assign(const&&)", "a" + I + "=move(const a" + J + ")", [i, j](World& w, Errs&) {
                MV before = w.m[i];
                const xtl::any& src = w.a(j);
                try { pl::Arm arm; w.a(i) = std::move(src); w.m[i] = w.m[j]; w.ref_valid[i] = false; }
                catch (const pl::Injected&) { w.m[i] = before; }
                return true; });
            hx.add_op("move-construct", "a" + I + ":=any(move(a" + J + "))", [i, j](World& w, Errs&) {
                w.a(i).~any();
                { pl::Arm arm; new (w.raw[i]) xtl::any(std::move(w.a(j))); }
                w.m[i] = w.m[j]; w.m[j].unspecified = true; w.ref_valid[i] = w.ref_valid[j] = false;
                return true; });
        }
    }
}


// -------------------------------------------------------------------------------------------------------------------
// Cast exactness across translation units: every (TU whose `Local` is stored) x (TU whose `Local` is the cast target) x every cast
// form x every route by which the stored value reached the object queried (direct, copy, move, copy-assign, move-assign, swap).
static void run_tu_matrix()
{
    C06TuApi api[2] = {C06TuApi{&local_make, &local_probe, &local_name}, c06_tu2_api()};
    static const char* forms[] = {"any_cast<T>(any*)", "any_cast<T>(const any*)", "any_cast<T>(any&)", "any_cast<T&>(any&)", "any_cast<const T&>(const any&)", "any_cast<T>(any&&)", "type()==typeid(T)"};
    static const char* routes[] = {"direct", "copy-construct", "move-construct", "copy-assign", "move-assign", "swap"};
    vf::note(std::string("two translation units: type_info::name() of the two unnamed-namespace `Local` types: '") + api[0].name() + "' and '" + api[1].name() + "'");
    long long evals = 0;
    for (int holder = 0; holder < 2; ++holder) for (int route = 0; route < 6; ++route) for (int v = 1; v <= 2; ++v)
    {
        xtl::any src = api[holder].make(v);
        xtl::any other = api[1 - holder].make(7);   // what the target held before (assignment / swap routes)
        xtl::any* q = &src;
        xtl::any t1, t2(other);
        switch (route)
        {
        case 0: break;
        case 1: { xtl::any c(src); t1.swap(c); q = &t1; break; }
        case 2: { xtl::any c(std::move(src)); t1.swap(c); q = &t1; break; }
        case 3: t2 = src; q = &t2; break;
        case 4: t2 = std::move(src); q = &t2; break;
        default: t2.swap(src); q = &t2; break;
        }
        for (int caster = 0; caster < 2; ++caster)
        {
            int val = -1;
            int m = api[caster].probe(*q, &val);
            ++evals;
            const int expect = holder == caster ? 127 : 0;
            for (int f = 0; f < 7; ++f) if (((m >> f) & 1) != ((expect >> f) & 1))
                vf::violation(std::string("C06/two-tu/") + forms[f] + "/" + (holder == caster ? "same-type-rejected" : "different-type-with-the-same-name-accepted"),
                              std::string("an any holding translation unit ") + str(holder + 1) + "'s unnamed-namespace type `Local` (value " + str(v) + ", route " + routes[route] + "), queried with translation unit " + str(caster + 1) +
                              "'s `Local` (" + (holder == caster ? "the stored type" : "a different type with the same name") + "): " + forms[f] + (((m >> f) & 1) ? " succeeded" : " failed"),
                              {"--tu-matrix"});
            if (holder == caster && (m & 127) == 127 && val != v)
                vf::violation("C06/two-tu/value", std::string("an any holding `Local`(") + str(v) + ") via route " + routes[route] + " reads back " + str(val), {"--tu-matrix"});
            if (vf::take_asan()) vf::violation("C06/two-tu/asan", std::string("AddressSanitizer report while casting an any that holds translation unit ") + str(holder + 1) + "'s `Local` to translation unit " + str(caster + 1) + "'s", {"--tu-matrix"});
        }
    }
    vf::stat("tu_matrix_evaluations", evals);
    vf::stat("transitions", evals);
    vf::stat("traces_validated_against_impl", evals);
}

int main(int argc, char** argv)
{
    int nobj = 3, depth = 1 << 30;
    std::vector<int> values = {1, 2};
    std::string replay;
    bool do_replay = false;
    long long max_states = 1LL << 40;
    double deadline = 1e18;
    std::string inst = "3any";
    for (int i = 1; i < argc; ++i)
    {
        std::string a = argv[i];
        if (a == "--objects") nobj = atoi(argv[++i]);
        else if (a == "--depth") depth = atoi(argv[++i]);
        else if (a == "--one-value") values = {1};
        else if (a == "--max-states") max_states = atoll(argv[++i]);
        else if (a == "--deadline") deadline = atof(argv[++i]);
        else if (a == "--inst") inst = argv[++i];
        else if (a == "--types") g_types = argv[++i];
        else if (a == "--tu-matrix") { run_tu_matrix(); vf::done(); return 0; }
        else if (a == "--replay") { do_replay = true; inst = argv[++i]; replay = argv[++i]; }
    }
    if (do_replay)
    {
        // inst encodes the alphabet: "<n>any[-1v]"
        nobj = inst[0] - '0';
        if (inst.find("-1v") != std::string::npos) values = {1};
        if (inst.find("-base") != std::string::npos) g_types = "base";
    }
    HX hx;
    hx.prop = "C06";
    hx.inst = inst;
    hx.max_depth = depth;
    hx.max_states = max_states;
    hx.deadline_s = deadline;
    build_ops(hx, nobj, values);
    if (do_replay) { hx.replay(replay); vf::done(); return 0; }
    hx.run();
    hx.summarize(depth == (1 << 30));
    vf::stat("operation_instances", (long long)hx.ops.size());
    vf::done();
    return 0;
}
