"""C06 xtl::any: history explorer (E2) over 3 any objects x 8 payload types x every throw point."""
import os
import vlib

LEVEL = "fault_enumeration"
HERE = os.path.dirname(os.path.abspath(__file__))
SRC = os.path.join(HERE, "harness.cpp")


def build():
    return vlib.compile_cxx(SRC, "c06", std="c++17", opt="-O1", san="asan-only")


def plan(tier):
    if tier == "quick":
        return [["--objects", "2", "--inst", "2any"], ["--objects", "3", "--one-value", "--inst", "3any-1v"]]
    return [["--objects", "2", "--inst", "2any"], ["--objects", "3", "--inst", "3any"]]


def run(ctx):
    b = build()
    dl = str(int(max(60, ctx.time_left() - 30)))
    vlib.parallel([(lambda a=a: ctx.run_harness(b, a + ["--deadline", dl], tag="c06")) for a in plan(ctx.tier)])
    ctx.stats["evaluations"] = ctx.stats.get("transitions", 0)
    ctx.stats["distinct_nontrivial"] = ctx.stats.get("states", 0)
    ctx.rule = ("BFS over operation histories of a world of 2-3 xtl::any objects (state = history replayed on a fresh world, deduplicated by the observed (type,value,moved-from) of every object). "
                "Alphabet: construct/assign from lvalue and rvalue of 8 payload types (8-byte and 16-byte in-place, 8-byte throwing-move heap, 24-byte heap, throwing-copy heap and in-place, alignas(16), int) x values, "
                "copy/move construct, copy/move assign incl. self copy-assign, member swap and std::swap incl. self-swap, reset, clear, destroy/recreate, mutation through any_cast<T&>. "
                "FAULTS: every operation is run unfaulted (which counts the K throw points it reaches in that state) and then once per k=1..K with the k-th copy/move throwing. "
                "Oracle: value model with the strong guarantee for copy-assignment/assignment from a value, address-keyed lifetime registry (construct once, never used dead, destroyed once, nothing alive after teardown), "
                "ASan/LSan; in every new state all cast forms x all 8 types + unrelated types. distinct_nontrivial = distinct world states; faulted_transitions = executions with an injected throw")
    ctx.assumptions += [
        "moved-from any objects are only required to be queryable/assignable/destructible (content unspecified); self move-assignment is not in the alphabet",
        "payload types are harness types whose constructors report to the registry; std::any (libstdc++, C++17) is consulted as a second opinion on fault-free prefixes only",
        "quick: 2 objects with 2 values and 3 objects with 1 value; thorough: 3 objects with 2 values, all to fixpoint unless a cap is reported",
    ]


def replay(ctx, rec):
    ctx.run_harness(build(), rec["args"], tag="c06")
