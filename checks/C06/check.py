"""C06 xtl::any: history explorer (E2) over 3 any objects x 11 payload types x every throw point; spelling-sensitive payload class; cast-target type alphabet."""
import os
import re
import subprocess
import vlib

LEVEL = "fault_enumeration"
HERE = os.path.dirname(os.path.abspath(__file__))
SRC = os.path.join(HERE, "harness.cpp")
NSRC = os.path.join(HERE, "nested.cpp")
CSRC = os.path.join(HERE, "casts.cpp")
N_FORMS = 13             # casts.cpp: F_COUNT
N_PROBED_FORMS = 10      # casts.cpp: the pointer and reference forms (F_P .. F_RCR); the by-value forms cannot return an array / function


def build():
    return vlib.compile_cxx(SRC, "c06", std="c++17", opt="-O1", san="asan-only", extra_srcs=[os.path.join(HERE, "other_tu.cpp")], flags=["-I" + HERE])


def build_spell():
    # same harness, payload table = the spelling-sensitive type class (c06_spell.hpp)
    return vlib.compile_cxx(SRC, "c06s", std="c++17", opt="-O1", san="asan-only", extra_srcs=[os.path.join(HERE, "other_tu.cpp")], flags=["-I" + HERE], defines=["C06_SPELL"])


def build_nested():
    return vlib.compile_cxx(NSRC, "c06n", std="c++17", opt="-O1", san="asan-only")


def cast_table(std, deep):
    """The target table of casts.cpp as the preprocessor sees it for this -std / tier: (number of targets, ids of array / function types)."""
    cmd = ["g++", "-std=" + std, "-E", "-P", "-DC06_LIST"] + (["-DC06_DEEP"] if deep else []) + [CSRC]
    r = subprocess.run(cmd, stdout=subprocess.PIPE, stderr=subprocess.PIPE, text=True)
    if r.returncode != 0:
        raise vlib.HarnessError("casts.cpp LIST mode failed: " + r.stderr[-2000:])
    exotic = [int(x) for x in re.findall(r"@@EXOTIC\s+(\d+)", r.stdout)]
    n = int(re.search(r"@@NTARGETS\s+(\d+)", r.stdout).group(1))
    return n, exotic


def build_casts(std, deep):
    """Capability probes (one syntax-only compile per array / function target type, per form only if the group fails), then the real build."""
    n, exotic = cast_table(std, deep)
    base_defs = ["C06_DEEP"] if deep else []

    def probe(defs):
        return vlib.compile_cxx(CSRC, "c06probe", std=std, opt="-O0", san="none", defines=base_defs + defs, syntax_only=True, expect_fail=True) is not None

    def caps_of(tid):
        if probe(["C06_PROBE_TARGET=%d" % tid]):
            return (1 << N_PROBED_FORMS) - 1
        m = 0
        for f in range(N_PROBED_FORMS):
            if probe(["C06_PROBE_TARGET=%d" % tid, "C06_PROBE_FORM=%d" % f]):
                m |= 1 << f
        return m

    masks = vlib.parallel([(lambda t=t: caps_of(t)) for t in exotic])
    caps = [(1 << N_FORMS) - 1] * n
    for t, m in zip(exotic, masks):
        caps[t] = m
    b = vlib.compile_cxx(CSRC, "c06cast", std=std, opt="-O1", san="asan-only", defines=base_defs + ["C06_CAPS=" + ",".join(str(c) for c in caps)])
    return b, len(exotic), sum(1 for m in masks if m != (1 << N_PROBED_FORMS) - 1)


def plan(tier):
    if tier == "quick":
        return [["--objects", "2", "--inst", "2any"], ["--objects", "3", "--one-value", "--types", "base", "--inst", "3any-1v-base"]]
    return [["--objects", "2", "--inst", "2any"], ["--objects", "3", "--inst", "3any"]]


def run(ctx):
    b, bn = vlib.parallel([build, build_nested])
    dl = str(int(max(60, ctx.time_left() - 30)))
    nest = ["--nest", "3" if ctx.tier == "quick" else "4"]
    vlib.parallel([(lambda a=a: ctx.run_harness(b, a + ["--deadline", dl], tag="c06")) for a in plan(ctx.tier)] +
                  [lambda: ctx.run_harness(bn, nest + ["--deadline", dl], tag="c06n"), lambda: ctx.run_harness(b, ["--tu-matrix"], tag="c06")])
    ctx.stats["evaluations"] = ctx.stats.get("transitions", 0)
    ctx.stats["distinct_nontrivial"] = ctx.stats.get("states", 0)
    ctx.rule = ("BFS over operation histories of a world of 2-3 xtl::any objects (state = history replayed on a fresh world, deduplicated by the observed (type,value,moved-from) of every object). "
                "Alphabet: construct/assign from lvalue and rvalue of 11 payload types (8-byte and 16-byte in-place, 8-byte throwing-move heap, 24-byte heap, throwing-copy heap and in-place, alignas(16), noexcept-copy/throwing-move, int, and a heap-stored and an in-place type with CLASS-SPECIFIC operator new/delete whose blocks the registry tracks: creation and release must use matching allocation functions) x values, "
                "copy/move construct, copy/move assign incl. self copy-assign, member swap and std::swap incl. self-swap, reset, clear, destroy/recreate, mutation through any_cast<T&>. "
                "FAULTS: every operation is run unfaulted (which counts the K throw points it reaches in that state) and then once per k=1..K with the k-th copy/move throwing. "
                "Oracle: value model with the strong guarantee for copy-assignment/assignment from a value, address-keyed lifetime registry (construct once, never used dead, destroyed once, nothing alive after teardown), "
                "ASan/LSan; in every new state all cast forms x all 8 types + unrelated types. The tracked payloads are address-sensitive: the registry binds each object's heap cell to the address a constructor put it at, so bytes exchanged or relocated without move construction are reported. "
                "TWO-TU part: the harness is linked from two translation units that each define an unnamed-namespace type `Local` (same name, different types, one stored in place and one on the heap); every (stored TU x cast-target TU x 7 cast/type() forms x 6 routes direct/copy/move/copy-assign/move-assign/swap x 2 values) must succeed exactly for the stored type. NESTED part (nested.cpp): two any objects holding Small values or Node{any child} (heap-stored) / Handle{any* child} (in-place) trees up to nesting 3 (quick) / 4 (thorough); operations whose source lives inside the target's own content "
                "(a = move(Node(a).child), by copy, via construct+swap, over two levels), whose source lives inside the other object, and whose target lives inside an object's content (child = a_j, child.swap(a_j)); value-semantic tree model, deep-copy checks. distinct_nontrivial = distinct world states; faulted_transitions = executions with an injected throw")
    ctx.assumptions += [
        "moved-from any objects are only required to be queryable/assignable/destructible (content unspecified); self move-assignment is not in the alphabet",
        "payload types are harness types whose constructors report to the registry; std::any (libstdc++, C++17) is consulted as a second opinion on fault-free prefixes only",
        "quick: 2 objects with 2 values over all 11 payload types and 3 objects with 1 value over the 9 payload types without class-specific allocation functions; thorough: 3 objects with 2 values over all types, all to fixpoint unless a cap is reported",
    ]


def replay(ctx, rec):
    a = rec["args"]
    nested = "--replay" in a and a[a.index("--replay") + 1].startswith("nest")
    ctx.run_harness(build_nested() if nested else build(), a, tag="c06")
