"""C06 xtl::any: history explorer (E2) over 3 any objects x 11 payload types x every throw point; spelling-sensitive payload class; cast-target type alphabet."""
import hashlib
import os
import re
import subprocess
import vlib

LEVEL = "fault_enumeration"
HERE = os.path.dirname(os.path.abspath(__file__))
SRC = os.path.join(HERE, "harness.cpp")
NSRC = os.path.join(HERE, "nested.cpp")
CSRC = os.path.join(HERE, "casts.cpp")
N_FORMS = 13   # casts.cpp: F_COUNT


def build():
    return vlib.compile_cxx(SRC, "c06", std="c++17", opt="-O1", san="asan-only", extra_srcs=[os.path.join(HERE, "other_tu.cpp")], flags=["-I" + HERE])


def build_spell():
    # same harness, payload table = the spelling-sensitive type class (c06_spell.hpp)
    return vlib.compile_cxx(SRC, "c06s", std="c++17", opt="-O1", san="asan-only", extra_srcs=[os.path.join(HERE, "other_tu.cpp")], flags=["-I" + HERE], defines=["C06_SPELL"])


def build_nested():
    return vlib.compile_cxx(NSRC, "c06n", std="c++17", opt="-O1", san="asan-only")


def cast_table(std, deep):
    """The target table of casts.cpp as the preprocessor sees it for this -std / tier: (number of targets, ids of array / function types)."""
    cmd = ["g++", "-std=" + std, "-E", "-P", "-DC06_LIST"] + (["-DC06_DEEP"] if deep else []) + [CSRC]
    r = subprocess.run(cmd, stdout=subprocess.PIPE, stderr=subprocess.PIPE, text=True)
    if r.returncode != 0:
        raise vlib.HarnessError("casts.cpp LIST mode failed: " + r.stderr[-2000:])
    exotic = [int(x) for x in re.findall(r"@@EXOTIC\s+(\d+)", r.stdout)]
    n = int(re.search(r"@@NTARGETS\s+(\d+)", r.stdout).group(1))
    return n, exotic


def probe(std, defs):
    """Capability probe: does casts.cpp compile (-fsyntax-only) in PROBE mode with these defines against the tree under test?
    Both outcomes are cached under the hash of the PREPROCESSED translation unit, so any edit of xany.hpp re-probes."""
    base = ["g++", "-std=" + std, "-I" + vlib.INCLUDE, "-I" + os.path.join(vlib.VERIF, "engine")] + ["-D" + d for d in defs]
    r = subprocess.run(base + ["-E", "-P", CSRC], stdout=subprocess.PIPE, stderr=subprocess.PIPE)
    if r.returncode != 0:
        raise vlib.HarnessError("preprocessing casts.cpp failed: " + r.stderr.decode()[-2000:])
    os.makedirs(vlib.CACHE, exist_ok=True)
    mark = os.path.join(vlib.CACHE, "c06probe-" + hashlib.sha256(" ".join(base).encode() + b"\0" + r.stdout).hexdigest()[:24])
    if os.path.exists(mark + ".ok"):
        return True
    if os.path.exists(mark + ".bad"):
        return False
    c = subprocess.run(base + ["-O0", "-fsyntax-only", CSRC], stdout=subprocess.PIPE, stderr=subprocess.PIPE, text=True)
    if c.returncode == 0:
        open(mark + ".ok", "w").close()
        return True
    if "error:" not in c.stderr:
        raise vlib.HarnessError("capability probe died without a diagnostic (rc=%s): %s" % (c.returncode, c.stderr[-1000:]))
    with open(mark + ".bad", "w") as f:
        f.write(c.stderr[:2000])
    return False


def build_casts(std, deep):
    """Capability probes (one syntax-only compile per target type with all its forms; per form only if that fails), then the real build.
    Returns (binary, number of array/function target types, number of (form, target) pairs found ill-formed)."""
    n, exotic = cast_table(std, deep)
    base_defs = ["C06_DEEP"] if deep else []

    full = (1 << N_FORMS) - 1
    group = vlib.parallel([(lambda t=t: probe(std, base_defs + ["C06_PROBE_TARGET=%d" % t])) for t in range(n)])
    # by-value forms of an array / function type are never instantiated (casts.cpp: plain_object), so they need no probe
    todo = [(t, f) for t in range(n) if not group[t] for f in range(N_FORMS if t not in exotic else N_FORMS - 3)]
    single = vlib.parallel([(lambda t=t, f=f: probe(std, base_defs + ["C06_PROBE_TARGET=%d" % t, "C06_PROBE_FORM=%d" % f])) for t, f in todo])
    caps = [full if group[t] else (0 if t not in exotic else (7 << (N_FORMS - 3))) for t in range(n)]
    for (t, f), ok in zip(todo, single):
        if ok:
            caps[t] |= 1 << f
    b = vlib.compile_cxx(CSRC, "c06cast", std=std, opt="-O1", san="asan-only", defines=base_defs + ["C06_CAPS=" + ",".join(str(c) for c in caps)])
    return b, len(exotic), sum(bin(full & ~c).count("1") for c in caps)


def plan(tier):
    if tier == "quick":
        return [["--objects", "2", "--inst", "2any"], ["--objects", "3", "--one-value", "--types", "base", "--inst", "3any-1v-base"]]
    return [["--objects", "2", "--inst", "2any"], ["--objects", "3", "--inst", "3any"]]


def plan_spell(tier):
    if tier == "quick":
        return [["--objects", "2", "--inst", "2any-spell"]]
    return [["--objects", "2", "--inst", "2any-spell"], ["--objects", "3", "--one-value", "--inst", "3any-1v-spell"]]


CAST_STDS = ("c++14", "c++17")


def run(ctx):
    deep = ctx.tier != "quick"
    built = vlib.parallel([build, build_nested, build_spell] + [(lambda s=s: build_casts(s, deep)) for s in CAST_STDS])
    b, bn, bs = built[:3]
    casts = dict(zip(CAST_STDS, built[3:]))
    dl = str(int(max(60, ctx.time_left() - 30)))
    nest = ["--nest", "3" if ctx.tier == "quick" else "4"]
    vlib.parallel([(lambda a=a: ctx.run_harness(b, a + ["--deadline", dl], tag="c06")) for a in plan(ctx.tier)] +
                  [(lambda a=a: ctx.run_harness(bs, a + ["--deadline", dl], tag="c06s")) for a in plan_spell(ctx.tier)] +
                  [(lambda s=s: ctx.run_harness(casts[s][0], ["--casts", "--std", s], tag="c06cast-" + s)) for s in CAST_STDS] +
                  [lambda: ctx.run_harness(bn, nest + ["--deadline", dl], tag="c06n"), lambda: ctx.run_harness(b, ["--tu-matrix"], tag="c06")])
    for s in CAST_STDS:
        ctx.smax("cast_capability_probe_ill_formed_pairs_" + s.replace("+", "p"), casts[s][2])
    ctx.stats["evaluations"] = ctx.stats.get("transitions", 0)
    ctx.stats["distinct_nontrivial"] = ctx.stats.get("states", 0)
    ctx.rule = ("BFS over operation histories of a world of 2-3 xtl::any objects (state = history replayed on a fresh world, deduplicated by the observed (type,value,moved-from) of every object). "
                "Alphabet: construct/assign from a non-const lvalue, a CONST lvalue and an rvalue of 11 payload types (8-byte and 16-byte in-place, 8-byte throwing-move heap, 24-byte heap, throwing-copy heap and in-place, alignas(16), noexcept-copy/throwing-move, int, and a heap-stored and an in-place type with CLASS-SPECIFIC operator new/delete whose blocks the registry tracks: creation and release must use matching allocation functions) x values, "
                "copy/move construct, copy/move assign incl. self copy-assign, member swap and std::swap incl. self-swap, reset, clear, destroy/recreate, mutation through any_cast<T&>. "
                "FAULTS: every operation is run unfaulted (which counts the K throw points it reaches in that state) and then once per k=1..K with the k-th copy/move throwing. "
                "Oracle: value model with the strong guarantee for copy-assignment/assignment from a value, address-keyed lifetime registry (construct once, never used dead, destroyed once, nothing alive after teardown), "
                "ASan/LSan; in every new state all cast forms x all 8 types + unrelated types. The tracked payloads are address-sensitive: the registry binds each object's heap cell to the address a constructor put it at, so bytes exchanged or relocated without move construction are reported. "
                "SPELLING-SENSITIVE PAYLOAD CLASS (instances *-spell: the same explorer, operations, faults and oracle, harness.cpp built with -DC06_SPELL over the payload table c06_spell.hpp): 15 value-semantic payload types for which the way the library SPELLS a construction selects the constructor - "
                "JSON-like node with node(initializer_list<node>) (16 bytes in place / 48 bytes heap with a throwing copy), list of int that also converts to int, box of std::any with box(initializer_list<std::any>), std::vector<xtl::any>, std::vector<std::any>, "
                "unconstrained forwarding constructor (8 / 48 bytes), explicit copy+move constructors (8 / 48 bytes), aggregate (16 / 48 bytes), aggregate whose first member is an xtl::any, type with a converting constructor from xtl::any - plus Small and int; "
                "additionally construct/assign from a CONST RVALUE. The value the model compares folds in the object's shape (scalar v, list of n elements, built-by-the-wrong-constructor codes), so a copy made by T{src}, by copy-initialization or through a foreign conversion differs from its source; reference = direct-initialization T(expr). "
                "CAST-TARGET part (casts.cpp, built as c++14 and c++17): 22 source kinds (array / const array / 2-D array / rvalue array lvalues, string literal, function names incl. noexcept (c++17), function pointers, pointer to array, pointers, pointers to members, nullptr, int, empty) x 11 routes (direct, assignment into empty / in-place / heap-holding target, copy / move / const-rvalue construction, copy / move assignment, swap both ways; both objects constructed in place by the named expression) x "
                "57 (quick) / 105 (thorough) target types (object types, cv-qualified, pointers to / arrays of arrays and functions, array types of known and unknown bound, function types incl. cv/ref-qualified and noexcept) x 13 cast forms (any*, const any*, const T, null operand x2, T& / const T& on any&, const any&, any&&, by value x3); "
                "expected outcome COMPUTED as not-empty && is_same<decay_t<decltype((source))>, remove_cv_t<remove_reference_t<T>>>, on success same address in all forms and the stored value; std::any in lock-step through the same routes as second opinion on the pointer form (c++17); "
                "a (form, target) pair is instantiated only if its CAPABILITY PROBE (casts.cpp compiled -fsyntax-only in probe mode against the tree under test, per target, per form when the group fails) compiles. "
                "TWO-TU part: the harness is linked from two translation units that each define an unnamed-namespace type `Local` (same name, different types, one stored in place and one on the heap); every (stored TU x cast-target TU x 7 cast/type() forms x 6 routes direct/copy/move/copy-assign/move-assign/swap x 2 values) must succeed exactly for the stored type. NESTED part (nested.cpp): two any objects holding Small values or Node{any child} (heap-stored) / Handle{any* child} (in-place) trees up to nesting 3 (quick) / 4 (thorough); operations whose source lives inside the target's own content "
                "(a = move(Node(a).child), by copy, via construct+swap, over two levels), whose source lives inside the other object, and whose target lives inside an object's content (child = a_j, child.swap(a_j)); value-semantic tree model, deep-copy checks. distinct_nontrivial = distinct world states; faulted_transitions = executions with an injected throw")
    ctx.assumptions += [
        "moved-from any objects are only required to be queryable/assignable/destructible (content unspecified); self move-assignment is not in the alphabet",
        "payload types are harness types whose constructors report to the registry; std::any (libstdc++, C++17) is consulted as a second opinion on fault-free prefixes only",
        "quick: 2 objects with 2 values over all 11 payload types and 3 objects with 1 value over the 9 payload types without class-specific allocation functions; thorough: 3 objects with 2 values over all types, all to fixpoint unless a cap is reported",
        "spelling-sensitive class: quick 2 objects x 2 values over the 17 types of c06_spell.hpp, thorough additionally 3 objects x 1 value; the reference for every route is direct-initialization T(expr) of the payload (what the documentation of any's converting constructor states and what std::any does); "
        "the by-value any_cast forms are not used for the explicit-copy types (xtl returns *p by copy-initialization: ill-formed there, a compile-time matter the property does not speak about)",
        "cast-target part: combinations that do not compile on the tree under test (on the pinned tree: reference / by-value forms for volatile-qualified targets and for references to functions - detail::check_any_cast takes const void* - and every form for cv/ref-qualified function types) are skipped by capability probe and listed in the notes; "
        "by-value forms are never formed for array / function types (a function cannot return them: language rule); the g++ toolchain of this sandbox decides overload resolution (CWG 2137 for T{src})",
    ]


def replay(ctx, rec):
    a = rec["args"]
    h = rec.get("harness") or ""
    if h.startswith("c06cast-"):
        std = h[len("c06cast-"):]
        ctx.run_harness(build_casts(std, ctx.tier != "quick")[0], a + ["--std", std], tag=h)
        return
    nested = "--replay" in a and a[a.index("--replay") + 1].startswith("nest")
    spell = h == "c06s" or ("--replay" in a and "spell" in a[a.index("--replay") + 1])
    ctx.run_harness(build_nested() if nested else build_spell() if spell else build(), a, tag=h or "c06")
