// Included by harness.cpp (TU 1) and other_tu.cpp (TU 2). Each translation unit gets ITS OWN type `Local` in an unnamed namespace:
// two DISTINCT types with the same spelling (and the same std::type_info::name()). "any_cast succeeds only for exactly the stored
// decayed type" must hold for them as for any other pair of different types. C06_LOCAL_PAD makes one of them in-place and the other
// heap-stored, so a cast that wrongly succeeds also reads the storage through the wrong layout.
#ifndef C06_LOCAL_HPP
#define C06_LOCAL_HPP
#include <xtl/xany.hpp>
#include <typeinfo>

struct C06TuApi
{
    xtl::any (*make)(int);
    // bit k set <=> cast form k succeeded: 0 any_cast<T>(&a) 1 any_cast<T>(const any*) 2 any_cast<T>(a) 3 any_cast<T&>(a) 4 any_cast<const T&>(const a) 5 any_cast<T>(any&&) on a copy
    // 6 a.type() == typeid(T); *value receives the value read through the pointer form (or -1)
    int (*probe)(xtl::any&, int*);
    const char* (*name)();
};

namespace
{
    struct Local
    {
        unsigned char pad[C06_LOCAL_PAD];
        int v;
        explicit Local(int x) : v(x) { for (unsigned i = 0; i < sizeof pad; ++i) pad[i] = 0x5A; }
    };

    xtl::any local_make(int v) { return xtl::any(Local(v)); }
    const char* local_name() { return typeid(Local).name(); }
    int local_probe(xtl::any& a, int* value)
    {
        int m = 0;
        const xtl::any& ca = a;
        *value = -1;
        if (Local* p = xtl::any_cast<Local>(&a)) { m |= 1; (void)p; }
        if (xtl::any_cast<Local>(&ca)) m |= 2;
        try { Local l = xtl::any_cast<Local>(a); (void)l; m |= 4; } catch (const xtl::bad_any_cast&) {}
        try { Local& l = xtl::any_cast<Local&>(a); (void)l; m |= 8; } catch (const xtl::bad_any_cast&) {}
        try { const Local& l = xtl::any_cast<const Local&>(ca); (void)l; m |= 16; } catch (const xtl::bad_any_cast&) {}
        try { xtl::any c(ca); Local l = xtl::any_cast<Local>(std::move(c)); (void)l; m |= 32; } catch (const xtl::bad_any_cast&) {}
        if (a.type() == typeid(Local)) m |= 64;
        if ((m & 127) == 127) *value = xtl::any_cast<Local>(&a)->v;   // read only when every form agrees that this IS a Local of this TU
        return m;
    }
}
#endif
