// C06 (nested part): xtl::any objects whose content owns further xtl::any objects.
// History explorer (engine E2) over two top-level any objects holding Small values or Node{any child} trees up to a nesting
// bound, with operations whose SOURCE lives inside the TARGET's current content (tree collapse / hoisting idioms) or whose
// target lives inside the source. Oracle: a value-semantic tree model, the address-keyed lifetime registry and ASan.
#include <xtl/xany.hpp>

#include "history.hpp"

#include <typeinfo>

using vf::Errs;
using vf::str;

typedef pl::Tracked<1, 0, true, false, false, false> Small;    //  8 bytes -> in place
typedef pl::Tracked<21, 0, true, false, false, false> Marker;  // lifetime witness of a Node

struct Node
{
    xtl::any child;
    Marker mark;
    explicit Node(int m) : mark(m) {}
};
static_assert(sizeof(Node) > 2 * sizeof(void*), "Node is heap-stored");

// in-place node: a pointer-sized handle to a heap any (nothrow move, 8 bytes) -> stored in the any's own buffer
struct Handle
{
    xtl::any* p;
    Marker* mk;
    explicit Handle(int m) : p(new xtl::any), mk(new Marker(m)) {}
    Handle(const Handle& o) : p(new xtl::any(*o.p)), mk(new Marker(*o.mk)) {}
    Handle(Handle&& o) noexcept : p(o.p), mk(o.mk) { o.p = nullptr; o.mk = nullptr; }
    Handle& operator=(const Handle& o) { Handle t(o); std::swap(p, t.p); std::swap(mk, t.mk); return *this; }
    Handle& operator=(Handle&& o) noexcept { std::swap(p, o.p); std::swap(mk, o.mk); return *this; }
    ~Handle() { delete p; delete mk; }
};
static_assert(sizeof(Handle) <= 2 * sizeof(void*) && std::is_nothrow_move_constructible<Handle>::value, "Handle is stored in place");

// model: 0 empty, 1 Small(value), 2 Node(value = marker, child), 3 Handle(value = marker, child)
struct MT
{
    int type = 0;
    int value = 0;
    bool unspecified = false;
    std::vector<MT> child;   // size 1 for type 2 / 3
    int depth() const { return (type >= 2 && !child.empty()) ? 1 + child[0].depth() : 0; }
    static MT small(int v) { MT m; m.type = 1; m.value = v; return m; }
    static MT node(int ty, int mk, const MT& c) { MT m; m.type = ty; m.value = mk; m.child.push_back(c); return m; }
};

static const int NOBJ = 2;
static int g_maxdepth = 2;

static xtl::any* child_of(xtl::any& a)
{
    if (Node* n = xtl::any_cast<Node>(&a)) return &n->child;
    if (Handle* h = xtl::any_cast<Handle>(&a)) return h->p;
    return nullptr;
}
static const xtl::any* child_of(const xtl::any& a) { return child_of(const_cast<xtl::any&>(a)); }

static std::string describe(const xtl::any& a, const MT* m, int guard = 0)
{
    std::string q = (m && m->unspecified) ? "?" : "";
    if (guard > 6) return "...";
    if (!a.has_value()) return "E" + q;
    if (const Small* s = xtl::any_cast<Small>(&a)) return "S" + str(s->value()) + q;
    if (const Node* n = xtl::any_cast<Node>(&a))
        return "N" + str(n->mark.value()) + q + "(" + describe(n->child, (m && !m->unspecified && m->type == 2 && !m->child.empty()) ? &m->child[0] : nullptr, guard + 1) + ")";
    if (const Handle* h = xtl::any_cast<Handle>(&a))
        return "H" + (h->mk ? str(h->mk->value()) : std::string("-")) + q + "(" + (h->p ? describe(*h->p, (m && !m->unspecified && m->type == 3 && !m->child.empty()) ? &m->child[0] : nullptr, guard + 1) : std::string("null")) + ")";
    return "X" + q;
}

static void compare(const xtl::any& a, const MT& m, const std::string& path, Errs& e)
{
    if (m.unspecified) return;
    if (a.has_value() == a.empty()) e.add("has_value", path + ": has_value() == empty()");
    if (m.type == 0) { if (a.has_value()) e.add("has_value", path + ": holds a value (" + describe(a, nullptr) + "), model is empty"); return; }
    if (!a.has_value()) { e.add("has_value", path + ": is empty, model holds " + std::string(m.type == 1 ? "Small " : m.type == 2 ? "Node " : "Handle ") + str(m.value)); return; }
    if (m.type == 1)
    {
        const Small* s = xtl::any_cast<Small>(&a);
        if (!s || a.type() != typeid(Small)) { e.add("type", path + ": model holds Small " + str(m.value) + ", observed " + describe(a, nullptr)); return; }
        if (s->value() != m.value) e.add("value", path + ": holds Small " + str(s->value()) + ", model " + str(m.value));
        if (xtl::any_cast<Node>(&a) || xtl::any_cast<Handle>(&a)) e.add("any_cast-pointer", path + ": any_cast to a type that is not stored is non-null");
        return;
    }
    if (m.type == 2)
    {
        const Node* n = xtl::any_cast<Node>(&a);
        if (!n || a.type() != typeid(Node)) { e.add("type", path + ": model holds Node " + str(m.value) + ", observed " + describe(a, nullptr)); return; }
        if (n->mark.value() != m.value) e.add("value", path + ": holds Node " + str(n->mark.value()) + ", model " + str(m.value));
        compare(n->child, m.child[0], path + ".child", e);
        return;
    }
    const Handle* h = xtl::any_cast<Handle>(&a);
    if (!h || a.type() != typeid(Handle)) { e.add("type", path + ": model holds Handle " + str(m.value) + ", observed " + describe(a, nullptr)); return; }
    if (!h->p || !h->mk) { e.add("value", path + ": holds a moved-from Handle, model Handle " + str(m.value)); return; }
    if (h->mk->value() != m.value) e.add("value", path + ": holds Handle " + str(h->mk->value()) + ", model " + str(m.value));
    compare(*h->p, m.child[0], path + ".child", e);
}

struct World
{
    alignas(16) unsigned char raw[NOBJ][sizeof(xtl::any)];
    MT m[NOBJ];
    xtl::any& a(int i) { return *reinterpret_cast<xtl::any*>(raw[i]); }
    const xtl::any& a(int i) const { return *reinterpret_cast<const xtl::any*>(raw[i]); }
    World() { for (int i = 0; i < NOBJ; ++i) { std::memset(raw[i], 0xA5, sizeof raw[i]); new (raw[i]) xtl::any; } }
    ~World() { for (int i = 0; i < NOBJ; ++i) a(i).~any(); }
    World(const World&) = delete;
    std::string key() const
    {
        std::string k;
        for (int i = 0; i < NOBJ; ++i) k += describe(a(i), &m[i]) + " ";
        return k;
    }
    void light(Errs& e) { for (int i = 0; i < NOBJ; ++i) compare(a(i), m[i], "a" + str(i), e); }
    void check(Errs& e)
    {
        light(e);
        // copies are deep and independent: copy every object, compare the copy with the model, destroy the copy
        for (int i = 0; i < NOBJ && e.empty(); ++i)
        {
            if (m[i].unspecified) continue;
            xtl::any c(a(i));
            compare(c, m[i], "copy of a" + str(i), e);
            xtl::any d(std::move(c));
            compare(d, m[i], "moved copy of a" + str(i), e);
        }
    }
};

typedef vf::HistoryExplorer<World> HX;

template <class N> struct nt;
template <> struct nt<Node> { static const int ty = 2; static const char* name() { return "Node"; } };
template <> struct nt<Handle> { static const int ty = 3; static const char* name() { return "Handle"; } };
static xtl::any& kid(Node& n) { return n.child; }
static xtl::any& kid(Handle& h) { return *h.p; }

template <class N>
static void node_ops(HX& hx)
{
    const int ty = nt<N>::ty;
    const std::string TN = nt<N>::name();
    for (int i = 0; i < NOBJ; ++i)
    {
        const std::string I = str(i);
        for (int j = 0; j < NOBJ; ++j)
        {
            const std::string J = str(j);
            hx.add_op("wrap-copy", "a" + I + "=" + TN + "{a" + J + "}", [i, j, ty](World& w, Errs&) {
                if (w.m[j].unspecified || w.m[j].depth() + 1 > g_maxdepth) return false;
                N n(5);
                kid(n) = w.a(j);
                MT nm = MT::node(ty, 5, w.m[j]);
                w.a(i) = std::move(n);
                w.m[i] = nm;
                return true; });
            hx.add_op("wrap-move", "a" + I + "=" + TN + "{move(a" + J + ")}", [i, j, ty](World& w, Errs&) {
                if (w.m[j].unspecified || w.m[j].depth() + 1 > g_maxdepth) return false;
                N n(5);
                kid(n) = std::move(w.a(j));
                MT nm = MT::node(ty, 5, w.m[j]);
                w.m[j].unspecified = true;
                w.a(i) = std::move(n);
                w.m[i] = nm;
                return true; });
            // the source lives inside the content of a_j; for i == j inside the target's own content
            hx.add_op(i == j ? "collapse-move" : "hoist-move", "a" + I + "=move(" + TN + "(a" + J + ").child)", [i, j, ty](World& w, Errs& e) {
                if (w.m[j].unspecified || w.m[j].type != ty || w.m[j].child[0].unspecified) return false;
                N* n = xtl::any_cast<N>(&w.a(j));
                if (!n) { e.add("any_cast-pointer", "any_cast<" + std::string(nt<N>::name()) + "> is null although the model holds it"); return true; }
                MT c = w.m[j].child[0];
                if (i != j) w.m[j].child[0].unspecified = true;
                w.a(i) = std::move(kid(*n));
                w.m[i] = c;
                return true; });
            hx.add_op(i == j ? "collapse-copy" : "hoist-copy", "a" + I + "=" + TN + "(a" + J + ").child", [i, j, ty](World& w, Errs& e) {
                if (w.m[j].unspecified || w.m[j].type != ty || w.m[j].child[0].unspecified) return false;
                N* n = xtl::any_cast<N>(&w.a(j));
                if (!n) { e.add("any_cast-pointer", "any_cast<" + std::string(nt<N>::name()) + "> is null although the model holds it"); return true; }
                MT c = w.m[j].child[0];
                w.a(i) = kid(*n);
                w.m[i] = c;
                return true; });
            hx.add_op(i == j ? "collapse-construct" : "hoist-construct", "a" + I + "=any(move(" + TN + "(a" + J + ").child)) via swap", [i, j, ty](World& w, Errs& e) {
                if (w.m[j].unspecified || w.m[j].type != ty || w.m[j].child[0].unspecified) return false;
                N* n = xtl::any_cast<N>(&w.a(j));
                if (!n) { e.add("any_cast-pointer", "any_cast is null although the model holds the type"); return true; }
                MT c = w.m[j].child[0];
                if (i != j) w.m[j].child[0].unspecified = true;
                { xtl::any t(std::move(kid(*n))); t.swap(w.a(i)); }
                w.m[i] = c;
                return true; });
            // the target lives inside the content of a_i
            hx.add_op("child-assign-copy", TN + "(a" + I + ").child=a" + J, [i, j, ty](World& w, Errs& e) {
                if (w.m[i].unspecified || w.m[i].type != ty || w.m[j].unspecified || w.m[j].depth() + 1 > g_maxdepth) return false;
                N* n = xtl::any_cast<N>(&w.a(i));
                if (!n) { e.add("any_cast-pointer", "any_cast is null although the model holds the type"); return true; }
                MT c = w.m[j];
                kid(*n) = w.a(j);
                w.m[i].child[0] = c;
                return true; });
            if (i != j)
            {
                hx.add_op("child-assign-move", TN + "(a" + I + ").child=move(a" + J + ")", [i, j, ty](World& w, Errs& e) {
                    if (w.m[i].unspecified || w.m[i].type != ty || w.m[j].unspecified || w.m[j].depth() + 1 > g_maxdepth) return false;
                    N* n = xtl::any_cast<N>(&w.a(i));
                    if (!n) { e.add("any_cast-pointer", "any_cast is null although the model holds the type"); return true; }
                    MT c = w.m[j];
                    kid(*n) = std::move(w.a(j));
                    w.m[j].unspecified = true;
                    w.m[i].child[0] = c;
                    return true; });
                hx.add_op("child-swap", TN + "(a" + I + ").child.swap(a" + J + ")", [i, j, ty](World& w, Errs& e) {
                    if (w.m[i].unspecified || w.m[i].type != ty || w.m[i].child[0].unspecified || w.m[j].unspecified || w.m[j].depth() + 1 > g_maxdepth) return false;
                    N* n = xtl::any_cast<N>(&w.a(i));
                    if (!n) { e.add("any_cast-pointer", "any_cast is null although the model holds the type"); return true; }
                    kid(*n).swap(w.a(j));
                    MT c = w.m[i].child[0];
                    w.m[i].child[0] = w.m[j];
                    w.m[j] = c;
                    return true; });
            }
        }
        // grandchild hoisted over two levels into the top object
        hx.add_op("collapse2-move", "a" + I + "=move(" + TN + "(a" + I + ").child.child)", [i, ty](World& w, Errs& e) {
            if (w.m[i].unspecified || w.m[i].type != ty) return false;
            const MT& c1 = w.m[i].child[0];
            if (c1.unspecified || c1.type < 2 || c1.child[0].unspecified) return false;
            N* n = xtl::any_cast<N>(&w.a(i));
            if (!n) { e.add("any_cast-pointer", "any_cast is null although the model holds the type"); return true; }
            xtl::any* g = child_of(kid(*n));
            if (!g) { e.add("any_cast-pointer", "inner any_cast is null although the model holds a node"); return true; }
            MT c = c1.child[0];
            w.a(i) = std::move(*g);
            w.m[i] = c;
            return true; });
    }
}

static void build_ops(HX& hx)
{
    for (int i = 0; i < NOBJ; ++i)
    {
        const std::string I = str(i);
        for (int v : {1, 2})
            hx.add_op("assign(rvalue)", "a" + I + "=Small " + str(v), [i, v](World& w, Errs&) { w.a(i) = Small(v); w.m[i] = MT::small(v); return true; });
        hx.add_op("reset", "a" + I + ".reset()", [i](World& w, Errs&) { w.a(i).reset(); w.m[i] = MT(); return true; });
        for (int j = 0; j < NOBJ; ++j)
        {
            if (i == j) continue;
            const std::string J = str(j);
            hx.add_op("copy-assign", "a" + I + "=a" + J, [i, j](World& w, Errs&) { if (w.m[j].unspecified) return false; w.a(i) = w.a(j); w.m[i] = w.m[j]; return true; });
            hx.add_op("move-assign", "a" + I + "=move(a" + J + ")", [i, j](World& w, Errs&) { if (w.m[j].unspecified) return false; w.a(i) = std::move(w.a(j)); w.m[i] = w.m[j]; w.m[j].unspecified = true; return true; });
            if (i < j) hx.add_op("swap", "a" + I + ".swap(a" + J + ")", [i, j](World& w, Errs&) { w.a(i).swap(w.a(j)); std::swap(w.m[i], w.m[j]); return true; });
        }
    }
    node_ops<Node>(hx);
    node_ops<Handle>(hx);
}

int main(int argc, char** argv)
{
    int depth = 1 << 30;
    std::string replay, inst = "nest2";
    bool do_replay = false;
    long long max_states = 1LL << 40;
    double deadline = 1e18;
    for (int i = 1; i < argc; ++i)
    {
        std::string a = argv[i];
        if (a == "--depth") depth = atoi(argv[++i]);
        else if (a == "--nest") { g_maxdepth = atoi(argv[++i]); inst = "nest" + str(g_maxdepth); }
        else if (a == "--max-states") max_states = atoll(argv[++i]);
        else if (a == "--deadline") deadline = atof(argv[++i]);
        else if (a == "--replay") { do_replay = true; inst = argv[++i]; replay = argv[++i]; g_maxdepth = atoi(inst.c_str() + 4); }
    }
    HX hx;
    hx.prop = "C06";
    hx.inst = inst;
    hx.max_depth = depth;
    hx.max_states = max_states;
    hx.deadline_s = deadline;
    build_ops(hx);
    if (do_replay) { hx.replay(replay); vf::done(); return 0; }
    hx.run();
    hx.summarize(depth == (1 << 30));
    vf::stat("operation_instances", (long long)hx.ops.size());
    vf::done();
    return 0;
}
